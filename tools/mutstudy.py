#!/venv/bin/python
"""Mutation study = the self-test of the monitors (DESIGN 2.5 / 8.1, now with the real checks).

AST mutants (comparison / arithmetic / constant +-1 / side= / boolean / statement deletion /
negated condition / swapped arguments / swapped slice bound; at most N per function) of the
functions the properties anchor are applied one at a time to a scratch copy of the
repository (outside /repo and /verif, deleted after each mutant).  For each mutant:
  1. the pinned test-suite is run; a mutant it kills is of no interest;
  2. otherwise the quick checks of the properties anchored in the mutated file are run with
     RTMON_REPO pointing at the copy, until one reports VIOLATION.
Results: selftest/mutation_results.json and selftest/MUTATION.md.

usage: tools/mutstudy.py [--per-func 4] [--jobs 4] [--limit N] [--files substr,...]"""
import argparse
import collections
import json
import os
import random
import shutil
import subprocess
import sys
import time
from concurrent.futures import ThreadPoolExecutor

VERIF = os.path.dirname(os.path.dirname(os.path.abspath(__file__)))
sys.path.insert(0, os.path.join(VERIF, "recon"))
import mut as M   # the mutant generator of the pilot study (recon/mut.py)

PY = "/venv/bin/python"
SCRATCH = "/tmp/rtmon-mut"
PROPS_FOR = {
    "npstructures/raggedshape.py": ["C02", "C03", "C01", "C06", "C04", "C12", "C08", "C19", "C10"],
    "npstructures/raggedarray/__init__.py": ["C05", "C04", "C01", "C07", "C09", "C08", "C06", "C17", "C11"],
    "npstructures/raggedarray/base.py": ["C06", "C02", "C03", "C10", "C01"],
    "npstructures/raggedarray/indexablearray.py": ["C02", "C03", "C06", "C08", "C09", "C10", "C11"],
    "npstructures/raggedarray/raggedslice.py": ["C08", "C15", "C17"],
    "npstructures/mixin.py": ["C08", "C15"],
    "npstructures/arrayfunctions.py": ["C07", "C08", "C05", "C06"],
    "npstructures/hashtable.py": ["C11", "C12"],
    "npstructures/bitarray.py": ["C13"],
    "npstructures/runlengtharray.py": ["C16", "C15", "C14", "C17"],
    "npstructures/util.py": ["C14", "C16", "C17", "C07"],
    "npstructures/npdataclasses.py": ["C18"],
}


def one(m, shards):
    d = "%s/%d" % (SCRATCH, m["id"])
    r = {"id": m["id"], "file": m["file"], "func": m["func"], "kind": m["kind"], "line": m["line"]}
    try:
        shutil.rmtree(d, ignore_errors=True)
        os.makedirs(d)
        ign = shutil.ignore_patterns("__pycache__")
        shutil.copytree("/repo/npstructures", d + "/npstructures", ignore=ign)
        shutil.copytree("/repo/tests", d + "/tests", ignore=ign)
        shutil.copy("/repo/conftest.py", d)
        shutil.copy("/repo/setup.cfg", d)
        open(os.path.join(d, m["file"]), "w").write(m["src"])
        env = dict(os.environ, PYTHONPATH=d, PYTHONDONTWRITEBYTECODE="1", PYTHONHASHSEED="0")
        try:
            p = subprocess.run([PY, "-m", "pytest", "-q", "-x", "-p", "no:cacheprovider", "--timeout=120"], cwd=d, env=env, capture_output=True, text=True, timeout=400)
            r["suite"] = "pass" if p.returncode == 0 else "fail"
        except subprocess.TimeoutExpired:
            r["suite"] = "timeout"
        if r["suite"] != "pass":
            return r
        r["checks"] = {}
        env2 = dict(os.environ, RTMON_REPO=d, PYTHONDONTWRITEBYTECODE="1")
        for pid in PROPS_FOR.get(m["file"], []):
            try:
                p = subprocess.run([os.path.join(VERIF, "check"), pid, "--tier", "quick", "--shards", str(shards)], cwd=VERIF, env=env2, capture_output=True, text=True, timeout=900)
                rc = p.returncode
            except subprocess.TimeoutExpired:
                rc = -1
            r["checks"][pid] = {0: "held", 1: "VIOLATION", 2: "inconclusive"}.get(rc, "timeout")
            if rc == 1:
                r["killed_by"] = pid
                break
        return r
    finally:
        shutil.rmtree(d, ignore_errors=True)


def main():
    ap = argparse.ArgumentParser()
    ap.add_argument("--per-func", type=int, default=4)
    ap.add_argument("--jobs", type=int, default=4)
    ap.add_argument("--shards", type=int, default=4)
    ap.add_argument("--limit", type=int, default=0)
    ap.add_argument("--files", default="")
    ap.add_argument("--seed", type=int, default=1)
    ap.add_argument("--only", default="", help="comma-separated mutant ids: run just these, print the outcome and the mutated lines, merge into selftest/mutation_results.json")
    ap.add_argument("--survivors", action="store_true", help="re-run the survivors recorded in selftest/mutation_results.json")
    a = ap.parse_args()
    rng = random.Random(a.seed)
    allm = []
    for f, funcs in M.ANCH.items():
        if a.files and not any(s in f for s in a.files.split(",")):
            continue
        ms = M.gen(f, funcs)
        byf = {}
        for m in ms:
            byf.setdefault(m["func"], []).append(m)
        for fn, l in sorted(byf.items()):
            rng.shuffle(l)
            allm += l[:a.per_func]
    for i, m in enumerate(allm):
        m["id"] = i
    only = set(int(x) for x in a.only.split(",") if x)
    resfile = os.path.join(VERIF, "selftest", "mutation_results.json")
    if a.survivors:
        old = json.load(open(resfile))
        only |= {r["id"] for r in old["results"] if r["suite"] == "pass" and not r.get("killed_by")}
    if only:
        import difflib
        sel = [m for m in allm if m["id"] in only]
        old = json.load(open(resfile)) if os.path.exists(resfile) else {"results": []}
        byid = {r["id"]: r for r in old["results"]}
        os.makedirs(SCRATCH, exist_ok=True)
        with ThreadPoolExecutor(a.jobs) as ex:
            for m, r in zip(sel, ex.map(lambda m: one(m, a.shards), sel)):
                orig = open(os.path.join("/repo", m["file"])).read().splitlines()
                d = [l for l in difflib.unified_diff(orig, m["src"].splitlines(), lineterm="", n=0) if not l.startswith(("---", "+++"))]
                print("#%d %s %s line %d %s -> suite=%s killed_by=%s checks=%s" % (m["id"], m["file"], m["func"], m["line"], m["kind"], r["suite"], r.get("killed_by"), r.get("checks")), flush=True)
                for l in d[:8]:
                    print("      " + l)
                byid[m["id"]] = r
        old["results"] = [byid[k] for k in sorted(byid)]
        json.dump(old, open(resfile, "w"), indent=0)
        shutil.rmtree(SCRATCH, ignore_errors=True)
        return
    if a.limit:
        rng.shuffle(allm)
        allm = allm[:a.limit]
    print("%d mutants" % len(allm), collections.Counter(m["file"] for m in allm), flush=True)
    os.makedirs(SCRATCH, exist_ok=True)
    t0 = time.time()
    res = []
    with ThreadPoolExecutor(a.jobs) as ex:
        for i, r in enumerate(ex.map(lambda m: one(m, a.shards), allm)):
            res.append(r)
            if i % 20 == 0:
                print(i, "%.0fs" % (time.time() - t0), r.get("suite"), r.get("killed_by"), flush=True)
    shutil.rmtree(SCRATCH, ignore_errors=True)
    out = os.path.join(VERIF, "selftest")
    os.makedirs(out, exist_ok=True)
    head = subprocess.run(["git", "-C", "/repo", "rev-parse", "--short", "HEAD"], capture_output=True, text=True).stdout.strip()
    json.dump({"repo_head": head, "per_func": a.per_func, "seed": a.seed, "results": res}, open(os.path.join(out, "mutation_results.json"), "w"), indent=0)
    # summary
    by = collections.defaultdict(lambda: collections.Counter())
    for r in res:
        k = "killed by pinned suite" if r["suite"] != "pass" else ("suite passes, a check reports VIOLATION" if r.get("killed_by") else "survives both")
        by[r["file"]][k] += 1
        by["all"][k] += 1
    cols = ["killed by pinned suite", "suite passes, a check reports VIOLATION", "survives both"]
    lines = ["# Mutation study (self-test of the monitors)", "",
             "`tools/mutstudy.py --per-func %d --seed %d` against /repo %s; quick tier of the checks anchored in the mutated file." % (a.per_func, a.seed, head), "",
             "| file | mutants | " + " | ".join(cols) + " |", "|---|---|" + "---|" * len(cols)]
    for f in ["all"] + sorted(k for k in by if k != "all"):
        c = by[f]
        lines.append("| %s | %d | %s |" % (f, sum(c.values()), " | ".join(str(c[k]) for k in cols)))
    lines += ["", "## Survivors (suite passes, no check fires)", ""]
    for r in res:
        if r["suite"] == "pass" and not r.get("killed_by"):
            lines.append("* #%d %s `%s` line %d, %s — checks: %s" % (r["id"], r["file"], r["func"], r["line"], r["kind"], r.get("checks")))
    open(os.path.join(out, "MUTATION.md"), "w").write("\n".join(lines) + "\n")
    print("\n".join(lines[:12]))
    print("done in %.0fs" % (time.time() - t0))


if __name__ == "__main__":
    main()
