#!/venv/bin/python
"""Confirm seeded defects and run the checks against them.

  tools/seedrun.py harvest <src-dir> <seed-id> <property>   copy {patch.diff,demo.py,notes.md} into seeded/<seed-id>/, confirm, write meta.json
  tools/seedrun.py run [seed-id ...] [--tier quick] [--props C01,C02]   apply each patch to a scratch worktree and run the checks with RTMON_REPO

Everything happens in a scratch git worktree of /repo under /tmp (removed afterwards); /repo itself is never modified."""
import json
import os
import shutil
import subprocess
import sys
import time

VERIF = os.path.dirname(os.path.dirname(os.path.abspath(__file__)))
SEEDED = os.path.join(VERIF, "seeded")
PY = "/venv/bin/python"


def sh(cmd, cwd=None, timeout=1800, env=None):
    r = subprocess.run(cmd, cwd=cwd, shell=isinstance(cmd, str), capture_output=True, text=True, timeout=timeout, env=env)
    return r.returncode, (r.stdout + r.stderr)


class Scratch:
    def __init__(self, tag="sv"):
        self.dir = "/tmp/rtmon-seed-%s-%d" % (tag, os.getpid())

    def __enter__(self):
        sh(["git", "-C", "/repo", "worktree", "remove", "--force", self.dir])
        rc, out = sh(["git", "-C", "/repo", "worktree", "add", "-q", "--detach", self.dir, "HEAD"])
        if rc:
            raise RuntimeError(out)
        return self.dir

    def __exit__(self, *a):
        sh(["git", "-C", "/repo", "worktree", "remove", "--force", self.dir])
        shutil.rmtree(self.dir, ignore_errors=True)
        sh(["git", "-C", "/repo", "worktree", "prune"])


def apply_patch(wt, patch):
    rc, out = sh(["git", "-C", wt, "apply", "--whitespace=nowarn", patch])
    if rc:
        rc, out = sh(["git", "-C", wt, "apply", "--3way", "--whitespace=nowarn", patch])
    return rc == 0, out


def reset(wt):
    sh(["git", "-C", wt, "checkout", "--", "."])
    sh(["git", "-C", wt, "reset", "-q", "--hard", "HEAD"])


def suite(wt):
    for f in ("tests", "conftest.py", "setup.cfg"):
        pass
    rc, out = sh([PY, "-m", "pytest", "-q", "-p", "no:cacheprovider", "-x", "--timeout=900"], cwd=wt, timeout=1200)
    tail = out.strip().splitlines()[-1] if out.strip() else ""
    return rc, tail


def demo(wt, path):
    env = dict(os.environ, PYTHONDONTWRITEBYTECODE="1")
    rc, out = sh([PY, path], cwd=wt, timeout=600, env=env)
    return rc, out[-1500:]


def harvest(src, sid, prop):
    dst = os.path.join(SEEDED, sid)
    os.makedirs(dst, exist_ok=True)
    for f in ("patch.diff", "demo.py", "notes.md"):
        shutil.copy(os.path.join(src, f), os.path.join(dst, f))
    meta = {"seed_id": sid, "property": prop, "source": "independent sub-agent given only the property text and a scratch worktree"}
    with Scratch(sid) as wt:
        dpath = os.path.join(dst, "demo.py")
        rc0, out0 = demo(wt, dpath)
        ok, out = apply_patch(wt, os.path.join(dst, "patch.diff"))
        meta["patch_applies_to_head"] = ok
        if not ok:
            meta["apply_error"] = out[-400:]
        else:
            src_file = open(os.path.join(wt, "npstructures", "__init__.py")).read()  # import check
            rcs, tail = suite(wt)
            rc1, out1 = demo(wt, dpath)
            meta.update({"suite_with_patch": tail, "suite_rc": rcs, "demo_rc_with_patch": rc1, "demo_rc_without_patch": rc0,
                         "demo_tail_with_patch": out1[-600:]})
            meta["confirmed"] = bool(rcs == 0 and rc1 == 1 and rc0 == 0)
        rc, head = sh(["git", "-C", "/repo", "rev-parse", "HEAD"])
        meta["repo_head"] = head.strip()
    try:
        notes = open(os.path.join(dst, "notes.md")).read()
        meta["needs_to_manifest"] = notes[:1200]
    except Exception:
        pass
    meta["ran"] = ["git apply patch.diff (scratch worktree of /repo HEAD)", "pytest -q -x (pinned suite)", "demo.py with and without the patch"]
    json.dump(meta, open(os.path.join(dst, "meta.json"), "w"), indent=1)
    print(sid, "confirmed" if meta.get("confirmed") else "NOT CONFIRMED", {k: meta.get(k) for k in ("patch_applies_to_head", "suite_with_patch", "demo_rc_with_patch", "demo_rc_without_patch")})
    return meta


def run(sids, tier, props):
    results = {}
    for sid in sids:
        d = os.path.join(SEEDED, sid)
        meta = json.load(open(os.path.join(d, "meta.json")))
        plist = props or [meta["property"]]
        with Scratch(sid) as wt:
            ok, out = apply_patch(wt, os.path.join(d, "patch.diff"))
            if not ok:
                print(sid, "patch does not apply:", out[-200:])
                continue
            for p in plist:
                env = dict(os.environ, RTMON_REPO=wt)
                t0 = time.time()
                rc, out = sh([os.path.join(VERIF, "check"), p, "--tier", tier], cwd=VERIF, env=env, timeout=7200)
                last = out.strip().splitlines()[-1] if out.strip() else ""
                results[(sid, p)] = rc
                print("%-10s %s rc=%d  %.0fs  %s" % (sid, p, rc, time.time() - t0, last[:160]), flush=True)
                det = meta.setdefault("detected_by", {})
                det["%s:%s" % (p, tier)] = {0: "missed", 1: "VIOLATION", 2: "inconclusive"}.get(rc, str(rc))
        json.dump(meta, open(os.path.join(d, "meta.json"), "w"), indent=1)
    return results


RELATED = {
    "npstructures/raggedshape.py": ["C02", "C03", "C01", "C06", "C04", "C12", "C08", "C19", "C10", "C05", "C07", "C09"],
    "npstructures/raggedarray/__init__.py": ["C05", "C04", "C01", "C07", "C09", "C08", "C06", "C10", "C17", "C11", "C19"],
    "npstructures/raggedarray/base.py": ["C06", "C02", "C03", "C10", "C01", "C19"],
    "npstructures/raggedarray/indexablearray.py": ["C02", "C03", "C06", "C08", "C09", "C10", "C11", "C19"],
    "npstructures/raggedarray/raggedslice.py": ["C08", "C15", "C17"],
    "npstructures/mixin.py": ["C08", "C15"],
    "npstructures/arrayfunctions.py": ["C07", "C08", "C05", "C06", "C10"],
    "npstructures/hashtable.py": ["C11", "C12"],
    "npstructures/bitarray.py": ["C13"],
    "npstructures/runlengtharray.py": ["C16", "C15", "C14", "C17"],
    "npstructures/util.py": ["C14", "C16", "C17", "C07"],
    "npstructures/npdataclasses.py": ["C18"],
}


def related_props(sid):
    files = set()
    for l in open(os.path.join(SEEDED, sid, "patch.diff")):
        if l.startswith("+++ b/"):
            files.add(l[6:].strip())
    out = []
    for f in sorted(files):
        for p in RELATED.get(f, []):
            if p not in out:
                out.append(p)
    return out


def main():
    a = sys.argv[1:]
    if a and a[0] == "matrix":
        # every seed against the quick checks of all properties anchored in the files its patch touches
        sids = a[1:] or sorted(os.listdir(SEEDED))
        for sid in sids:
            if os.path.isdir(os.path.join(SEEDED, sid)) and os.path.exists(os.path.join(SEEDED, sid, "meta.json")):
                meta = json.load(open(os.path.join(SEEDED, sid, "meta.json")))
                props = [p for p in related_props(sid) if "%s:quick" % p not in meta.get("detected_by", {})]
                if props:
                    run([sid], "quick", props)
        return
    if a and a[0] == "harvest":
        harvest(a[1], a[2], a[3])
    elif a and a[0] == "run":
        tier = "quick"
        props = None
        sids = []
        i = 1
        while i < len(a):
            if a[i] == "--tier":
                tier = a[i + 1]
                i += 2
            elif a[i] == "--props":
                props = a[i + 1].split(",")
                i += 2
            else:
                sids.append(a[i])
                i += 1
        if not sids:
            sids = sorted(os.listdir(SEEDED))
        run(sids, tier, props)
    else:
        print(__doc__)


if __name__ == "__main__":
    main()
