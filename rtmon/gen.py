"""Seeded generators shared by the property drivers (DESIGN section 4)."""
import numpy as np

DT_BOOL = ["bool"]
DT_SIGNED = ["int8", "int16", "int32", "int64"]
DT_UNSIGNED = ["uint8", "uint16", "uint32", "uint64"]
DT_FLOAT = ["float32", "float64"]
DT_INT = DT_SIGNED + DT_UNSIGNED
DT_ALL = DT_BOOL + DT_INT + DT_FLOAT
DT_EXOTIC = ["complex64", "complex128", "longdouble"]     # element types without a same-width unsigned twin / beyond float64 (used by the ragged drivers that opt in)

STRATA = ["norows", "onerow", "onlyempty", "emptyfirst", "emptylast", "emptymid",
          "consecutive", "trailingrun", "noempty", "onelong", "free", "big", "manyempty", "rect", "pow2", "coincide"]


def sizes(tier):
    return (6, 6) if tier == "quick" else (14, 12)


# Set by the shard while it produces the code-constant cases (rtmon/codeconst.py): {"size": s, "form": f, "used": 0}.  The first size a
# driver's generator draws for a case is then s (a number taken from the library source, +-1) instead of a random one.
FORCED = None


def forced_size():
    """the forced size (and its form) if one is pending for the case being generated, else None; marks it used"""
    f = FORCED
    if f is None or f["used"]:
        return None
    f["used"] += 1
    return f["size"], f["form"]


def const_lens(rng, s, form):
    """row-length vector in which the number `s` occurs as: the number of rows / of cells / the length of one row / the length of a run
    of empty rows / the number of non-empty rows"""
    short = lambda: rng.choice([0, 1, 1, 2])
    if form == "rows" and rng.random() < 0.3:
        lens = [rng.choice([1, 1, 2, 3])] * s          # s rows, all equally long
    elif form == "cells" and rng.random() < 0.3 and any(s % k == 0 for k in (2, 3, 4, 5, 8)):
        k = rng.choice([k for k in (2, 3, 4, 5, 8) if s % k == 0])
        lens = [k] * (s // k)                          # s cells in equally long rows
    elif form == "rows":
        lens = [short() for _ in range(s)]
        if rng.random() < 0.5:
            lens[-1] = max(1, lens[-1])
        if sum(lens) == 0:
            lens[0] = 1
    elif form == "cells":
        k = rng.randint(2, 5)
        cuts = sorted(rng.randint(0, s) for _ in range(k - 1))
        lens = [b - a for a, b in zip([0] + cuts, cuts + [s])]
        lens.insert(rng.randrange(len(lens) + 1), 0)
    elif form == "rowlen":
        lens = [short() for _ in range(rng.randint(1, 4))]
        lens.insert(rng.randrange(len(lens) + 1), s)
    elif form == "emptyrun":
        lens = [rng.randint(1, 3) for _ in range(rng.choice([0, 0, 1, 2]))] + [0] * s + [rng.randint(1, 3) for _ in range(rng.randint(1, 2))]
    else:       # "nonempty": exactly s non-empty rows with a few empty ones in between
        lens = []
        for _ in range(s):
            lens.append(rng.randint(1, 2))
            if rng.random() < 0.15:
                lens.append(0)
    return lens


def length_vector(rng, tier="quick", stratum=None, maxrows=None, maxlen=None, minrows=0):
    """row-length vector of a named stratum (every stratum is forced to occur)"""
    if FORCED is not None and not FORCED["used"] and (maxrows is None or FORCED["size"] <= 1500):
        s_, form_ = forced_size()
        lens = const_lens(rng, s_, form_)
        while len(lens) < minrows:
            lens.append(1)
        return lens, "codeconst"
    mr, ml = sizes(tier)
    maxrows = maxrows or mr
    maxlen = maxlen or ml
    stratum = stratum or rng.choice(STRATA)
    pos = lambda: rng.randint(1, maxlen)
    if stratum == "norows":
        lens = []
    elif stratum == "onerow":
        lens = [rng.choice([0, 1, pos()])]
    elif stratum == "onlyempty":
        lens = [0] * rng.randint(1, maxrows)
    elif stratum == "emptyfirst":
        lens = [0] + [pos() for _ in range(rng.randint(1, maxrows - 1))]
    elif stratum == "emptylast":
        lens = [pos() for _ in range(rng.randint(1, maxrows - 1))] + [0]
    elif stratum == "emptymid":
        a = [pos() for _ in range(rng.randint(1, max(1, maxrows // 2)))]
        b = [pos() for _ in range(rng.randint(1, max(1, maxrows // 2)))]
        lens = a + [0] + b
    elif stratum == "consecutive":
        a = [pos() for _ in range(rng.randint(0, 2))]
        b = [pos() for _ in range(rng.randint(0, 2))]
        lens = a + [0] * rng.randint(2, 3) + b
    elif stratum == "trailingrun":
        lens = [rng.choice([0, pos(), pos()]) for _ in range(rng.randint(1, max(1, maxrows - 3)))] + [0] * rng.randint(2, 3)
    elif stratum == "noempty":
        lens = [pos() for _ in range(rng.randint(2, maxrows))]
    elif stratum == "onelong":
        lens = [rng.choice([0, 1, 2]) for _ in range(rng.randint(2, maxrows))]
        lens[rng.randrange(len(lens))] = maxlen * (2 if tier == "quick" else 6)
    elif stratum == "manyempty":
        # a long run of consecutive empty rows (beyond 127 / 255: small counters overflow) followed by non-empty rows
        run = rng.choice([126, 127, 128, 129, 200, 255, 256, 257, 300])
        lens = [pos() for _ in range(rng.randint(0, 2))] + [0] * run + [pos() for _ in range(rng.randint(1, 3))] + ([0] * rng.choice([0, 130]) if rng.random() < 0.3 else [])
    elif stratum == "rect":
        # all rows equally long: a ragged array that happens to be rectangular (matrix fast paths)
        k = rng.choice([1, 1, 2, 3, rng.randint(1, maxlen)])
        lens = [k] * rng.randint(1, maxrows)
    elif stratum == "pow2":
        # sizes that sit exactly on a power of two / a block size: exactly 64 / 128 / 256 cells, or exactly 64 / 128 rows
        if rng.random() < 0.5:
            total = rng.choice([64, 64, 128, 256])
            lens = []
            while sum(lens) < total:
                lens.append(min(rng.choice([0, 1, 3, 8, 16, 31, 32, 33, 64]), total - sum(lens)))
            if rng.random() < 0.3:
                lens.append(0)
        else:
            lens = [rng.choice([0, 1, 1, 2]) for _ in range(rng.choice([64, 128]))]
            if rng.random() < 0.5:
                lens[-1] = max(1, lens[-1])
    elif stratum == "coincide":
        # row lengths with an arithmetic coincidence that a shortcut might mistake for regularity: the first (or last) row exactly as long as the
        # average row (total = rows x first), deviations that cancel in pairs, a palindrome, all lengths even, two equal neighbours
        n = rng.randint(3, max(3, maxrows))
        L = rng.randint(1, maxlen)
        kind = rng.choice(["first-is-mean", "last-is-mean", "cancel", "palindrome", "even"])
        if kind in ("first-is-mean", "last-is-mean", "cancel"):
            rest = [L] * (n - 1)
            for _ in range(rng.randint(1, n)):
                i, j = rng.randrange(n - 1), rng.randrange(n - 1)
                d = rng.randint(0, rest[i])
                rest[i] -= d
                rest[j] += d
            lens = ([L] + rest) if kind != "last-is-mean" else (rest + [L])
        elif kind == "palindrome":
            half = [rng.choice([0, pos(), pos()]) for _ in range(max(1, n // 2))]
            lens = half + [pos()] * (n % 2) + half[::-1]
        else:
            lens = [2 * rng.randint(0, max(1, maxlen // 2)) for _ in range(n)]
    elif stratum == "big":
        # more than 20 rows and more than 100 cells: the other branches of repr/str, several 64-cell blocks, long prefix sums
        lens = [rng.choice([0, 0, 1, 3, 5, 8, 9]) for _ in range(rng.randint(22, 40))]
        lens[rng.randrange(len(lens))] = rng.choice([70, 101, 130])
    else:
        p0 = rng.choice([0.1, 0.3, 0.6])
        lens = [0 if rng.random() < p0 else pos() for _ in range(rng.randint(minrows, maxrows))]
    while len(lens) < minrows:
        lens.append(pos())
    return lens, stratum


def empty_placement(lens):
    """tags describing where the empty rows are"""
    t = []
    if not lens:
        return ["norows"]
    if all(l == 0 for l in lens):
        return ["allempty"]
    if lens[0] == 0:
        t.append("e-first")
    if lens[-1] == 0:
        t.append("e-last")
    if any(l == 0 for l in lens[1:-1]):
        t.append("e-mid")
    if any(a == 0 and b == 0 for a, b in zip(lens, lens[1:])):
        t.append("e-consec")
    if not t:
        t.append("e-none")
    return t


def values(rng, dtype, n, vclass="small"):
    """n values of a dtype from a tagged value class"""
    dt = np.dtype(dtype)
    if vclass == "sparse":
        # mostly zeros: the class that makes any / all / nonzero / logical ufuncs non-trivial
        pool = [0, 0, 0, 1, 2] + ([-1] if dt.kind in "if" else [])
        return np.array([rng.choice(pool) for _ in range(n)]).astype(dt)
    if dt.kind == "b":
        return np.array([rng.random() < 0.5 for _ in range(n)], dtype=bool)
    if dt.kind in "iu":
        ii = np.iinfo(dt)
        if vclass == "extreme":
            pool = [0, 1, 2, 3, int(ii.max), int(ii.max) - 1, int(ii.min), int(ii.min) + 1]
            if ii.min < 0:
                pool += [-1, -2]
            return np.array([rng.choice(pool) for _ in range(n)], dtype=dt)
        if vclass == "pow2":
            # magnitudes at every power of two the type holds (not only its extremes): a base value plus 0, small numbers, 2**k and its neighbours
            bits = dt.itemsize * 8 - (1 if ii.min < 0 else 0)
            k = rng.randint(min(5, bits - 2), bits - 2)
            base = rng.choice([0, 0, 1, 7] + ([-(2 ** (k - 1)), -3] if ii.min < 0 else []))
            pool = [base, base + 1, base + 3, base + 7, base + 2 ** k, base + 2 ** k - 1, base + 2 ** k + 1, base + 2 ** (k - 1), base + 2 ** k + 2 ** (k - 2)]
            pool = [v for v in pool if ii.min <= v <= ii.max]
            return np.array([rng.choice(pool) for _ in range(n)], dtype=dt)
        lo = max(int(ii.min), -100)
        hi = min(int(ii.max), 100)
        return np.array([rng.randint(lo, hi) for _ in range(n)], dtype=dt)
    if dt.kind == "c":
        # complex: real and imaginary parts from the float class of the same name (parts of the matching precision)
        part = {8: "float32", 16: "float64"}.get(dt.itemsize, "float64")
        re_, im_ = values(rng, part, n, vclass), values(rng, part, n, vclass)
        return (re_.astype(dt) + 1j * im_.astype(dt) if vclass not in ("nonfinite",) else np.array([complex(a, b) for a, b in zip(re_.tolist(), im_.tolist())], dtype=dt)).astype(dt)
    if dt.kind == "f" and dt.itemsize > 8:
        return values(rng, "float64", n, vclass).astype(dt)       # extended precision: the float64 classes, widened
    # floats
    if vclass == "decimal":
        # values that are not exactly representable / of very different magnitude: anything that re-derives them by arithmetic (differences, prefix sums) gets them wrong
        pool = [0.1, 0.7, 3.3, 0.05, 1.0 / 3.0, 2.5, 1e16, 1.0, 1e-9, 123456.789, -0.3, 0.9, 1e9]
        return np.array([rng.choice(pool) for _ in range(n)], dtype=dt)
    if vclass == "nonfinite":
        # (a NaN with the sign bit set is what inf - inf gives on x86; numpy orders, compares and prints it like any other NaN)
        pool = [0.0, -0.0, 1.0, -1.5, 2.25, float("nan"), float("inf"), float("-inf"), 1.0, -float("nan")]
        return np.array([rng.choice(pool) for _ in range(n)], dtype=dt)
    if vclass == "extreme":
        pool = [0.0, 1.0, -1.5, 2.25, 1e30, -1e30, 2.0 ** 24 + 2, 3e-5]
        return np.array([rng.choice(pool) for _ in range(n)], dtype=dt)
    # dyadic: k/4, exact sums / differences in float32 too (|k| small)
    return np.array([rng.randint(-400, 400) / 4.0 for _ in range(n)], dtype=dt)


def split_rows(flat, lens):
    offs = np.concatenate([[0], np.cumsum(lens)]).astype(int)
    return [flat[offs[i]:offs[i + 1]] for i in range(len(lens))]


def id_rows(lens, base=0):
    """unique cell ids: value = base + 1000*row + col + 1 (never 0, decodes to (row, col))"""
    return [[base + 1000 * i + j + 1 for j in range(l)] for i, l in enumerate(lens)]


FAR = [2 ** 31, -2 ** 31, 2 ** 31 - 1, -(2 ** 31) - 1, 2 ** 32 + 3, 2 ** 40, -2 ** 40, 2 ** 62, -2 ** 62]


def gen_slice(rng, n, steps=(None, 1, 1, 2, 3, -1, -1, -2, -3, 7, -7), far=False):
    """far=True: now and then a start / stop / step far beyond any length (and beyond 32 bits): python clamps them"""
    def b():
        if far and rng.random() < 0.04:
            return rng.choice(FAR)
        return rng.choice([None, None, rng.randint(-n - 2, n + 2)])
    st = rng.choice(steps)
    if far and rng.random() < 0.04:
        st = rng.choice(FAR)
    parts = [b(), b(), st]
    if far and rng.random() < 0.12:
        # start / stop / step carried by numpy integers (what arithmetic on index arrays hands out) -- now and then the extreme value of the carrier type
        for k in range(3):
            if parts[k] is not None and rng.random() < 0.6:
                if rng.random() < 0.25:
                    d = rng.choice(["int8", "int16", "int32", "int64", "uint8"])
                    v = int(np.iinfo(d).min) if (rng.random() < 0.6 and np.iinfo(d).min < 0) else int(np.iinfo(d).max)
                    parts[k] = np.dtype(d).type(v)
                else:
                    fits = [d for d in NP_INTS if np.iinfo(d).min <= parts[k] <= np.iinfo(d).max]
                    if fits:
                        parts[k] = np.dtype(rng.choice(fits)).type(parts[k])
        if parts[2] is not None and int(parts[2]) == 0:
            parts[2] = None
    return slice(*parts)


def slice_tag(s):
    st = 1 if s.step is None else s.step
    return "step+1" if st == 1 else ("step+k" if st > 0 else ("step-1" if st == -1 else "step-k"))


NP_INTS = ["int8", "uint8", "int16", "uint16", "int32", "uint32", "int64", "uint64"]


def np_int(rng, v):
    """the integer v as a python int or as a numpy integer of a random dtype that can hold it (unsigned and narrow types included)"""
    if rng.random() < 0.5:
        return int(v)
    fits = [d for d in NP_INTS if np.iinfo(d).min <= v <= np.iinfo(d).max]
    return np.dtype(rng.choice(fits)).type(v) if fits else int(v)
