"""Shared pieces of the run-length drivers (C14-C17): run-pattern generators, canonical
form checks on the public starts / ends / values, decoding helpers."""
import numpy as np
from .core import CTX, same_array
from . import gen

STYLES = ["allsame", "alldiff", "runs", "single", "longruns"]
DT_RL = gen.DT_ALL + ["float16"] + gen.DT_EXOTIC


def gen_runs(rng, dtype, vclass="small", maxlen=20, style=None, length=None):
    """1-D array with a named run pattern"""
    if length is None and gen.FORCED is not None and not gen.FORCED["used"]:
        s_, form_ = gen.forced_size()
        return forced_runs(rng, dtype, vclass, s_, form_), "codeconst"
    style = style or rng.choice(STYLES)
    L = length or (rng.randint(1, maxlen) if rng.random() < 0.95 else rng.choice([63, 64, 65, 128, 256]))      # also sizes exactly on / next to a power of two
    if style == "single":
        L = length or 1
    if vclass == "close":
        # neighbouring values that np.isclose would call equal: nearby large numbers, tiny magnitudes
        fam = rng.choice([[1.7e9, 1.7e9 + 1, 1.7e9 + 2], [1000.0, 1000.001, 1000.002], [1e-9, 2e-9, 0.0, -1e-9], [5.0, 5.0 + 1e-7, 5.0 - 1e-7]])
        one = lambda: rng.choice(fam)
        if np.dtype(dtype).kind != "f":
            vclass = "small"
    if vclass != "close":
        one = lambda: gen.values(rng, dtype if dtype != "float16" else "float32", 1, vclass)[0]
    if style == "allsame":
        out = [one()] * L
    elif style == "alldiff":
        out = gen.values(rng, dtype if dtype != "float16" else "float32", L, vclass).tolist() if vclass != "close" else [one() for _ in range(L)]
    else:
        out = []
        while len(out) < L:
            out += [one()] * rng.randint(1, 3 if style == "runs" else 9)
        out = out[:L]
    return np.array(out).astype(dtype), style


def forced_runs(rng, dtype, vclass, s, form):
    """1-D array in which the number `s` (a constant of the library source, +-1) is the number of runs ("rows", "nonempty"), the length of
    the array ("cells", "rowlen") or the length of one run ("emptyrun"); generated with numpy for speed"""
    base = dtype if dtype != "float16" else "float32"
    pool = gen.values(rng, base, 12, vclass if vclass != "close" else "small")
    if pool.dtype.kind == "f":
        pool = pool[~np.isnan(pool)]
    pool = np.unique(pool.astype(dtype))
    if len(pool) < 2:
        pool = np.unique(np.array([0, 1]).astype(dtype))
    k = len(pool)
    rs = np.random.RandomState(rng.randrange(2 ** 32))

    def runs(nruns, maxrun):
        steps = rs.randint(1, k, size=nruns) if k > 1 else np.zeros(nruns, dtype=int)       # neighbouring runs differ
        idx = (rs.randint(0, k) + np.cumsum(steps)) % k
        return np.repeat(pool[idx], rs.randint(1, maxrun + 1, size=nruns))
    if form in ("rows", "nonempty"):
        out = runs(s, 3 if form == "rows" else 1)
    elif form in ("cells", "rowlen"):
        out = runs(s, 9 if form == "cells" else 2)[:s]
    else:
        a, b = runs(rs.randint(0, 3), 3), runs(rs.randint(1, 3), 3)
        mid = np.repeat(pool[rs.randint(0, k)], s)
        out = np.concatenate([a, mid, b])
    return out.astype(dtype)


def canonical(rla, joined=False):
    """None if the run-length array is in canonical form, else a message.
    joined=True additionally demands that no two adjacent runs hold equal values."""
    try:
        starts = np.asarray(rla.starts)
        ends = np.asarray(rla.ends)
        values = np.asarray(rla.values)
    except Exception as e:
        return "starts/ends/values unreadable: %r" % e
    if len(starts) == 0:
        return None if len(values) == 0 else "no runs but %d values" % len(values)
    if not (len(starts) == len(ends) == len(values)):
        return "len(starts)=%d len(ends)=%d len(values)=%d" % (len(starts), len(ends), len(values))
    if starts[0] != 0:
        return "first run starts at %s" % starts[0]
    if np.any(ends <= starts):
        return "empty run: starts=%s ends=%s" % (starts.tolist()[:10], ends.tolist()[:10])
    if np.any(starts[1:] != ends[:-1]):
        return "runs not contiguous: starts=%s ends=%s" % (starts.tolist()[:10], ends.tolist()[:10])
    try:
        if int(ends[-1]) != int(len(rla)):
            return "last run ends at %s, len is %s" % (ends[-1], len(rla))
    except Exception:
        pass
    # the public run structure and the decoder must describe the same array
    try:
        if int(ends[-1]) <= 5000:
            rebuilt = np.repeat(values, (ends - starts).astype(np.int64))
            dec = np.asarray(rla.to_array())
            if rebuilt.shape != dec.shape or not same_array(rebuilt, dec, dtype=False):
                return "starts / ends / values describe %s but to_array() gives %s" % (rebuilt.tolist()[:12], dec.tolist()[:12])
    except Exception as e:
        return "the public run structure cannot be compared with to_array(): %r" % (e,)
    if joined and len(values) > 1:
        with np.errstate(all="ignore"):
            same = values[1:] == values[:-1]
        if np.any(same):
            k = int(np.flatnonzero(same)[0])
            return "adjacent runs %d and %d hold the same value %s (values=%s)" % (k, k + 1, values[k], values.tolist()[:12])
    return None


def decode(x):
    """dense form of any run-length result"""
    lib = CTX.lib
    if isinstance(x, lib.RunLengthArray):
        return np.asarray(x.to_array())
    if isinstance(x, (lib.RunLengthRaggedArray,)):
        return x.to_array()
    if isinstance(x, lib.RunLength2dArray):
        return np.asarray(x.to_array())
    return x


# ----------------------------------------------------------------------------- label arrays (strings, bytes, objects, records)

LABEL_POOLS = {
    "U3": ["aa", "b", "cc", "", "b "],
    "S2": [b"x", b"yy", b"", b"z"],
    "O": ["a", None, (1, 2), 3.5, "b", (1, 2.5)],
    "rec": [(1, 2.0), (3, 4.5), (1, 2.5), (0, 0.0)],
}
REC_DTYPE = [("a", "i4"), ("b", "f8")]


def label_array(kind, idx):
    """1-D array of a non-numeric element type whose k-th element is pool[idx[k]]"""
    pool = LABEL_POOLS[kind]
    if kind == "O":
        a = np.empty(len(idx), dtype=object)
        for k, i in enumerate(idx):
            a[k] = pool[i % len(pool)]
        return a
    if kind == "rec":
        return np.array([pool[i % len(pool)] for i in idx], dtype=REC_DTYPE)
    return np.array([pool[i % len(pool)] for i in idx], dtype=kind)


def labels_same(a, b):
    a, b = np.asarray(a), np.asarray(b)
    if a.shape != b.shape or a.dtype != b.dtype:
        return False
    if a.dtype == object:
        return all(type(x) is type(y) and x == y for x, y in zip(a.tolist(), b.tolist()))
    return bool(np.array_equal(a, b))


def run_labels(case, what):
    """Run-length arrays of labels (strings, bytes, python objects, records): the operations that do not compute with the values -- encoding and
    decoding, canonical form, slices with any step, every kind of index, concatenation -- against the dense array.  what: "encode" (C14) or "index" (C15)."""
    from .core import attempt, held, violated, short
    RLA = CTX.lib.RunLengthArray
    kind, idx = case["lkind"], case["idx"]
    v = label_array(kind, idx)
    L = len(v)
    tags = ["k:labels", "labels:" + kind, "labels:" + what]
    e = attempt(RLA.from_array, v.copy())
    desc = "RunLengthArray.from_array(%s array %s)" % (v.dtype, short(v.tolist(), 120))
    if not e.ok:
        return violated("%s raised %r" % (desc, e), tags)
    r = e.value

    def same(got, want, how):
        g = attempt(lambda: np.asarray(got.to_array()) if isinstance(got, RLA) else np.asarray(got))
        if not g.ok or not labels_same(g.value, want):
            return violated("%s: %s gives %s, the dense array gives %s" % (desc, how, repr(g) if not g.ok else short(g.value.tolist(), 120), short(np.asarray(want).tolist(), 120)), tags)
        return None
    for how, f, want in (("to_array()", lambda: r.to_array(), v), ("np.asarray()", lambda: np.asarray(r), v)):
        o = attempt(f)
        bad = violated("%s: %s raised %r" % (desc, how, o), tags) if not o.ok else same(o.value, want, how)
        if bad:
            return bad
    m = attempt(lambda: (int(len(r)), int(r.size), tuple(int(x) for x in r.shape), r.dtype == v.dtype))
    if not m.ok or m.value != (L, L, (L,), True):
        return violated("%s reports len/size/shape/dtype-equal = %s" % (desc, repr(m) if not m.ok else m.value), tags)
    c = canonical(r, joined=False)
    if c:
        return violated("%s is not canonical: %s" % (desc, c), tags + ["not-canonical"])
    probes = []
    if what == "encode":
        for s_ in case["slices"]:
            probes.append(("rla[%s]" % short(s_), (lambda s__: (lambda: r[s__]))(s_), v[s_]))
        probes.append(("np.concatenate([rla, rla[::-1], rla])", lambda: np.concatenate([r, r[::-1], r]), np.concatenate([v, v[::-1], v])))
    else:
        li = case["positions"]
        mk = np.array(case["mask"], dtype=bool)
        probes += [("rla[%d]" % li[0], lambda: r[li[0]], v[li[0]]), ("rla[list %s]" % short(li, 60), lambda: r[list(li)], v[list(li)]),
                   ("rla[array]", lambda: r[np.array(li, dtype=np.int32)], v[np.array(li)]), ("rla[mask]", lambda: r[mk.copy()], v[mk]),
                   ("rla[run-length mask]", lambda: r[RLA.from_array(mk.copy())], v[mk])]
        for s_ in case["slices"]:
            probes.append(("rla[%s]" % short(s_), (lambda s__: (lambda: r[s__]))(s_), v[s_]))
    for how, f, want in probes:
        o = attempt(f)
        if not o.ok:
            return violated("%s: %s raised %s: %s" % (desc, how, type(o.exc).__name__, o.exc), tags)
        if np.ndim(want) == 0:
            if not (type(o.value) is type(want) or np.asarray(o.value).dtype == np.asarray(want).dtype) or not labels_same(np.asarray(o.value).reshape(1) if np.ndim(o.value) == 0 else o.value, np.asarray(want).reshape(1)):
                return violated("%s: %s gives %r, the dense array gives %r" % (desc, how, o.value, want), tags)
            continue
        bad = same(o.value, want, how)
        if bad:
            return bad
        if isinstance(o.value, RLA):
            c = canonical(o.value, joined=False)
            if c:
                return violated("%s: %s is not canonical: %s" % (desc, how, c), tags + ["not-canonical"])
    if not labels_same(r.to_array(), v):
        return violated("%s: the encoded array changed" % desc, tags)
    return held(tags, L >= 2)


def gen_labels(rng, maxlen=14):
    kind = rng.choice(sorted(LABEL_POOLS))
    idx = []
    while len(idx) < rng.randint(1, maxlen):
        idx += [rng.randrange(6)] * rng.randint(1, 4)
    L = len(idx)
    return {"kind": "labels", "lkind": kind, "idx": idx, "slices": [gen.gen_slice(rng, L) for _ in range(4)] + [slice(None, None, -1), slice(None, None, 2)],
            "positions": [rng.randint(-L, L - 1) for _ in range(rng.randint(1, 6))], "mask": [rng.random() < 0.5 for _ in range(L)]}

