"""Reference models: plain Python lists of rows.  Python's own list / slice semantics are
the specification of clamping and of what 'does not exist' means (DESIGN 5, C02)."""
import numpy as np


class Refused(Exception):
    """the model says: this index must be refused"""


def is_int(x):
    return isinstance(x, (int, np.integer)) and not isinstance(x, (bool, np.bool_))


def norm_rows_selector(rs, n):
    """-> ('single', i) | ('multi', [row indices]) ; raises Refused for non-existing rows"""
    if rs is Ellipsis:
        return "multi", list(range(n))
    if isinstance(rs, np.ndarray) and rs.ndim == 0 and rs.dtype.kind in "iu":
        rs = int(rs)
    if is_int(rs):
        if not -n <= rs < n:
            raise Refused("row %d of %d" % (rs, n))
        return "single", int(rs) % n
    if isinstance(rs, slice):
        return "multi", list(range(n))[rs]
    arr = np.asarray(rs)
    if arr.dtype == bool:
        if arr.shape != (n,):
            raise Refused("mask length")
        return "multi", [i for i in range(n) if arr[i]]
    out = []
    for i in arr.tolist():
        if not -n <= i < n:
            raise Refused("row %d of %d" % (i, n))
        out.append(i % n)
    return "multi", out


def select_cells(lens, rs, cs=None, has_cs=False):
    """cells addressed by an index expression, as (kind, cells):
    kind 'SC' -> one (row, col); 'ND' -> flat list of (row, col); 'RA' -> list of lists.
    Raises Refused when an integer row / column does not exist in an addressed row."""
    n = len(lens)
    mode, rows = norm_rows_selector(rs, n)
    cells = lambda i: [(i, j) for j in range(lens[i])]
    if mode == "single":
        row = cells(rows)
        if not has_cs:
            return "ND", row
        if cs is Ellipsis:
            return "ND", row
        if is_int(cs):
            if not -len(row) <= cs < len(row):
                raise Refused("column %d of row with %d" % (cs, len(row)))
            return "SC", row[cs]
        return "ND", row[cs]
    sel = [cells(i) for i in rows]
    if not has_cs or cs is Ellipsis:
        return "RA", sel
    if is_int(cs):
        out = []
        for r in sel:
            if not -len(r) <= cs < len(r):
                raise Refused("column %d of row with %d" % (cs, len(r)))
            out.append(r[cs])
        return "ND", out
    return "RA", [r[cs] for r in sel]


def cells_to_values(kind, cells, pyrows):
    v = lambda c: pyrows[c[0]][c[1]]
    if kind == "SC":
        return v(cells)
    if kind == "ND":
        return [v(c) for c in cells]
    return [[v(c) for c in r] for r in cells]


def flat_cells(kind, cells):
    if kind == "SC":
        return [cells]
    if kind == "ND":
        return list(cells)
    return [c for r in cells for c in r]


def make_index(rs, cs, has_cs, form="tuple", ellpad=0):
    """the index expression; ellpad 1..3 writes the two-selector form with a (redundant) Ellipsis before, between or after
    the selectors -- as in numpy, a[..., r, c] == a[r, ..., c] == a[r, c, ...] == a[r, c] for two-dimensional data"""
    if not has_cs:
        return rs
    if ellpad and rs is not Ellipsis:
        return {1: (Ellipsis, rs, cs), 2: (rs, Ellipsis, cs), 3: (rs, cs, Ellipsis)}[ellpad]
    return (rs, cs)


def describe_selector(rs):
    if rs is Ellipsis:
        return "r:ell"
    if is_int(rs) or (isinstance(rs, np.ndarray) and rs.ndim == 0):
        return "r:int"
    if isinstance(rs, slice):
        st = 1 if rs.step is None else rs.step
        return "r:slice+1" if st == 1 else ("r:slice+k" if st > 0 else "r:slice-")
    a = np.asarray(rs)
    if a.dtype == bool:
        return "r:mask"
    return "r:list" if isinstance(rs, list) else "r:array"


def describe_cols(cs, has_cs):
    if not has_cs:
        return "c:none"
    if cs is Ellipsis:
        return "c:ell"
    if is_int(cs):
        return "c:int-" if cs < 0 else "c:int+"
    st = 1 if cs.step is None else cs.step
    return "c:slice+1" if st == 1 else ("c:slice+k" if st > 0 else "c:slice-")
