"""Coverage tap (DESIGN 3.2): sys.monitoring LINE events on npstructures/*.py, disabled
after the first hit of every line.  Used only as evidence that the anchored mechanisms
were executed (and to turn 'never reached' into an inconclusive verdict)."""
import ast
import os
import sys

_hits = {}
_root = None


def start(root):
    global _root
    _root = os.path.realpath(root) + os.sep
    mon = sys.monitoring
    tool = mon.COVERAGE_ID
    try:
        mon.use_tool_id(tool, "rtmon-cov")
    except ValueError:
        return False

    def on_line(code, line):
        fn = code.co_filename
        if fn.startswith(_root):
            _hits.setdefault(fn[len(_root):], set()).add(line)
        return mon.DISABLE

    mon.register_callback(tool, mon.events.LINE, on_line)
    mon.set_events(tool, mon.events.LINE)
    return True


def hits():
    return {k: sorted(v) for k, v in _hits.items()}


def function_lines(path):
    """qualname -> sorted statement lines of every function in a source file"""
    src = open(path).read()
    tree = ast.parse(src)
    out = {}

    def visit(node, prefix):
        for ch in ast.iter_child_nodes(node):
            if isinstance(ch, (ast.FunctionDef, ast.AsyncFunctionDef)):
                q = prefix + ch.name
                lines = set()
                body = list(ch.body)
                if body and isinstance(body[0], ast.Expr) and isinstance(getattr(body[0], "value", None), ast.Constant) and isinstance(body[0].value.value, str):
                    body = body[1:]
                for b in body:
                    for n in ast.walk(b):
                        if isinstance(n, ast.stmt) and not isinstance(n, (ast.FunctionDef, ast.ClassDef)):
                            lines.add(n.lineno)
                # the same qualname may be defined twice (shadowed definitions): keep the union per definition index
                out.setdefault(q, []).append(sorted(lines))
                visit(ch, q + ".")
            elif isinstance(ch, ast.ClassDef):
                visit(ch, prefix + ch.name + ".")
            else:
                visit(ch, prefix)

    visit(tree, "")
    return out


def anchor_report(repo, anchors, hit_map):
    """anchors: list of 'relative/file.py::Qual.name' -> {anchor: [executed, total]}"""
    rep = {}
    cache = {}
    for a in anchors:
        rel, q = a.split("::")
        path = os.path.join(repo, "npstructures", rel)
        if rel not in cache:
            try:
                cache[rel] = function_lines(path)
            except Exception:
                cache[rel] = {}
        defs = cache[rel].get(q)
        if not defs:
            rep[a] = None  # function no longer exists under that name: probe unavailable
            continue
        lines = defs[-1]  # the last definition is the one bound at import time
        got = set(hit_map.get(rel, []))
        rep[a] = [len([l for l in lines if l in got]), len(lines)]
    return rep
