"""Structural invariants checked at quiescent points (after every public call returns),
attached from the harness with icontract class invariants (DESIGN 3.3).

Conditions *record and return True*: a raising contract would abort the very call it
observes and turn into a bogus 'the library raised'.  Deciding contracts (D) call
CTX.alert -> the case is judged violated; probes (P) only bump CTX.probe_alerts."""
import numpy as np
from .core import CTX

try:
    import icontract
    HAVE_ICONTRACT = True
except Exception:  # packaging problem must not become a verdict
    icontract = None
    HAVE_ICONTRACT = False


class InvariantBroken(Exception):
    pass


def _post(cls, name, cond):
    """icontract post-condition on one method ('invariant at a hook'): cheaper than a class
    invariant, which would be re-evaluated around every internal ravel()/len() call"""
    f = cls.__dict__.get(name)
    if f is None:
        return False
    if HAVE_ICONTRACT:
        setattr(cls, name, icontract.ensure(cond, error=InvariantBroken)(f))
    else:
        def wrapper(self, *a, **k):
            r = f(self, *a, **k)
            cond(self)
            return r
        wrapper.__name__ = name
        setattr(cls, name, wrapper)
    return True


def _attach(cls, cond):
    if HAVE_ICONTRACT:
        return icontract.invariant(cond, error=InvariantBroken)(cls)
    # fallback: check after __init__ only
    orig = cls.__init__

    def __init__(self, *a, **k):
        orig(self, *a, **k)
        cond(self)
    cls.__init__ = __init__
    return cls


# ----------------------------------------------------------------------------- RunLengthArray (D)

def rla_canonical(self):
    """starts[0]==0, ends strictly increasing, starts[1:]==ends[:-1], ends[-1]==len,
    len(values)==len(starts) -- on the public attributes"""
    try:
        starts = np.asarray(self.starts)
        ends = np.asarray(self.ends)
        values = np.asarray(self.values)
    except Exception:
        return True  # half-constructed object (constructor raised): nothing to judge
    CTX.tick("inv:rla", len(starts) > 0)
    if len(starts) == 0:
        if len(values) != 0:
            CTX.alert("rla", "no runs but %d values" % len(values))
        return True
    msg = None
    if len(ends) != len(starts) or len(values) != len(starts):
        msg = "len(starts)=%d len(ends)=%d len(values)=%d" % (len(starts), len(ends), len(values))
    elif starts[0] != 0:
        msg = "first run starts at %s" % starts[0]
    elif np.any(ends <= starts):
        msg = "empty or negative run: starts=%s ends=%s" % (starts.tolist()[:12], ends.tolist()[:12])
    elif np.any(starts[1:] != ends[:-1]):
        msg = "runs not contiguous: starts=%s ends=%s" % (starts.tolist()[:12], ends.tolist()[:12])
    else:
        try:
            n = len(self)
            if int(ends[-1]) != int(n):
                msg = "last run ends at %s but len is %s" % (ends[-1], n)
        except Exception:
            pass
    if msg:
        CTX.alert("rla", msg)
    return True


# ----------------------------------------------------------------------------- RaggedArray (D)

def ragged_geometry(self):
    """materialised arrays only: lengths >= 0, starts = exclusive prefix sum of lengths,
    size/len/shape agree"""
    try:
        if not self.is_contigous:
            CTX.tick("inv:ragged", False)
            return True
        lengths = np.asarray(self.lengths)
        shape = self._shape
        starts = np.asarray(shape.starts)
    except Exception:
        return True
    CTX.tick("inv:ragged", len(lengths) > 0)
    msg = None
    if np.any(lengths < 0):
        msg = "negative row length %s" % lengths.tolist()[:12]
    else:
        exp = np.concatenate([[0], np.cumsum(lengths.astype(np.int64))[:-1]]) if len(lengths) else np.zeros(0, dtype=np.int64)
        if len(starts) != len(lengths) or np.any(starts.astype(np.int64) != exp):
            msg = "starts %s are not the exclusive prefix sum of lengths %s" % (starts.tolist()[:12], lengths.tolist()[:12])
        else:
            try:
                if len(self) != len(lengths) or int(self.size) != int(lengths.sum()):
                    msg = "len/size disagree with lengths: len=%s size=%s lengths=%s" % (len(self), self.size, lengths.tolist()[:12])
            except Exception:
                pass
    if msg:
        CTX.alert("ragged", msg)
    return True


# ----------------------------------------------------------------------------- HashTable (P)

def hashtable_buckets(self):
    try:
        keys = self._keys
        mod = int(self._mod)
        flat = np.asarray(keys.ravel())
        lens = np.asarray(keys.lengths)
    except Exception:
        return True
    if len(flat) > 4096:
        return True            # the probe is quadratic in effect on huge tables (it runs around every method call); small and medium tables are probed
    CTX.tick("probe:buckets", len(flat) > 0)
    try:
        rows = np.repeat(np.arange(len(lens)), lens)
        if len(lens) != mod or np.any(np.asarray([int(k) % mod for k in flat.tolist()]) != rows):
            CTX.probe_alerts += 1
            CTX.alert_probe = "bucket invariant: keys %s lens %s mod %s" % (flat.tolist()[:10], lens.tolist()[:10], mod)
    except Exception:
        pass
    return True


_attached = set()


def attach(lib, which=("rla", "ragged", "hashtable")):
    """idempotent per process"""
    if "rla" in which and "rla" not in _attached:
        _attach(lib.RunLengthArray, rla_canonical)
        _attached.add("rla")
    if "ragged" in which and "ragged" not in _attached:
        from npstructures.raggedarray.base import RaggedBase
        from npstructures.raggedarray.indexablearray import IndexableArray
        # quiescent points of a ragged array: constructed, written to, materialised
        _post(lib.RaggedArray, "__init__", ragged_geometry)
        _post(IndexableArray, "__setitem__", ragged_geometry)
        _post(RaggedBase, "_flatten_myself", ragged_geometry)
        _post(lib.RaggedArray, "fill", ragged_geometry)
        _attached.add("ragged")
    if "hashtable" in which and "hashtable" not in _attached:
        _attach(lib.HashTable, hashtable_buckets)
        _attached.add("hashtable")
    CTX.tick("contracts-attached:" + ("icontract" if HAVE_ICONTRACT else "fallback"))
