"""Straight-line programs over the RaggedArray API (DESIGN 4, 'Programs'): model-driven
generator, list-model interpreter and library interpreter (as written / with every
intermediate rebuilt freshly / with inserted reads).

A program is a list of step dicts over variables a0, a1, ...; all arrays are int64."""
import copy
import os
import tempfile
import numpy as np
from .core import CTX, peek, is_lazy, deep_same
from . import gen, model


# ----------------------------------------------------------------------------- helpers on the list model

def m_sel(rows, rs, cs, has_cs):
    kind, cells = model.select_cells([len(r) for r in rows], rs, cs, has_cs)
    return kind, model.cells_to_values(kind, cells, rows)


def same_lens(a, b):
    return [len(r) for r in a] == [len(r) for r in b]


_CUR = {"dtype": "int64"}     # element dtype of the program being interpreted (programs are single-typed)


# observations: name -> (library function, model function | None when the model has no opinion)
def _save_load(x):
    RA = CTX.lib.RaggedArray
    with tempfile.TemporaryDirectory(prefix="rtmon-prog-") as d:
        p = os.path.join(d, "x.npz")
        x.save(p)
        return RA.load(p).tolist()


def _padded(x):
    return x.as_padded_matrix(fill_value=-1, side="right").tolist()


def _m_padded(r):
    M = max((len(q) for q in r), default=0)
    return [list(q) + [-1] * (M - len(q)) for q in r]


def _first_cell(rows):
    for i, r in enumerate(rows):
        if r:
            return i, len(r) - 1
    return None


def _refusal(f):
    """observation of something that must be refused: 'refused' or what came back instead"""
    try:
        r = f()
    except Exception:
        return "refused"
    return "accepted: %s" % (r.tolist() if hasattr(r, "tolist") else r,)


def _bad_partner(x, a):
    """a ragged array with the same number of cells as x but other row lengths (one cell moved from row a[0] to row a[1])"""
    lens = [int(l) for l in x.lengths]
    lens[a[0]] -= 1
    lens[a[1]] += 1
    return CTX.lib.RaggedArray(np.asarray(x.ravel()).copy(), lens)


def _partner_after(x, a):
    """combine x with a mismatching partner (accepted or refused, depending on the receiver's safety switch) and report the PARTNER afterwards"""
    p = _bad_partner(x, a)
    try:
        (x == p) if a[2] else (p == x)
    except Exception:
        pass
    return p.tolist()


def _m_partner(r, a):
    lens = [len(q) for q in r]
    lens[a[0]] -= 1
    lens[a[1]] += 1
    flat = [v for q in r for v in q]
    out, k = [], 0
    for l in lens:
        out.append(flat[k:k + l])
        k += l
    return out


def _astype_same(x):
    r = x.astype(x.dtype)
    was = r.tolist()
    if r.size:
        fl = r.ravel()
        fl[...] = fl[::-1].copy() if len(set(np.asarray(fl).tolist())) > 1 else fl + 1
    return [was, x.tolist()]


def _bad_assign(x, a):
    """a whole-array assignment that cannot be carried out (wrong number of values, a ragged value of other row lengths, a value the element type
    cannot hold) -- or one that changes nothing (the array itself as the value): what happened, and the content afterwards"""
    form, idx = a[0], (Ellipsis if a[1] else ())
    tot = int(x.size)
    if form == "flat":
        r = _refusal(lambda: x.__setitem__(idx, np.arange(a[2]).astype(np.asarray(x.ravel()).dtype)))
    elif form == "ragged":
        p = _bad_partner(x, a[3])
        r = _refusal(lambda: x.__setitem__(idx, p))
    elif form == "fillnan":
        r = _refusal(lambda: x.fill(float("nan")))
    elif form == "colvec":
        r = _refusal(lambda: x.__setitem__(idx, np.arange(len(x) + 1).reshape(-1, 1)))
    else:
        x[idx] = x
        r = "refused"       # (nothing to refuse: the assignment changes nothing)
    return [r[:8], x.tolist()]


OBS = {
    "badassign": (_bad_assign, lambda r, a: ["refused", [list(q) for q in r]]),
    "partnerpurity": (_partner_after, _m_partner),
    "tolist": (lambda x, a: x.tolist(), lambda r, a: [list(q) for q in r]),
    "iter": (lambda x, a: [q.tolist() for q in x], lambda r, a: [list(q) for q in r]),
    "ravel": (lambda x, a: x.ravel().tolist(), lambda r, a: [v for q in r for v in q]),
    "meta": (lambda x, a: (len(x), int(x.size), np.asarray(x.lengths).tolist(), np.asarray(x.shape[1]).tolist(), str(x.dtype) if x.size else "any", type(x.size).__name__, type(len(x)).__name__),
             lambda r, a: (len(r), sum(len(q) for q in r), [len(q) for q in r], [len(q) for q in r], _CUR["dtype"] if sum(len(q) for q in r) else "any", "int", "int")),
    # a numpy function the library does not implement is refused -- and has looked at the array like any other read
    "unimpl": (lambda x, a: _refusal(lambda: [np.median, np.ndim, lambda y: np.take(y, [0]), lambda y: np.isin(y, [1])][a](x)), lambda r, a: "refused"),
    "reversed": (lambda x, a: [q.tolist() for q in reversed(x)], lambda r, a: [list(q) for q in reversed(r)]),       # python's sequence protocol (__len__ + __getitem__)
    "lenbool": (lambda x, a: (len(x), bool(x)), lambda r, a: (len(r), len(r) > 0)),
    "maxall": (lambda x, a: np.asarray(np.max(x)).item() if x.size else "empty", lambda r, a: max(v for q in r for v in q) if any(len(q) for q in r) else "empty"),
    "minall": (lambda x, a: np.asarray(np.min(x)).item() if x.size else "empty", lambda r, a: min(v for q in r for v in q) if any(len(q) for q in r) else "empty"),
    "anyall": (lambda x, a: (bool(np.any(x)), bool(np.all(x))), lambda r, a: (any(v != 0 for q in r for v in q), all(v != 0 for q in r for v in q))),
    "repr": (lambda x, a: repr(x), None),
    "str": (lambda x, a: str(x), None),
    "mean1": (lambda x, a: x.mean(axis=-1).tolist(), None),
    "mean0": (lambda x, a: x.mean(axis=0).tolist(), None),
    "all1": (lambda x, a: x.all(axis=-1).tolist(), lambda r, a: [all(v != 0 for v in q) for q in r]),
    "min1": (lambda x, a: [v for v, l in zip(x.min(axis=-1).tolist(), np.asarray(x.lengths).tolist()) if l], lambda r, a: [min(q) for q in r if q]),
    "sum1": (lambda x, a: x.sum(axis=-1).tolist(), lambda r, a: [sum(q) for q in r]),
    "npsum1": (lambda x, a: np.sum(x, axis=-1).tolist(), lambda r, a: [sum(q) for q in r]),
    "sumall": (lambda x, a: np.sum(x), lambda r, a: sum(v for q in r for v in q)),
    "any1": (lambda x, a: x.any(axis=-1).tolist(), lambda r, a: [any(v != 0 for v in q) for q in r]),
    "max1": (lambda x, a: [v for v, l in zip(x.max(axis=-1).tolist(), np.asarray(x.lengths).tolist()) if l], lambda r, a: [max(q) for q in r if q]),
    "argmax1": (lambda x, a: [v for v, l in zip(x.argmax(axis=-1).tolist(), np.asarray(x.lengths).tolist()) if l], lambda r, a: [q.index(max(q)) for q in r if q]),
    "sum0": (lambda x, a: [float(v) for v in x.sum(axis=0).tolist()],
             lambda r, a: [float(sum(q[j] for q in r if len(q) > j)) for j in range(max(len(q) for q in r))]),
    "colcounts": (lambda x, a: x.col_counts().tolist(), lambda r, a: [sum(1 for q in r if len(q) > j) for j in range(max(len(q) for q in r))]),
    "getcol": (lambda x, a: x.get_column_values(a).tolist(), lambda r, a: [q[a] for q in r if len(q) > a]),
    "nonzero": (lambda x, a: [q.tolist() for q in x.nonzero()], lambda r, a: [[i for i, q in enumerate(r) for v in q if v], [j for q in r for j, v in enumerate(q) if v]]),
    # the array as the ARGUMENT of equals (the receiver is an equal array built from plain lists): what the argument has not yet done to itself must not matter
    "equalsarg": (lambda x, a: bool(CTX.lib.RaggedArray([list(q) for q in a[0]], dtype=np.dtype(a[1])).equals(x)) if len(a[0]) else True, lambda r, a: True),
    # a conversion to the element type the array already has is a new array: writing into it leaves the array alone
    "astypesame": (lambda x, a: _astype_same(x), lambda r, a: [[list(q) for q in r], [list(q) for q in r]]),
    "equals": (lambda x, a: bool(x.equals(CTX.lib.RaggedArray(x.tolist(), dtype=np.int64) if len(x) else x)), lambda r, a: True),
    "eqself": (lambda x, a: (x == x).tolist(), lambda r, a: [[True] * len(q) for q in r]),
    "add1": (lambda x, a: (x + np.int64(1)).tolist(), lambda r, a: [[v + 1 for v in q] for q in r]),
    "row": (lambda x, a: x[a].tolist(), lambda r, a: list(r[a])),
    "elem": (lambda x, a: x[a[0], a[1]].item(), lambda r, a: r[a[0]][a[1]]),
    "rowscol": (lambda x, a: x[(a[0] if isinstance(a[0], np.ndarray) else list(a[0])), a[1]].tolist(), lambda r, a: [r[i][a[1]] for i in np.asarray(a[0]).tolist()]),
    "pairs": (lambda x, a: x[a[0], a[1]].tolist(), lambda r, a: [r[i][j] for i, j in zip(np.asarray(a[0]).tolist(), np.asarray(a[1]).tolist())]),
    "elem_oob": (lambda x, a: _refusal(lambda: x[a[0], a[1]]), lambda r, a: "refused"),
    "rows_oob": (lambda x, a: _refusal(lambda: (x[a[0]] if a[1] is None else x[a[0], a[1]]).tolist()), lambda r, a: "refused"),      # a row list / index array naming a row that does not exist
    "badadd": (lambda x, a: _refusal(lambda: (x == _bad_partner(x, a)) if a[2] else (_bad_partner(x, a) == x)), lambda r, a: "refused"),
    "ell": (lambda x, a: x[...].tolist(), lambda r, a: [list(q) for q in r]),
    "empty": (lambda x, a: x[()].tolist(), lambda r, a: [list(q) for q in r]),
    "maskidx": (lambda x, a: x[x > np.int64(a)].tolist(), lambda r, a: [v for q in r for v in q if v > a]),
    "subset": (lambda x, a: x.subset(x > np.int64(a)).tolist(), lambda r, a: [[v for v in q if v > a] for q in r]),
    "padded": (lambda x, a: _padded(x), lambda r, a: _m_padded(r)),
    "astype": (lambda x, a: x.astype(np.float64).tolist(), lambda r, a: [[float(v) for v in q] for q in r]),
    "tonp": (lambda x, a: x.to_numpy_array().tolist(), lambda r, a: [list(q) for q in r]),
    "save": (lambda x, a: _save_load(x), lambda r, a: [list(q) for q in r]),
    "cumsum": (lambda x, a: np.cumsum(x, axis=-1).tolist(), lambda r, a: [list(np.cumsum(q).tolist()) if q else [] for q in r]),
    "diff": (lambda x, a: np.diff(x, axis=-1).tolist(), lambda r, a: [[b - c for c, b in zip(q[:-1], q[1:])] for q in r]),
    "sort": (lambda x, a: x.sort(axis=-1).tolist(), lambda r, a: [sorted(q) for q in r]),
    "unique": (lambda x, a: np.unique(x, axis=-1).tolist(), lambda r, a: [sorted(set(q)) for q in r]),
    "concatself": (lambda x, a: np.concatenate([x, x]).tolist(), lambda r, a: [list(q) for q in r] * 2),
    "zeros": (lambda x, a: np.zeros_like(x).tolist(), lambda r, a: [[0] * len(q) for q in r]),
    "where": (lambda x, a: np.where(x > np.int64(a), x, x * np.int64(0)).tolist(), lambda r, a: [[v if v > a else 0 for v in q] for q in r]),
    "sel": (lambda x, a: x[model.make_index(a[0], a[1], a[2])].tolist() if hasattr(x[model.make_index(a[0], a[1], a[2])], "tolist") else x[model.make_index(a[0], a[1], a[2])],
            lambda r, a: m_sel(r, a[0], a[1], a[2])[1]),
    "rslice": (lambda x, a: CTX.lib.ragged_slice(x, np.array(a[0], dtype=np.int64), np.array(a[1], dtype=np.int64)).tolist(), lambda r, a: [q[s:e] for q, s, e in zip(r, a[0], a[1])]),
}
# Results that numpy semantics define as NEW arrays (not views of the receiver): in purity mode the interpreter calls these once more after the
# observation, keeps the returned object together with a snapshot, and compares them at the end of the program -- a result the caller is still
# holding must not be changed by anything executed later (a second conversion of the same array, a write to it, another read).
KEPT = {
    "padded": lambda x, a: x.as_padded_matrix(fill_value=-1, side="right"),
    "astype": lambda x, a: x.astype(np.float64),
    "sum1": lambda x, a: x.sum(axis=-1),
    "colcounts": lambda x, a: x.col_counts(),
    "getcol": lambda x, a: x.get_column_values(a),
    "cumsum": lambda x, a: np.cumsum(x, axis=-1),
    "sort": lambda x, a: x.sort(axis=-1),
    "zeros": lambda x, a: np.zeros_like(x),
    "nonzero": lambda x, a: x.nonzero(),
    "mean0": lambda x, a: x.mean(axis=0),
    "sum0": lambda x, a: x.sum(axis=0),
    "where": lambda x, a: np.where(x > np.int64(a), x, x * np.int64(0)),
    "add1": lambda x, a: x + np.int64(1),
}


def _snap(o):
    if isinstance(o, tuple):
        return tuple(_snap(e) for e in o)
    if isinstance(o, np.ndarray):
        return o.copy()
    return peek(o)


def _snap_same(o, sn):
    if isinstance(o, tuple):
        return all(_snap_same(a, b) for a, b in zip(o, sn))
    if isinstance(o, np.ndarray):
        return o.shape == sn.shape and bool(np.array_equal(o, sn, equal_nan=True) if o.dtype.kind == "f" else np.array_equal(o, sn))
    return deep_same(peek(o), sn)


# observations after which the receiver is certainly materialised (used for hazard tracking; conservative:
# repr/str of an array with more than 100 cells print a *selection* of it and leave the array itself lazy)
MATERIALISING = {"astypesame", "unimpl", "tolist", "iter", "ravel", "sum1", "npsum1", "sumall", "nonzero", "add1", "eqself", "cumsum", "sort", "diff", "zeros", "concatself", "astype", "save"}
READ_OPS = [k for k in OBS]
NOT_READS = {"badassign"}       # attempted writes (refused, or without effect): part of the programs, never inserted as "extra reads"
# observations whose result on float data (NaN, inf, -0.0, non-dyadic values) is defined element by element, hence exactly predictable
FLOAT_OBS = ["reversed", "lenbool", "partnerpurity", "tolist", "iter", "ravel", "meta", "repr", "str", "row", "elem", "rowscol", "pairs", "elem_oob", "rows_oob", "badadd", "badassign", "unimpl", "equalsarg", "astypesame", "ell", "empty", "maskidx", "subset", "padded", "nonzero", "add1", "sel", "rslice",
             "getcol", "colcounts", "tonp", "astype", "concatself", "zeros", "diff", "save"]
FLOAT_READS = [o_ for o_ in FLOAT_OBS if o_ not in NOT_READS] + ["sum1", "npsum1", "sumall", "any1", "eqself", "where", "max1", "sort", "unique", "mean1", "mean0", "all1", "min1"]     # fine as *inserted reads* (no model opinion needed)
FLOAT_POOL = [0.1, 0.7, 1e17, 1.0, -2.5, 3.25, float("inf"), float("nan"), -0.0, 0.3, 123456.789, -1e-7, float("-inf"), 2.0]


def obs_applicable(name, rows):
    if name in ("cumsum", "equals") and any(isinstance(v, float) for q in rows for v in q):
        return False        # rejected by design for floats / needs an int64 twin
    if name == "equalsarg":
        return len(rows) >= 1 and sum(len(q) for q in rows) >= 1 and not any(isinstance(v, float) and v != v for q in rows for v in q)
    n = len(rows)
    lens = [len(r) for r in rows]
    tot = sum(lens)
    if name in ("sum0", "colcounts", "getcol", "mean0"):
        return tot > 0
    if name in ("row",):
        return n > 0
    if name in ("elem", "rowscol", "pairs"):
        return tot > 0
    if name in ("elem_oob", "rows_oob"):
        return n > 0
    if name in ("badadd", "partnerpurity"):
        return n >= 2 and tot > 0
    if name == "badassign":
        return n >= 1 and tot >= 1
    if name == "padded":
        return n > 0
    if name == "tonp":
        return n > 0 and len(set(lens)) == 1
    if name == "unique":
        return True
    if name == "sel":
        return True
    return True


def obs_arg(rng, name, rows):
    n = len(rows)
    lens = [len(r) for r in rows]
    if name == "row":
        return rng.randint(-n, n - 1)
    if name == "elem":
        i = rng.choice([k for k in range(n) if lens[k]])
        return [i, rng.randint(-lens[i], lens[i] - 1)]
    if name == "rowscol":
        cand = [k for k in range(n) if lens[k]]
        rs = [rng.choice(cand) for _ in range(rng.randint(1, 3))]
        ml = min(lens[k] for k in rs)
        if rng.random() < 0.5:      # a signed index array with negative entries (the caller's array must come back unchanged)
            rs = np.array([k if rng.random() < 0.5 else k - n for k in rs], dtype=rng.choice([np.int64, np.int32]))
        return [rs, rng.randint(-ml, ml - 1)]
    if name == "pairs":
        # (row, column) pairs given as two index arrays, negative entries in both (the caller's arrays must come back unchanged)
        cand = [k for k in range(n) if lens[k]]
        rs = [rng.choice(cand) for _ in range(rng.randint(1, 4))]
        cs = [rng.randint(-lens[k], lens[k] - 1) for k in rs]
        rs = [k if rng.random() < 0.5 else k - n for k in rs]
        dt = rng.choice([np.int64, np.int32, np.intp])
        return [np.array(rs, dtype=dt), np.array(cs, dtype=dt)]
    if name == "elem_oob":
        # a column that does not exist in that row (one past its end / one before its start): for rows that are not the last one the
        # flat position still lies inside the buffer, so only a real bounds check refuses it
        i = rng.randrange(n)
        return [i if rng.random() < 0.5 else i - n, lens[i] if rng.random() < 0.5 else -lens[i] - 1]
    if name == "rows_oob":
        bad_ = rng.choice([n, n + 1, -n - 1, -n - 2, 2 * n, -2 * n - 1])
        rs = [rng.randrange(n) for _ in range(rng.randint(0, 2))] + [bad_] + [rng.randrange(n) for _ in range(rng.randint(0, 1))]
        if rng.random() < 0.5:
            rs = np.array(rs, dtype=rng.choice([np.int64, np.int32]))
        return [rs, rng.choice([None, None, slice(None), slice(1, None), slice(None, None, -1)])]
    if name in ("badadd", "partnerpurity"):
        src = rng.choice([k for k in range(n) if lens[k]])
        dst = rng.choice([k for k in range(n) if k != src])
        return [src, dst, rng.random() < 0.5]
    if name == "badassign":
        tot = sum(lens)
        forms = ["flat", "flat", "self", "colvec"] + (["ragged", "ragged"] if n >= 2 else []) + (["fillnan"] if _CUR["dtype"].startswith(("int", "uint")) else [])
        form = rng.choice(forms)
        part = None
        if form == "ragged":
            src = rng.choice([k for k in range(n) if lens[k]])
            part = [src, rng.choice([k for k in range(n) if k != src]), True]
        return [form, rng.random() < 0.5, rng.choice([k for k in (tot + 1, tot - 1, 2 * tot, 2, 0) if k not in (1, tot)]), part]
    if name == "equalsarg":
        return [[list(q) for q in rows], _CUR["dtype"]]
    if name == "unimpl":
        return rng.randrange(4)
    if name == "getcol":
        return rng.randint(0, max(lens) - 1)
    if name in ("maskidx", "subset", "where"):
        return rng.randint(-30, 60)
    if name == "sel":
        from .props import c02
        for _ in range(20):
            rs = c02.random_selector(rng, n, allow_oob=False)
            if isinstance(rs, np.ndarray) and rs.ndim == 0:
                rs = int(rs)
            has = rng.random() < 0.5
            cs = gen.gen_slice(rng, max(lens, default=0), far=True) if has else None
            if has and rng.random() < 0.3 and max(lens, default=0):
                cs = rng.randint(-max(lens), max(lens) - 1)      # an integer column (refused by the model if some selected row is too short)
            try:
                model.select_cells(lens, rs, cs, has)
                return [rs, cs, has]
            except model.Refused:
                continue
        return [Ellipsis, None, False]
    if name == "rslice":
        st = [rng.randint(0, l) for l in lens]
        return [st, [rng.randint(s, l) for s, l in zip(st, lens)]]
    return None


# ----------------------------------------------------------------------------- generator

class _Track:
    """what the generator knows about a variable"""

    def __init__(self, own, maybe_lazy=False, bufs=()):
        self.own = own                  # id of the buffer the variable owns once it is materialised (alias group id)
        self.maybe_lazy = maybe_lazy    # conservative: True until an operation certainly materialised it
        self.bufs = set(bufs)           # buffers it may still be sharing while lazy


def gen_program(rng, tier="quick", allow_hazard=False, nsteps=None, init_rows=None, n_obs=None, dtype="int64", big=False):
    """-> case {"steps": [...], "hazard": bool}; the list model is executed while generating"""
    via = None
    if not big and init_rows is None and rng.random() < 0.12:
        via = rng.choice(["fromnumpy", "fromnumpy-F", "tonumpy-called", "unsafe", "unsafe"])       # rectangular contents, built from / converted to a 2-D numpy array; or safe_mode=False
    lens, _ = gen.length_vector(rng, tier, maxrows=5 if tier == "quick" else 8, maxlen=5 if tier == "quick" else 8, stratum="big" if big else ("rect" if (via and via != "unsafe") else None))
    isf = dtype == "float64"
    _CUR["dtype"] = dtype
    num = (lambda lo, hi: rng.choice(FLOAT_POOL)) if isf else (lambda lo, hi: rng.randint(lo, hi))
    read_ops = FLOAT_OBS if isf else READ_OPS
    read_ops_all = list(read_ops)
    if via == "unsafe":
        read_ops = [o for o in read_ops if o not in ("elem_oob", "rows_oob", "badadd", "badassign")]     # refusals are switched off by design -- for this array itself (and its whole-array aliases) only
    if init_rows is None:
        init_rows = [[num(-20, 40) for _ in range(l)] for l in lens]
    env = {"a0": copy.deepcopy(init_rows)}
    track = {"a0": _Track(0)}
    steps = [{"op": "init", "v": "a0", "rows": copy.deepcopy(init_rows), "dtype": dtype}]
    if via:
        steps[0]["via"] = via
    counter = [1]
    hazard = False
    nsteps = nsteps or rng.randint(2, 8 if tier == "quick" else 14)

    def fresh(own=None, maybe_lazy=False, bufs=()):
        v = "a%d" % counter[0]
        track[v] = _Track(counter[0] if own is None else own, maybe_lazy, bufs)
        counter[0] += 1
        return v

    def materialise(u):
        t = track[u]
        t.maybe_lazy = False
        t.bufs = set()

    def pick(prefer_lazy=0.5):
        names = list(env)
        lazy = [v for v in names if track[v].maybe_lazy]
        if lazy and rng.random() < prefer_lazy:
            return rng.choice(lazy)
        return rng.choice(names[-4:]) if rng.random() < 0.6 else rng.choice(names)

    def add_obs(u, name=None):
        rows = env[u]
        for _ in range(8):
            # (what is derived from an array built with safe_mode=False -- selections, ufunc results -- is an ordinary array again and refuses what a
            # freshly built equal array refuses)
            nm = name or rng.choice(read_ops_all if (via == "unsafe" and track[u].own != 0) else read_ops)
            if obs_applicable(nm, rows):
                steps.append({"op": "obs", "u": u, "what": nm, "arg": obs_arg(rng, nm, rows)})
                if nm in MATERIALISING:
                    materialise(u)
                return True
        return False

    pending_its = []
    kinds = ["iter_open", "concat_e", "partner", "cmp2", "sel", "sel", "sel", "sel", "alias", "ufs", "neg", "ufcol", "ufra", "concat", "sort", "cumsum", "diff", "where", "zeros", "unique",
             "assign", "assign", "assign", "maskassign", "rowwrite", "ravelwrite", "obs", "obs", "obs"]
    if isf:
        kinds = [k for k in kinds if k not in ("sort", "cumsum", "unique")] + ["ufcol", "ufcol", "ufcol"]
    guard = 0
    while len(steps) - 1 < nsteps and guard < 200:
        guard += 1
        kind = rng.choice(kinds)
        u = pick()
        U = env[u]
        n = len(U)
        maxl = max((len(r) for r in U), default=0)
        if pending_its and rng.random() < 0.25:
            it_ = pending_its.pop(rng.randrange(len(pending_its)))
            steps.append({"op": "iter_drain", "it": it_[0], "u": it_[1], "what": "iter-consumed-later"})
        if kind == "iter_open":
            if len(pending_its) < 2:
                materialise(u)
                nm_ = "it%d" % len([s_ for s_ in steps if s_["op"] == "iter_open"])
                steps.append({"op": "iter_open", "u": u, "it": nm_})
                pending_its.append((nm_, u))
            continue
        if kind == "concat_e":
            # join with an operand that contributes nothing: a selection of u's columns beyond every row (all rows empty), column-wise,
            # or a selection of none of u's rows, row-wise.  The result is a new array with u's content, never u itself
            if rng.random() < 0.6:
                if n == 0:
                    continue
                rs_, cs_, has_, axis_ = slice(None), slice(maxl + rng.randint(0, 2), None), True, -1
            else:
                rs_, cs_, has_, axis_ = slice(n, None), None, False, 0
            tu = track[u]
            bufs = (tu.bufs | {tu.own}) if tu.maybe_lazy else {tu.own}
            e = fresh(maybe_lazy=True, bufs=bufs)
            env[e] = [list(r) for r in m_sel(U, rs_, cs_, has_)[1]]
            steps.append({"op": "sel", "v": e, "u": u, "rs": rs_, "cs": cs_, "has_cs": has_})
            materialise(u)
            materialise(e)
            v = fresh()
            first = rng.random() < 0.7
            a_, b_ = (u, e) if first else (e, u)
            env[v] = ([list(r) for r in env[a_]] + [list(r) for r in env[b_]]) if axis_ == 0 else [list(r) + list(q) for r, q in zip(env[a_], env[b_])]
            steps.append({"op": "concat", "v": v, "u": a_, "w": b_, "axis": axis_})
            continue
        if kind == "partner":
            # a second, independently built array: the same cells cut into other row lengths (one cell moved to another row)
            tot_ = sum(len(r) for r in U)
            if n < 2 or tot_ == 0:
                continue
            src = rng.choice([k for k in range(n) if U[k]])
            dst = rng.choice([k for k in range(n) if k != src])
            materialise(u)
            v = fresh()
            env[v] = _m_partner(U, [src, dst])
            steps.append({"op": "partner", "v": v, "u": u, "move": [src, dst]})
            continue
        if kind == "cmp2":
            # an element-wise comparison of two arrays whose row lengths differ (refused, or - with safe_mode=False - carried out on the flat data):
            # either way a read-only operation on both
            cands = [w for w in env if w != u and sum(len(r) for r in env[w]) == sum(len(r) for r in U) and not same_lens(env[w], U)]
            if not cands:
                continue
            w = rng.choice(cands)
            steps.append({"op": "cmp2", "u": u, "w": w})        # (whether a refused comparison has already materialised its operands is not assumed)
            continue
        if kind == "sel":
            from .props import c02
            rs = c02.random_selector(rng, n, allow_oob=False)
            if isinstance(rs, np.ndarray) and rs.ndim == 0:
                rs = int(rs)
            has = rng.random() < 0.55
            cs = gen.gen_slice(rng, maxl, far=True) if has else None
            if (model.is_int(rs) or rs is Ellipsis) and not has:
                continue    # an integer row is a numpy array (an observation), and a[...] is an alias, not a selection
            try:
                kind_, val = m_sel(U, rs, cs, has)
            except model.Refused:
                continue
            if kind_ != "RA":
                continue
            tu = track[u]
            bufs = (tu.bufs | {tu.own}) if tu.maybe_lazy else {tu.own}
            v = fresh(maybe_lazy=True, bufs=bufs)
            env[v] = [list(r) for r in val]
            st_ = {"op": "sel", "v": v, "u": u, "rs": rs, "cs": cs, "has_cs": has}
            if rng.random() < 0.15:
                # the selection is taken from a whole-array alias that nobody keeps: u[...][rows]  (the alias is gone before the selection is first read)
                st_["tmp"] = rng.choice(["ell", "empty"])
                materialise(u)
                track[v].bufs = {tu.own}
            steps.append(st_)
        elif kind == "alias":
            materialise(u)
            v = fresh(own=track[u].own)
            env[v] = env[u]             # the same python object: writes through either name are seen by both
            steps.append({"op": "alias", "v": v, "u": u, "form": rng.choice(["ell", "empty"])})
        elif kind == "ufs":
            c, uf, side = rng.randint(1, 3), rng.choice(["add", "subtract", "multiply"]), rng.choice("LR")
            f = {"add": lambda a, b: a + b, "subtract": lambda a, b: a - b, "multiply": lambda a, b: a * b}[uf]
            materialise(u)
            v = fresh()
            env[v] = [[(f(x, c) if side == "R" else f(c, x)) for x in r] for r in U]
            steps.append({"op": "ufs", "v": v, "u": u, "c": c, "uf": uf, "side": side})
        elif kind == "neg":
            materialise(u)
            v = fresh()
            env[v] = [[-x for x in r] for r in U]
            steps.append({"op": "neg", "v": v, "u": u})
        elif kind == "ufcol":
            if n < 2:
                continue
            col = [num(0, 3) for _ in range(n)]
            side = rng.choice("LR")
            materialise(u)
            v = fresh()
            env[v] = [[(x - c if side == "R" else c - x) for x in r] for r, c in zip(U, col)]
            steps.append({"op": "ufcol", "v": v, "u": u, "col": col, "side": side})
        elif kind in ("ufra", "where"):
            cands = [w for w in env if same_lens(env[w], U)]
            w = rng.choice(cands)
            materialise(u)
            materialise(w)
            v = fresh()
            if kind == "ufra":
                env[v] = [[x - y for x, y in zip(r, q)] for r, q in zip(U, env[w])]
                steps.append({"op": "ufra", "v": v, "u": u, "w": w})
            else:
                c = rng.randint(-20, 30)
                env[v] = [[x if x > c else y for x, y in zip(r, q)] for r, q in zip(U, env[w])]
                steps.append({"op": "where", "v": v, "u": u, "w": w, "c": c})
        elif kind == "concat":
            w = pick()
            axis = 0
            if len(env[w]) == n and rng.random() < 0.3 and n > 0:
                axis = -1
            materialise(u)
            materialise(w)
            v = fresh()
            env[v] = ([list(r) for r in U] + [list(r) for r in env[w]]) if axis == 0 else [list(r) + list(q) for r, q in zip(U, env[w])]
            steps.append({"op": "concat", "v": v, "u": u, "w": w, "axis": axis})
        elif kind in ("sort", "cumsum", "diff", "zeros", "unique"):
            materialise(u)
            v = fresh()
            if kind == "diff":
                nn = rng.choice([1, 1, 1, 2, 0])
                cur = [list(r) for r in U]
                for _ in range(nn):
                    cur = [[b - c for c, b in zip(q[:-1], q[1:])] for q in cur]
                env[v] = cur
                steps.append({"op": "diff", "v": v, "u": u, "n": nn})
            else:
                env[v] = OBS[kind][1](U, None)
                steps.append({"op": kind, "v": v, "u": u})
        elif kind in ("rowwrite", "ravelwrite"):
            # writes through numpy views handed out by the array: x[i] is a view of x's row, x.ravel() is x's buffer (as in numpy)
            cand = [i for i in range(n) if U[i]]
            if not cand:
                continue
            tu = track[u]
            deps = [w for w in env if w != u and track[w].own != tu.own and track[w].maybe_lazy and tu.own in track[w].bufs]
            if deps and not allow_hazard:
                for w in deps:
                    add_obs(w, "tolist")
            elif deps:
                hazard = True
            materialise(u)
            i = rng.choice(cand)
            j = rng.randrange(len(U[i]))
            val = num(100, 999)
            U[i][j] = val
            if kind == "rowwrite":
                steps.append({"op": "rowwrite", "u": u, "i": i if rng.random() < 0.5 else i - n, "j": j, "val": val})
            else:
                steps.append({"op": "ravelwrite", "u": u, "k": sum(len(r) for r in U[:i]) + j, "val": val})
        elif kind in ("assign", "maskassign"):
            # hazard control (DESIGN 5, C10): a write into a buffer that a (maybe) lazy selection still shares
            tu = track[u]
            deps = [w for w in env if w != u and track[w].own != tu.own and track[w].maybe_lazy and tu.own in track[w].bufs]
            if deps and not allow_hazard:
                for w in deps:
                    add_obs(w, "tolist")        # inspect the dependents first: afterwards the write is harmless
            elif deps:
                hazard = True
            if kind == "assign" and rng.random() < 0.07 and n:
                # the array itself as the value of a non-identity target of the same shape: x[:, ::-1] = x
                materialise(u)
                old_ = [list(r) for r in U]
                for i_, r_ in enumerate(old_):
                    U[i_][:] = r_[::-1]
                steps.append({"op": "assign", "u": u, "rs": slice(None), "cs": slice(None, None, -1), "has_cs": True, "vk": "self"})
                continue
            if kind == "maskassign":
                c, val = rng.randint(-20, 30), rng.randint(100, 999)
                materialise(u)
                for r in U:
                    for j, x in enumerate(r):
                        if x > c:
                            r[j] = val
                steps.append({"op": "maskassign", "u": u, "c": c, "val": val})
                continue
            from .props import c02
            for _ in range(10):
                rs = c02.random_selector(rng, n, allow_oob=False)
                if isinstance(rs, (list, np.ndarray)) and not (isinstance(rs, np.ndarray) and rs.dtype == bool):
                    idxs = rng.sample(range(n), rng.randint(0, n)) if n else []
                    rs = [i if rng.random() < 0.5 else i - n for i in idxs]
                if isinstance(rs, np.ndarray) and rs.ndim == 0:
                    rs = int(rs)
                has = rng.random() < 0.4
                cs = gen.gen_slice(rng, maxl, far=True) if has else None
                try:
                    k_, cells = model.select_cells([len(r) for r in U], rs, cs, has)
                    break
                except model.Refused:
                    continue
            else:
                continue
            flat = model.flat_cells(k_, cells)
            vk = rng.choice(["scalar", "scalar", "colvec", "ragged", "var"]) if k_ == "RA" else rng.choice(["scalar", "flat"] if k_ == "ND" else ["scalar"])
            st = {"op": "assign", "u": u, "rs": rs, "cs": cs, "has_cs": has, "vk": vk}
            if vk == "colvec" and len(cells) == 0:
                vk = st["vk"] = "scalar"
            if vk == "var":
                sel_lens = [len(r) for r in cells]
                cands = [w for w in env if [len(r) for r in env[w]] == sel_lens and track[w].own != tu.own]
                if not cands:
                    vk = st["vk"] = "ragged"
                else:
                    w = rng.choice(cands)
                    st["w"] = w
                    vals = [x for r in env[w] for x in r]
                    materialise(w)
            if vk == "scalar":
                st["val"] = num(100, 999)
                vals = [st["val"]] * len(flat)
            elif vk == "flat":
                vals = st["vals"] = [num(100, 999) for _ in flat]
            elif vk == "colvec":
                col = st["col"] = [num(100, 999) for _ in cells]
                vals = [col[k] for k, r in enumerate(cells) for _ in r]
            elif vk == "ragged":
                vals = [num(100, 999) for _ in flat]
                st["rows"] = []
                k = 0
                for r in cells:
                    st["rows"].append(vals[k:k + len(r)])
                    k += len(r)
            materialise(u)
            for (i, j), x in zip(flat, vals):
                U[i][j] = x
            steps.append(st)
        else:
            add_obs(u)
    for it_ in pending_its:
        steps.append({"op": "iter_drain", "it": it_[0], "u": it_[1], "what": "iter-consumed-later"})
    # observe every variable at the end in a random way (forces the comparison of derived, possibly still lazy arrays)
    for v in list(env):
        if rng.random() < (0.8 if n_obs is None else n_obs):
            add_obs(v)
    return {"steps": steps, "hazard": hazard}


# ----------------------------------------------------------------------------- interpreters

def run_model(steps):
    env = {}
    obs = []
    its = {}
    _CUR["dtype"] = steps[0].get("dtype", "int64") if steps else "int64"
    for si, st in enumerate(steps):
        op = st["op"]
        if op == "init":
            env[st["v"]] = copy.deepcopy(st["rows"])
        elif op == "sel":
            env[st["v"]] = [list(r) for r in m_sel(env[st["u"]], st["rs"], st["cs"], st["has_cs"])[1]]
        elif op == "alias":
            env[st["v"]] = env[st["u"]]
        elif op == "ufs":
            f = {"add": lambda a, b: a + b, "subtract": lambda a, b: a - b, "multiply": lambda a, b: a * b}[st["uf"]]
            c = st["c"]
            env[st["v"]] = [[(f(x, c) if st["side"] == "R" else f(c, x)) for x in r] for r in env[st["u"]]]
        elif op == "neg":
            env[st["v"]] = [[-x for x in r] for r in env[st["u"]]]
        elif op == "ufcol":
            env[st["v"]] = [[(x - c if st["side"] == "R" else c - x) for x in r] for r, c in zip(env[st["u"]], st["col"])]
        elif op == "ufra":
            env[st["v"]] = [[x - y for x, y in zip(r, q)] for r, q in zip(env[st["u"]], env[st["w"]])]
        elif op == "where":
            env[st["v"]] = [[x if x > st["c"] else y for x, y in zip(r, q)] for r, q in zip(env[st["u"]], env[st["w"]])]
        elif op == "concat":
            U, W = env[st["u"]], env[st["w"]]
            env[st["v"]] = ([list(r) for r in U] + [list(r) for r in W]) if st["axis"] == 0 else [list(r) + list(q) for r, q in zip(U, W)]
        elif op == "diff":
            cur = [list(r) for r in env[st["u"]]]
            for _ in range(st.get("n", 1)):
                cur = [[b - c for c, b in zip(q[:-1], q[1:])] for q in cur]
            env[st["v"]] = cur
        elif op in ("sort", "cumsum", "zeros", "unique"):
            env[st["v"]] = OBS[op][1](env[st["u"]], None)
        elif op == "maskassign":
            for r in env[st["u"]]:
                for j, x in enumerate(r):
                    if x > st["c"]:
                        r[j] = st["val"]
        elif op == "rowwrite":
            env[st["u"]][st["i"]][st["j"]] = st["val"]
        elif op == "ravelwrite":
            k = st["k"]
            for r in env[st["u"]]:
                if k < len(r):
                    r[k] = st["val"]
                    break
                k -= len(r)
        elif op == "assign":
            U = env[st["u"]]
            k_, cells = model.select_cells([len(r) for r in U], st["rs"], st["cs"], st["has_cs"])
            flat = model.flat_cells(k_, cells)
            vk = st["vk"]
            if vk == "scalar":
                vals = [st["val"]] * len(flat)
            elif vk == "flat":
                vals = st["vals"]
            elif vk == "colvec":
                vals = [st["col"][k] for k, r in enumerate(cells) for _ in r]
            elif vk == "ragged":
                vals = [x for r in st["rows"] for x in r]
            elif vk == "self":
                vals = [x for r in U for x in r]          # the values the array held before the assignment started
            else:
                vals = [x for r in env[st["w"]] for x in r]
            for (i, j), x in zip(flat, vals):
                U[i][j] = x
        elif op == "partner":
            env[st["v"]] = _m_partner(env[st["u"]], st["move"])
        elif op == "cmp2":
            pass
        elif op == "iter_open":
            its[st["it"]] = st["u"]          # from here on the iterator walks the rows of this array, whatever is done to the array it was selected from
        elif op == "iter_drain":
            obs.append((si, [list(r) for r in env[its[st["it"]]]]))
        elif op == "obs":
            f = OBS[st["what"]][1]
            obs.append((si, None if f is None else f(env[st["u"]], st["arg"])))
    return {v: [list(r) for r in rows] for v, rows in env.items()}, obs


def _plain(a):
    if isinstance(a, np.ndarray):
        return a.tolist()
    if isinstance(a, (list, tuple)):
        return [_plain(x) for x in a]
    if isinstance(a, slice):
        return [a.start, a.stop, a.step]
    if a is Ellipsis:
        return "..."
    return a


def fresh_copy(x):
    RA = CTX.lib.RaggedArray
    c = copy.copy(x)
    return RA(np.array(c.ravel(), copy=True), [int(l) for l in c.lengths])


def run_lib(steps, mode="L", read_plan=None, purity=False, trace=None):
    """mode 'L': as written; 'F': every newly created array is replaced by a freshly built equal array.
    read_plan: {step index: [(variable, observation name, arg)]} executed after that step (results recorded separately).
    purity: peek every live array before and after each read-only step and report changes.
    -> (final contents, observations, extra observations, purity breaches, hazard seen at run time)"""
    lib = CTX.lib
    RA = lib.RaggedArray
    env = {}
    obs, extra, breaches = [], [], []
    kept = []         # (step, observation, result object, snapshot): results the caller still holds at the end of the program
    its = {}          # iterators opened by the program and not yet consumed
    groups = {}       # variable -> alias group id
    hazard_seen = False

    def live_snapshot():
        return {v: peek(x) for v, x in env.items()}

    DT = np.dtype(steps[0].get("dtype", "int64")) if steps else np.dtype("int64")
    sc = DT.type
    for si, st in enumerate(steps):
        op = st["op"]
        new = None
        if trace is not None and op not in ("init", "obs", "alias"):
            for nm in ("u", "w"):
                if nm in st and st[nm] in env:
                    trace.append((op + ":" + nm, "lazy" if is_lazy(env[st[nm]]) else "materialised", ""))
        if op == "init":
            flat = np.array([x for r in st["rows"] for x in r], dtype=DT)
            lens0 = [len(r) for r in st["rows"]]
            if st.get("via") == "unsafe" and mode == "L":
                env[st["v"]] = RA(flat, lens0, safe_mode=False)
            elif st.get("via") and mode == "L" and lens0 and len(set(lens0)) == 1:
                # as written: the array comes from a 2-D numpy array; in mode F the variable is the freshly built equal array
                m0 = flat.reshape(len(lens0), lens0[0])
                if st["via"] == "tonumpy-called":
                    env[st["v"]] = RA(flat, lens0)
                    env[st["v"]].to_numpy_array()
                else:
                    env[st["v"]] = RA.from_numpy_array(np.asfortranarray(m0) if st["via"] == "fromnumpy-F" else m0)
            else:
                env[st["v"]] = RA(flat, lens0)
            groups[st["v"]] = st["v"]
        elif op == "sel":
            src_ = env[st["u"]]
            if st.get("tmp"):
                src_ = src_[...] if st["tmp"] == "ell" else src_[()]
            new = src_[model.make_index(st["rs"], st["cs"], st["has_cs"])]
            del src_
        elif op == "alias":
            env[st["v"]] = env[st["u"]][...] if st["form"] == "ell" else env[st["u"]][()]
            groups[st["v"]] = groups[st["u"]]
        elif op == "ufs":
            uf = getattr(np, st["uf"])
            c = sc(st["c"])
            new = uf(env[st["u"]], c) if st["side"] == "R" else uf(c, env[st["u"]])
        elif op == "neg":
            new = -env[st["u"]]
        elif op == "ufcol":
            col = np.array(st["col"], dtype=DT).reshape(-1, 1)
            new = env[st["u"]] - col if st["side"] == "R" else col - env[st["u"]]
        elif op == "ufra":
            new = env[st["u"]] - env[st["w"]]
        elif op == "where":
            new = np.where(env[st["u"]] > np.int64(st["c"]), env[st["u"]], env[st["w"]])
        elif op == "concat":
            new = np.concatenate([env[st["u"]], env[st["w"]]], axis=st["axis"]) if st["axis"] != 0 else np.concatenate([env[st["u"]], env[st["w"]]])
        elif op == "sort":
            new = env[st["u"]].sort(axis=-1)
        elif op == "cumsum":
            new = np.cumsum(env[st["u"]], axis=-1)
        elif op == "diff":
            new = np.diff(env[st["u"]], n=st.get("n", 1), axis=-1)
        elif op == "zeros":
            new = np.zeros_like(env[st["u"]])
        elif op == "unique":
            new = np.unique(env[st["u"]], axis=-1)
        elif op in ("rowwrite", "ravelwrite"):
            tgt = env[st["u"]]
            if mode == "L":
                g = groups.get(st["u"])
                for w, x in env.items():
                    if groups.get(w) != g and is_lazy(x):
                        hazard_seen = True
            if op == "rowwrite":
                tgt[st["i"]][st["j"]] = st["val"]
            else:
                tgt.ravel()[st["k"]] = st["val"]
        elif op in ("assign", "maskassign"):
            tgt = env[st["u"]]
            if mode == "L":
                g = groups.get(st["u"])
                for w, x in env.items():
                    if groups.get(w) != g and is_lazy(x):
                        hazard_seen = True      # some unmaterialised selection is alive during a write (confirmed by the public flag)
            if op == "maskassign":
                tgt[tgt > np.int64(st["c"])] = st["val"]
            else:
                idx = model.make_index(st["rs"], st["cs"], st["has_cs"])
                vk = st["vk"]
                if vk == "scalar":
                    value = st["val"]
                elif vk == "flat":
                    value = np.array(st["vals"], dtype=DT)
                elif vk == "colvec":
                    value = np.array(st["col"], dtype=DT).reshape(-1, 1)
                elif vk == "ragged":
                    value = RA(np.array([x for r in st["rows"] for x in r], dtype=DT), [len(r) for r in st["rows"]])
                elif vk == "self":
                    value = tgt
                else:
                    value = env[st["w"]]
                tgt[idx] = value
        elif op == "partner":
            x_ = env[st["u"]]
            flat_ = np.array(x_.ravel(), copy=True)          # (reads the flat view: the source is materialised from here on, as the generator assumes)
            lens_ = [int(l) for l in x_.lengths]
            lens_[st["move"][0]] -= 1
            lens_[st["move"][1]] += 1
            new = RA(flat_, lens_)
        elif op == "cmp2":
            before = live_snapshot() if purity else None
            try:
                env[st["u"]] == env[st["w"]]
            except Exception:
                pass
            if purity:
                after = live_snapshot()
                CTX.tick("purity-tap")
                if not deep_same(after, before):
                    breaches.append((si, "comparison with an array of other row lengths", [v for v in before if not deep_same(before[v], after.get(v))]))
        elif op == "iter_open":
            its[st["it"]] = iter(env[st["u"]])       # an iterator that is opened now and consumed later (map / zip / a generator handed to other code)
        elif op == "iter_drain":
            obs.append((si, [np.asarray(q).tolist() for q in its[st["it"]]]))
        elif op == "obs":
            before = live_snapshot() if purity else None
            if trace is not None:
                x = env[st["u"]]
                trace.append((st["what"], "lazy" if is_lazy(x) else "materialised", type(getattr(x, "_shape", None)).__name__))
            arg_before = copy.deepcopy(st["arg"]) if purity else None
            res = OBS[st["what"]][0](env[st["u"]], st["arg"])
            obs.append((si, res))
            if purity and st["what"] in KEPT and len(kept) < 12:
                try:
                    o_ = KEPT[st["what"]](env[st["u"]], st["arg"])
                    kept.append((si, st["what"], o_, _snap(o_)))
                    CTX.tick("kept-results")
                except Exception:
                    pass
            if purity and not deep_same(_plain(arg_before), _plain(st["arg"])):
                breaches.append((si, st["what"], ["the caller's index argument: %r -> %r" % (_plain(arg_before), _plain(st["arg"]))]))
                st["arg"] = arg_before
            if purity:
                after = live_snapshot()
                CTX.tick("purity-tap")
                if not deep_same(after, before):
                    breaches.append((si, st["what"], [v for v in before if not deep_same(before[v], after.get(v))]))
        if new is not None:
            if mode == "F":
                new = fresh_copy(new)
            env[st["v"]] = new
            groups[st["v"]] = st["v"]
        if read_plan and si in read_plan:
            for (v, name, arg) in read_plan[si]:
                if v in env:
                    before = live_snapshot() if purity else None
                    arg_before = copy.deepcopy(arg) if purity else None
                    extra.append((si, v, name, OBS[name][0](env[v], arg)))
                    if purity and not deep_same(_plain(arg_before), _plain(arg)):
                        breaches.append((si, name, ["the caller's index argument: %r -> %r" % (_plain(arg_before), _plain(arg))]))
                    if purity:
                        after = live_snapshot()
                        CTX.tick("purity-tap")
                        if not deep_same(after, before):
                            breaches.append((si, name, [w for w in before if not deep_same(before[w], after.get(w))]))
    for (si, what, o_, sn_) in kept:
        try:
            ok_ = _snap_same(o_, sn_)
        except Exception:
            ok_ = True
        if not ok_:
            breaches.append((si, "a later step of the program", ["the result of '%s' that the caller obtained at step %d and still holds" % (what, si)]))
    final = {v: x.tolist() for v, x in env.items()}
    return final, obs, extra, breaches, hazard_seen
