"""Parent process of a check: plans shards, runs one child per shard, then acts as the
offline checker over the recorded event logs: verdict, evidence/<id>.json, replay files,
VIOLATION / KNOWN-FINDING / INCONCLUSIVE lines (DESIGN section 2)."""
import argparse
import collections
import fcntl
import importlib
import json
import os
import subprocess
import sys
import time

HERE = os.path.dirname(os.path.abspath(__file__))
VERIF = os.path.dirname(HERE)
DEPS = os.path.join(VERIF, ".deps")
PY = "/venv/bin/python" if os.path.exists("/venv/bin/python") else sys.executable

TIER = {
    "quick": {"shards": 8, "budget": 25.0, "timeout": 420.0},
    "thorough": {"shards": 16, "budget": 420.0, "timeout": 3600.0},
}


def ensure_deps():
    """icontract next to the repository's interpreter, offline, once (flock)."""
    os.makedirs(DEPS, exist_ok=True)
    marker = os.path.join(DEPS, "icontract")
    if os.path.isdir(marker):
        return True
    with open(os.path.join(DEPS, ".lock"), "w") as lk:
        fcntl.flock(lk, fcntl.LOCK_EX)
        if os.path.isdir(marker):
            return True
        cmd = [PY, "-m", "pip", "install", "-q", "--no-index", "--find-links", "/opt/veriftools/wheels",
               "--target", DEPS, "icontract"]
        r = subprocess.run(cmd, stdout=subprocess.PIPE, stderr=subprocess.STDOUT, text=True)
        if r.returncode != 0:
            sys.stderr.write("rtmon: icontract not installable offline (%s); using the built-in fallback\n" % r.stdout[-300:])
            return False
    return True


def repo_path():
    return os.path.realpath(os.environ.get("RTMON_REPO", "/repo"))


def foreign_tree():
    return repo_path() != os.path.realpath("/repo")


def repo_ident(repo):
    import hashlib
    h = hashlib.sha256()
    pk = os.path.join(repo, "npstructures")
    for root, _, files in sorted(os.walk(pk)):
        for f in sorted(files):
            if f.endswith(".py"):
                p = os.path.join(root, f)
                h.update(os.path.relpath(p, pk).encode())
                h.update(open(p, "rb").read())
    try:
        head = subprocess.run(["git", "-C", repo, "rev-parse", "HEAD"], capture_output=True, text=True).stdout.strip()
        dirty = bool(subprocess.run(["git", "-C", repo, "status", "--porcelain", "--", "npstructures"], capture_output=True, text=True).stdout.strip())
    except Exception:
        head, dirty = "", None
    return {"head": head, "dirty": dirty, "source_sha256": h.hexdigest()[:16]}


def child_env(repo):
    env = dict(os.environ)
    env["PYTHONHASHSEED"] = "0"
    env["PYTHONDONTWRITEBYTECODE"] = "1"
    env["RTMON_REPO"] = repo
    env["PYTHONPATH"] = os.pathsep.join([repo, VERIF, DEPS])
    env["OMP_NUM_THREADS"] = env["OPENBLAS_NUM_THREADS"] = env["MKL_NUM_THREADS"] = "1"
    return env


def load_findings():
    p = os.path.join(VERIF, "known_findings.json")
    try:
        d = json.load(open(p))
    except Exception:
        return {}
    return {f["id"]: f for f in d.get("findings", []) if f.get("status", "open") == "open"}


def run_shards(pid, tier, seed, nshards, budget, timeout, rundir, replay=None):
    repo = repo_path()
    env = child_env(repo)
    procs = []
    for k in range(nshards):
        out = os.path.join(rundir, "%d.jsonl" % k)
        err = open(os.path.join(rundir, "%d.err" % k), "w")
        cmd = [PY, "-m", "rtmon.shard", "--prop", pid, "--tier", tier, "--seed", str(seed), "--shard", str(k),
               "--nshards", str(nshards), "--out", out, "--budget", str(budget)]
        if replay:
            cmd += ["--replay", replay]
        procs.append((k, out, err, subprocess.Popen(cmd, cwd=VERIF, env=env, stdout=err, stderr=subprocess.STDOUT)))
    deadline = time.time() + timeout
    status = {}
    for k, out, err, p in procs:
        try:
            rc = p.wait(timeout=max(1.0, deadline - time.time()))
            status[k] = "exit %d" % rc
        except subprocess.TimeoutExpired:
            p.kill()
            p.wait()
            status[k] = "timeout"   # inconclusive, never a violation
        err.close()
    return status


def aggregate(pid, prop, tier, seed, rundir, nshards, status, t0, replay=False):
    from . import cov
    events = []
    summaries = []
    problems = []
    for k in range(nshards):
        p = os.path.join(rundir, "%d.jsonl" % k)
        got_summary = False
        if os.path.exists(p):
            for line in open(p):
                try:
                    ev = json.loads(line)
                except Exception:
                    continue
                if ev.get("summary"):
                    summaries.append(ev)
                    got_summary = True
                else:
                    ev["shard"] = k
                    events.append(ev)
        if not got_summary:
            tail = ""
            try:
                tail = open(os.path.join(rundir, "%d.err" % k)).read()[-600:]
            except Exception:
                pass
            problems.append("shard %d did not finish (%s): %s" % (k, status.get(k), tail.strip().replace("\n", " | ")))

    by_v = collections.Counter(e["v"] for e in events)
    classes = collections.Counter()
    for e in events:
        for t in e["tags"]:
            classes[t] += 1
    distinct = len({e["h"] for e in events})
    distinct_nt = len({e["h"] for e in events if e.get("nt")})
    mon = collections.defaultdict(lambda: [0, 0])
    covhits = collections.defaultdict(set)
    lib_files = set()
    for s in summaries:
        for m, (a, b) in s.get("mon", {}).items():
            mon[m][0] += a
            mon[m][1] += b
        for f, lines in (s.get("cov") or {}).items():
            covhits[f].update(lines)
        lib_files.add(s.get("lib_file"))
    repo = repo_path()
    anchors = cov.anchor_report(repo, getattr(prop, "ANCHORS", []), covhits)

    known = load_findings()
    viol = [e for e in events if e["v"] == "violated"]
    kf_seen = collections.OrderedDict()
    unlisted = []
    for e in viol:
        fid = e.get("fid")
        if fid and fid in known and known[fid].get("property", pid) in (pid, "*") or (fid and fid in known and pid in known[fid].get("properties", [])):
            kf_seen.setdefault(fid, []).append(e)
        else:
            unlisted.append(e)

    # ---- replay files (runs against another tree than /repo keep theirs apart)
    rdir = os.path.join(VERIF, "replays") if not foreign_tree() else os.path.join(VERIF, "replays", "alt-%d" % os.getpid())
    os.makedirs(rdir, exist_ok=True)
    ident = repo_ident(repo)

    def write_replay(e, n, kind):
        path = os.path.join(rdir, "%s-%s-%d-%s%d.json" % (pid, tier, seed, kind, n))
        json.dump({"property": pid, "tier": tier, "seed": seed, "source": e.get("src"), "case": e.get("case"),
                   "msg": e.get("msg"), "got": e.get("got"), "expected": e.get("expected"), "tags": e.get("tags"),
                   "finding": e.get("fid"), "repo": ident, "other_classes_used_first": bool(e.get("warm"))}, open(path, "w"), indent=1)
        return path

    lines = []
    seen_msgs = set()
    nrep = 0
    for e in unlisted:
        if "case" not in e:
            continue
        sig = (tuple(e["tags"]), (e.get("msg") or "")[:60])
        if sig in seen_msgs and nrep >= 3:
            continue
        seen_msgs.add(sig)
        if nrep < 12:
            lines.append("VIOLATION property=%s replay=%s" % (pid, write_replay(e, nrep, "v")))
            nrep += 1
    if unlisted and not lines:
        lines.append("VIOLATION property=%s replay=%s" % (pid, write_replay(unlisted[0], 0, "v")))
    kf_lines = []
    for fid, evs in kf_seen.items():
        ex = next((x for x in evs if "case" in x), evs[0])
        path = write_replay(ex, 0, "known-" + fid + "-") if "case" in ex else ""
        kf_lines.append("KNOWN-FINDING: property=%s %s %s (%d events this run; witness %s)" % (pid, fid, known[fid].get("what", ""), len(evs), path))

    # ---- floors (coverage of the monitors; DESIGN 2.4)
    inconclusive = list(problems)
    anchors_not_executed = []
    n_harness = sum(1 for e in events if e["v"] == "inconclusive")
    if n_harness:
        ex = next(e for e in events if e["v"] == "inconclusive")
        inconclusive.append("%d harness errors, first: %s" % (n_harness, (ex.get("msg") or "")[-300:].replace("\n", " | ")))
    if not replay:
        for t in getattr(prop, "FLOOR_TAGS", []):
            if classes.get(t, 0) == 0:
                inconclusive.append("input class '%s' never observed" % t)
        for m in list(getattr(prop, "FLOOR_MONITORS", [])) + ["warning-tap-selftest", "warning-tap-armed"]:
            if mon.get(m, [0, 0])[1] == 0:
                inconclusive.append("monitor '%s' never evaluated non-vacuously" % m)
        if any(s.get("cov_on") for s in summaries):
            # the anchored mechanisms are supporting evidence that the workload reaches the code the property names.  A single
            # anchor that exists but was not executed is reported; the run is inconclusive only if most of them were not reached
            # (a behaviour-preserving refactoring may leave an old helper defined but unused).
            dead = [a for a, r in anchors.items() if r is not None and r[0] == 0 and a not in getattr(prop, "ANCHORS_OPTIONAL", [])]
            live = [a for a, r in anchors.items() if r is not None and r[0] > 0]
            anchors_not_executed.extend(dead)
            if dead and len(dead) > len(live):
                inconclusive.append("most anchored mechanisms were never executed: %s" % dead[:6])
        if not events:
            inconclusive.append("no events")
    if len(lib_files) > 1:
        inconclusive.append("shards imported different library copies: %s" % sorted(lib_files))

    # ---- evidence
    samples = []
    seen_cls = set()
    for e in events:
        if "case" in e and e["v"] == "held":
            key = tuple(sorted(e["tags"]))[:3]
            if key in seen_cls:
                continue
            seen_cls.add(key)
            if len(json.dumps(e["case"])) > 40000:
                continue       # (evidence stays small: big cases are described by their class tags only)
            samples.append({"case": e["case"], "verdict": e["v"], "tags": e["tags"]})
            if len(samples) >= 12:
                break
    for e in viol[:4]:
        if "case" in e:
            big_ = len(json.dumps(e["case"])) > 40000
            samples.append({"case": e["case"] if not big_ else {"note": "case body too large for the evidence file; see the replay file"}, "verdict": e["v"], "tags": e["tags"], "finding": e.get("fid"), "msg": (e.get("msg") or "")[:300]})
    if not samples:
        samples = [{"note": "no case bodies recorded", "events": len(events)}]
    rnd_planned = sum(s.get("random_planned", 0) for s in summaries)
    rnd_done = sum(s.get("random_done", 0) for s in summaries)
    ev = {
        "property_id": pid, "tier": tier, "seed": seed, "level": "exploration",
        "coverage": {
            "evaluations": len(events),
            "distinct_nontrivial": distinct_nt,
            "distinct_cases": distinct,
            "rule": getattr(prop, "RULE", ""),
            "samples": samples,
            "verdicts": dict(by_v),
            "sources": dict(collections.Counter(e["src"] for e in events)),
            "classes": dict(sorted(classes.items())),
            "monitors": {m: {"evaluations": a, "non_vacuous": b} for m, (a, b) in sorted(mon.items())},
            "anchor_lines": {a: (None if r is None else {"executed": r[0], "statements": r[1]}) for a, r in anchors.items()},
            "undefined": by_v.get("undefined", 0),
            "known_findings_seen": {fid: len(evs) for fid, evs in kf_seen.items()},
            "unlisted_violations": len(unlisted),
            "random_cases_planned": rnd_planned, "random_cases_run": rnd_done,
            "code_constants": _codeconst_summary(repo, prop, summaries),
            "shards": nshards, "shard_status": status,
            "inconclusive_reasons": inconclusive,
            "anchors_not_executed": anchors_not_executed,
            "probe_alerts": sum(s.get("probe_alerts", 0) for s in summaries),
            "repo": ident,
            "exhaustive": False,
        },
        "assumptions": getattr(prop, "ASSUMPTIONS", []) + [
            "numpy %s and CPython (copy.copy, slice semantics) are trusted" % _numpy_version(),
            "held = held on the executions listed above, nothing more"],
        "wall_s": round(time.time() - t0, 2),
        "violations": len(unlisted),
    }
    if not replay:
        # evidence/<id>.json always describes a run against /repo itself; runs against scratch trees
        # (seeded defects, mutation study, the pre-fix commit) write theirs next to their event logs
        edir = os.path.join(VERIF, "evidence") if not foreign_tree() else rundir
        os.makedirs(edir, exist_ok=True)
        with open(os.path.join(edir, "%s.json" % pid), "w") as f:
            json.dump(ev, f, indent=1, sort_keys=False, allow_nan=False)
    return ev, lines, kf_lines, inconclusive, unlisted


def _codeconst_summary(repo, prop, summaries):
    """sizes taken from the numeric literals of the monitored source (rtmon/codeconst.py): what was harvested, what was run"""
    try:
        from . import codeconst
        d = codeconst.summary(repo, cap=getattr(prop, "CONST_CAP", 300000), cap_cells=getattr(prop, "CONST_CAP_CELLS", 1 << 23))
        for k in ("planned", "run", "no_size_drawn"):
            d["cases_" + k] = sum((s.get("codeconst") or {}).get(k, 0) for s in summaries)
        d["stopped_early"] = any((s.get("codeconst") or {}).get("stopped_early") for s in summaries)
        return d
    except Exception as e:      # evidence only
        return {"error": repr(e)}


def _numpy_version():
    try:
        r = subprocess.run([PY, "-c", "import numpy; print(numpy.__version__)"], capture_output=True, text=True)
        return r.stdout.strip()
    except Exception:
        return "?"


def check(pid, tier, seed, shards=None, budget=None, replay=None, quiet=False):
    t0 = time.time()
    ensure_deps()
    sys.path.insert(0, VERIF)
    cfg = dict(TIER[tier])
    if shards:
        cfg["shards"] = shards
    if budget:
        cfg["budget"] = budget
    if os.environ.get("RTMON_BUDGET"):
        cfg["budget"] = float(os.environ["RTMON_BUDGET"])
    if replay:
        cfg["shards"] = 1
    prop = importlib.import_module("rtmon.props." + pid.lower())
    if getattr(prop, "MAX_SHARDS", None):
        cfg["shards"] = min(cfg["shards"], prop.MAX_SHARDS)
    rundir = os.path.join(VERIF, "evidence", ".run", pid + ("-replay" if replay else "") + ("-alt-%d" % os.getpid() if foreign_tree() else ""))
    os.makedirs(rundir, exist_ok=True)
    for f in os.listdir(rundir):
        os.unlink(os.path.join(rundir, f))
    status = run_shards(pid, tier, seed, cfg["shards"], cfg["budget"], cfg["timeout"], rundir, replay)
    ev, vlines, kf_lines, inconclusive, unlisted = aggregate(pid, prop, tier, seed, rundir, cfg["shards"], status, t0, replay=bool(replay))
    cv = ev["coverage"]
    if foreign_tree() and not os.environ.get("RTMON_KEEP_LOGS"):
        import shutil
        shutil.rmtree(rundir, ignore_errors=True)
        if not unlisted:
            shutil.rmtree(os.path.join(VERIF, "replays", "alt-%d" % os.getpid()), ignore_errors=True)
    for l in kf_lines:
        print(l)
    for l in vlines:
        print(l)
    if replay:
        print("replay %s: %s" % (pid, cv["verdicts"]))
    if unlisted:
        rc = 1
    elif inconclusive:
        for r in inconclusive[:8]:
            print("INCONCLUSIVE property=%s reason=%s" % (pid, r))
        rc = 2
    else:
        rc = 0
    print("%s %s tier=%s seed=%d: %d events (%d distinct non-trivial), verdicts=%s, known-findings=%s, %.1fs -> %s" % (
        pid, {0: "HELD", 1: "VIOLATED", 2: "INCONCLUSIVE"}[rc], tier, seed, cv["evaluations"], cv["distinct_nontrivial"],
        cv["verdicts"], cv["known_findings_seen"], ev["wall_s"], "exit %d" % rc))
    return rc


def main(argv=None):
    ap = argparse.ArgumentParser(prog="check")
    ap.add_argument("prop", help="C01..C19 or 'all'")
    ap.add_argument("--tier", default=os.environ.get("VERIF_TIER", "quick"), choices=["quick", "thorough"])
    ap.add_argument("--seed", type=int, default=int(os.environ.get("VERIF_SEED", "0")))
    ap.add_argument("--shards", type=int, default=None)
    ap.add_argument("--budget", type=float, default=None)
    ap.add_argument("--replay", default=None)
    a = ap.parse_args(argv)
    if a.prop == "all":
        rcs = {}
        for i in range(1, 20):
            pid = "C%02d" % i
            if os.path.exists(os.path.join(HERE, "props", pid.lower() + ".py")):
                rcs[pid] = check(pid, a.tier, a.seed, a.shards, a.budget)
        print(rcs)
        return max(rcs.values()) if rcs else 2
    return check(a.prop.upper(), a.tier, a.seed, a.shards, a.budget, a.replay)


if __name__ == "__main__":
    sys.exit(main())
