"""Regenerates /verif/MANIFEST.json from the property modules that exist (so the manifest
can never claim a check that is not there) and validates it when jsonschema is available."""
import importlib
import json
import os
import sys

HERE = os.path.dirname(os.path.abspath(__file__))
VERIF = os.path.dirname(HERE)
sys.path.insert(0, VERIF)

NOT_APPLICABLE_REASONS = {}


def main():
    props = [json.loads(l) for l in open(os.path.join(VERIF, "properties.jsonl"))]
    checks = []
    na = []
    for p in props:
        pid = p["id"]
        modpath = os.path.join(HERE, "props", pid.lower() + ".py")
        if not os.path.exists(modpath):
            na.append({"property_id": pid, "reason": NOT_APPLICABLE_REASONS.get(pid, "check not built yet (runtime monitoring applies; see DESIGN.md section 5)")})
            continue
        src = open(modpath).read()
        meta = {}
        # read the constants without importing numpy-dependent code
        import ast
        for node in ast.parse(src).body:
            if isinstance(node, ast.Assign) and len(node.targets) == 1 and isinstance(node.targets[0], ast.Name):
                n = node.targets[0].id
                if n in ("LEVEL_TEXT", "LEVEL_NOTE", "TECHNIQUE", "DESIGN_REF"):
                    try:
                        meta[n] = ast.literal_eval(node.value)
                    except Exception:
                        pass
        checks.append({
            "property_id": pid,
            "quick_cmd": "./check %s --tier quick" % pid,
            "thorough_cmd": "./check %s --tier thorough" % pid,
            "evidence_file": "/verif/evidence/%s.json" % pid,
            "replay_cmd_template": "./check %s --replay {path}" % pid,
            "engine": "rtmon",
            "level_claimed": {
                "category": "exploration",
                "text": meta.get("LEVEL_TEXT", "runtime monitoring of generated executions against a reference model; held = held on the executions listed in the evidence")
                        + " Every case also runs under the process-level monitors of rtmon/shard.py (floating-point-event tap, per-case watchdog; odd shards use the library's other classes first); receivers, argument carriers, size strata (among them sizes taken from the numeric constants of the monitored source, rtmon/codeconst.py) and histories as inventoried in DESIGN.md section 0.",
                "design_ref": meta.get("DESIGN_REF", "DESIGN.md section 5, " + pid),
            },
            "level_note": meta.get("LEVEL_NOTE", "trusts numpy, CPython's copy.copy and slice semantics, and the reference model in rtmon/props/%s.py" % pid.lower()),
            "technique": meta.get("TECHNIQUE", "runtime monitoring: reference-model oracle at the API boundary over seeded workloads"),
        })
    m = {
        "version": 1,
        "setup_cmd": "/venv/bin/python -m pip install -q --no-index --find-links /opt/veriftools/wheels --target /verif/.deps icontract || true",
        "hooks": {
            "guard": "NPSTRUCTURES_VERIF",
            "enable": "no source hooks: all taps are attached from the harness after import (rtmon/contracts.py, rtmon/cov.py); checks import /repo's working tree directly (RTMON_REPO, default /repo)",
            "baseline_off_cmd": "cd /repo && /venv/bin/python -m pytest -ra -q -p no:cacheprovider --timeout=900 --continue-on-collection-errors",
            "source_commits": [],
            "add_only": True,
        },
        "engines": [{
            "name": "rtmon", "path": "/verif/rtmon",
            "serves_properties": [c["property_id"] for c in checks],
            "kind_free_text": "runtime monitoring: seeded hostile workloads executed against the real library, reference-model oracles at the API boundary, icontract post-conditions/invariants at quiescent points, sys.monitoring line coverage of the anchored mechanisms, numpy error-mode 'call' tap attributing floating-point events to library or oracle frames, process-global state monitor, offline checker over per-shard event logs",
        }],
        "checks": checks,
        "notes": "Every check: exit 0 = held on everything explored, exit 1 + 'VIOLATION property=<id> replay=<path>' = unlisted violation, exit 2 + 'INCONCLUSIVE ...' = a coverage floor was not met or a shard failed (never produced on the unchanged tree). Known findings: /verif/known_findings.json. Seeded defects used to test the monitors: /verif/seeded/.",
        "not_applicable": na,
    }
    out = os.path.join(VERIF, "MANIFEST.json")
    json.dump(m, open(out, "w"), indent=1)
    try:
        import jsonschema
        jsonschema.validate(m, json.load(open("/root/.vp/MANIFEST.schema.json")))
        print("MANIFEST.json valid: %d checks, %d not_applicable" % (len(checks), len(na)))
    except ImportError:
        print("MANIFEST.json written (jsonschema not available here): %d checks" % len(checks))


if __name__ == "__main__":
    main()
