"""JSON codec for cases: slices, Ellipsis, numpy arrays / scalars / dtypes, tuples,
non-finite floats.  enc() output is plain strict JSON; dec() restores the objects."""
import math
import hashlib
import json
import numpy as np


def enc(o):
    if o is None or isinstance(o, (bool, str)):
        return o
    if isinstance(o, (np.bool_,)):
        return {"$ns": bool(o), "$dt": "bool"}
    if isinstance(o, np.generic) and o.dtype.kind in "fc" and o.dtype.itemsize > (8 if o.dtype.kind == "f" else 16):
        return {"$ns": enc(float(o) if o.dtype.kind == "f" else complex(o)), "$dt": o.dtype.name}      # extended precision has no python twin
    if isinstance(o, np.generic):
        return {"$ns": enc(o.item()), "$dt": o.dtype.name}
    if isinstance(o, int):
        return o
    if isinstance(o, float):
        if math.isnan(o):
            return {"$f": "-nan" if math.copysign(1.0, o) < 0 else "nan"}
        if math.isinf(o):
            return {"$f": "inf" if o > 0 else "-inf"}
        if o == 0 and math.copysign(1, o) < 0:
            return {"$f": "-0"}
        return o
    if isinstance(o, complex):
        return {"$c": [enc(o.real), enc(o.imag)]}
    if isinstance(o, slice):
        return {"$sl": [enc(o.start), enc(o.stop), enc(o.step)]}
    if o is Ellipsis:
        return {"$el": 1}
    if isinstance(o, np.ndarray):
        return {"$nd": enc(o.tolist()), "$dt": o.dtype.name if o.dtype.isnative else o.dtype.str, "$sh": list(o.shape)}
    if isinstance(o, np.dtype):
        return {"$dtype": o.name}
    if isinstance(o, type) and issubclass(o, np.generic):
        return {"$dtype": np.dtype(o).name}
    if isinstance(o, tuple):
        return {"$t": [enc(x) for x in o]}
    if isinstance(o, list):
        return [enc(x) for x in o]
    if isinstance(o, dict):
        return {str(k): enc(v) for k, v in o.items()}
    if isinstance(o, (set, frozenset)):
        return {"$t": [enc(x) for x in sorted(o, key=str)]}
    return {"$repr": repr(o)[:200]}


_F = {"nan": float("nan"), "-nan": -float("nan"), "inf": float("inf"), "-inf": float("-inf"), "-0": -0.0}


def dec(o):
    if isinstance(o, list):
        return [dec(x) for x in o]
    if isinstance(o, dict):
        if "$f" in o:
            return _F[o["$f"]]
        if "$c" in o:
            return complex(dec(o["$c"][0]), dec(o["$c"][1]))
        if "$sl" in o:
            return slice(*[dec(x) for x in o["$sl"]])
        if "$el" in o:
            return Ellipsis
        if "$nd" in o:
            return np.array(dec(o["$nd"]), dtype=o["$dt"]).reshape(o["$sh"])
        if "$ns" in o:
            return np.dtype(o["$dt"]).type(dec(o["$ns"]))
        if "$dtype" in o:
            return np.dtype(o["$dtype"])
        if "$t" in o:
            return tuple(dec(x) for x in o["$t"])
        if "$repr" in o:
            return o["$repr"]
        return {k: dec(v) for k, v in o.items()}
    return o


def dumps(o):
    return json.dumps(enc(o), sort_keys=True, allow_nan=False)


def loads(s):
    return dec(json.loads(s))


def case_hash(o):
    return hashlib.blake2b(dumps(o).encode(), digest_size=8).hexdigest()
