"""Shared run-time context: monitor counters, verdict/result objects, observers."""
import copy
import traceback
import warnings
import numpy as np

HELD, VIOLATED, UNDEFINED, INCONCLUSIVE = "held", "violated", "undefined", "inconclusive"


class Ctx:
    """Per-shard monitoring context (one per child process)."""

    def __init__(self):
        self.mon = {}          # monitor name -> [evaluations, non-vacuous evaluations]
        self.alerts = []       # contract / probe alerts raised while a case runs
        self.probe_alerts = 0
        self.lib = None
        self.exc_trace = None  # when a list: the class names of the exceptions caught by attempt(), in order (C19 compares the two configurations)

    def tick(self, name, nonvacuous=True):
        m = self.mon.setdefault(name, [0, 0])
        m[0] += 1
        if nonvacuous:
            m[1] += 1

    def alert(self, name, msg):
        """A deciding contract found a broken invariant (recorded, never raised)."""
        self.alerts.append((name, str(msg)[:400]))

    def take_alerts(self):
        a, self.alerts = self.alerts, []
        return a


CTX = Ctx()


class Result(dict):
    """verdict + classification tags + details of one decided execution."""

    def __init__(self, verdict, tags=(), msg=None, nontrivial=True, **kw):
        super().__init__(verdict=verdict, tags=list(tags), msg=msg, nontrivial=bool(nontrivial), **kw)


def held(tags=(), nontrivial=True, **kw):
    return Result(HELD, tags, None, nontrivial, **kw)


def violated(msg, tags=(), **kw):
    return Result(VIOLATED, tags, msg, True, **kw)


def undefined(msg, tags=(), **kw):
    return Result(UNDEFINED, tags, msg, False, **kw)


class Outcome:
    """Outcome of one call against the library or the model: value or exception."""
    __slots__ = ("ok", "value", "exc", "tb")

    def __init__(self, ok, value=None, exc=None, tb=None):
        self.ok, self.value, self.exc, self.tb = ok, value, exc, tb

    def __repr__(self):
        if self.ok:
            return "ok(%s)" % (short(self.value),)
        return "raised(%s: %s)" % (type(self.exc).__name__, str(self.exc)[:120])


ENV_MODE = ["always"]      # what happens to deprecation-class warnings attributed to library lines: recorded ("always") or raised ("error", the environment twin)


def env_categories():
    """warning classes that announce 'this call will stop working': python's own and numpy's visible one"""
    cats = [DeprecationWarning, PendingDeprecationWarning, FutureWarning]
    try:
        cats.append(np.exceptions.VisibleDeprecationWarning)
    except Exception:
        pass
    return cats


def quiet_filters():
    """inside a warnings.catch_warnings() block: everything ignored, except deprecation-class warnings attributed to a module of the library"""
    warnings.simplefilter("ignore")
    for cat in env_categories():
        warnings.filterwarnings(ENV_MODE[0], category=cat, module=r"npstructures(\.|$)")


def attempt(f, *a, **k):
    with warnings.catch_warnings():
        quiet_filters()
        try:
            return Outcome(True, f(*a, **k))
        except Exception as e:  # "refused" = any exception (DESIGN 7.5)
            if CTX.exc_trace is not None and len(CTX.exc_trace) < 200:
                CTX.exc_trace.append(type(e).__name__)
            return Outcome(False, exc=e, tb=traceback.format_exc(limit=6))


def short(x, n=300):
    try:
        if hasattr(x, "tolist") and not isinstance(x, np.generic):
            s = "%s%s" % (type(x).__name__, x.tolist())
        else:
            s = repr(x)
    except Exception as e:  # pragma: no cover
        s = "<unprintable %s: %s>" % (type(x).__name__, e)
    return s if len(s) <= n else s[:n] + "..."


# --------------------------------------------------------------------------- observers

def peek(ra):
    """Side-effect-free observer of a RaggedArray (DESIGN 3.1): a shallow clone is
    materialised, the original stays as lazy as it was."""
    CTX.tick("peek")
    return copy.copy(ra).tolist()


def peek_flat(ra):
    c = copy.copy(ra)
    return np.array(c.ravel(), copy=True), [int(x) for x in c.lengths]


def is_lazy(ra):
    return not getattr(ra, "is_contigous", True)


# --------------------------------------------------------------------------- comparisons

def same_dtype(a, b):
    """the same element type; the byte order of the memory representation is not part of it ('>i4' holds the same values as '<i4')"""
    a, b = np.dtype(a), np.dtype(b)
    return a == b or (a.kind == b.kind and a.itemsize == b.itemsize and a.kind in "biufc")


def same_array(a, b, dtype=True):
    """element-wise equality incl. shape, NaN == NaN; optionally dtype"""
    a = np.asarray(a)
    b = np.asarray(b)
    if a.shape != b.shape:
        return False
    if dtype and not same_dtype(a.dtype, b.dtype):
        return False
    if a.dtype.kind in "mM" or b.dtype.kind in "mM":
        # dates / durations: the same unit and the same 64-bit counts (NaT is one particular count)
        return a.dtype == b.dtype and bool(np.array_equal(a.view(np.int64), b.view(np.int64)))
    if a.dtype.kind == "c" or b.dtype.kind == "c":
        # part by part: a NaN in the real part of one cell is not "equal" to a NaN in the imaginary part of the other
        try:
            a_, b_ = np.asarray(a, dtype=np.result_type(a.dtype, np.complex64)), np.asarray(b, dtype=np.result_type(b.dtype, np.complex64))
            return bool(np.array_equal(a_.real, b_.real, equal_nan=True) and np.array_equal(a_.imag, b_.imag, equal_nan=True))
        except TypeError:
            return bool(np.array_equal(a, b))
    if a.dtype.kind in "fc" or b.dtype.kind in "fc":
        try:
            return bool(np.array_equal(a, b, equal_nan=True))
        except TypeError:
            return bool(np.array_equal(a, b))
    return bool(np.array_equal(a, b))


def rows_equal(got_rows, exp_rows, dtype=None):
    """list of numpy rows vs list of numpy rows: same count, lengths, values"""
    if len(got_rows) != len(exp_rows):
        return "row count %d != %d" % (len(got_rows), len(exp_rows))
    for i, (g, e) in enumerate(zip(got_rows, exp_rows)):
        g = np.asarray(g)
        e = np.asarray(e)
        if g.shape != e.shape:
            return "row %d has shape %s, expected %s" % (i, g.shape, e.shape)
        if not same_array(g, e, dtype=False):
            return "row %d is %s, expected %s" % (i, g.tolist(), e.tolist())
    return None


def lists_same(a, b):
    """nested python lists (peek results) equal, NaN == NaN"""
    if len(a) != len(b):
        return False
    for x, y in zip(a, b):
        if len(x) != len(y):
            return False
        if x != y and not same_array(np.array(x), np.array(y), dtype=False):
            return False
    return True


def ragged_rows(ra):
    """rows of a RaggedArray as numpy arrays, read through the public API on a clone"""
    c = copy.copy(ra)
    flat = c.ravel()
    out = []
    off = 0
    for l in c.lengths:
        l = int(l)
        out.append(flat[off:off + l])
        off += l
    return out


def to_py(x):
    """canonical python form of any library result, for logs and cross-run diffs"""
    lib = CTX.lib
    if lib is not None:
        if isinstance(x, lib.RaggedArray):
            return {"RA": peek(x), "dt": x.dtype.name}
        if isinstance(x, lib.RunLengthArray):
            return {"RLA": np.asarray(x.to_array()).tolist(), "dt": np.asarray(x.to_array()).dtype.name}
    if isinstance(x, np.ndarray):
        return {"ND": x.tolist(), "dt": x.dtype.name}
    if isinstance(x, np.generic):
        return {"SC": x.item(), "dt": x.dtype.name}
    if isinstance(x, (tuple, list)):
        return [to_py(e) for e in x]
    return x


def scribble(x):
    """Overwrite a *result* in place (writable numpy arrays, ragged arrays, nested tuples/lists of them) so that a buffer it
    wrongly shares with the object it was computed from shows up when that object is observed again.  Returns the number of
    arrays overwritten.  Only used on results that the API documents / numpy semantics define as fresh arrays."""
    lib = CTX.lib
    n = 0
    if isinstance(x, (tuple, list)):
        return sum(scribble(e) for e in x)
    if lib is not None and isinstance(x, lib.RaggedArray):
        x = x.ravel()
    if isinstance(x, np.ndarray) and x.size and x.flags.writeable:
        try:
            if x.dtype.kind == "b":
                np.logical_not(x, out=x)
            elif x.dtype.kind in "iuf":
                np.add(x, x.dtype.type(3), out=x, casting="unsafe")
                x[...] = x[::-1].copy() if x.ndim == 1 else x
            n = 1
        except Exception:
            n = 0
    return n


def deep_same(a, b):
    """structural equality of nested python results (lists / tuples / numbers / strings) with NaN == NaN"""
    if isinstance(a, np.ndarray):
        a = a.tolist()
    if isinstance(b, np.ndarray):
        b = b.tolist()
    if isinstance(a, np.generic):
        a = a.item()
    if isinstance(b, np.generic):
        b = b.item()
    if isinstance(a, (list, tuple)) and isinstance(b, (list, tuple)):
        return len(a) == len(b) and all(deep_same(x, y) for x, y in zip(a, b))
    if isinstance(a, dict) and isinstance(b, dict):
        return a.keys() == b.keys() and all(deep_same(a[k], b[k]) for k in a)
    if isinstance(a, float) and isinstance(b, float) and a != a and b != b:
        return True
    try:
        return bool(a == b)
    except Exception:
        return False
