"""C05 -- row reductions equal numpy's per-row reductions, empty rows included.

Oracle: the reduction applied by numpy to each generating row alone."""
import numpy as np
from ..core import CTX, attempt, held, violated, undefined, same_array, short
from .. import gen, contracts
from . import c02

PROP = "C05"
LEVEL_TEXT = 'Per-row numpy oracle for 9 named reductions and 10 ufunc.reduce forms in 8 spellings, every placement of empty rows (exhaustive for <=4 rows of length 0..2), lazy receivers; integer means judged against exact rational arithmetic. Exploration.'
LEVEL_NOTE = "trusts numpy 2.x, CPython (copy.copy, slice semantics, big ints) and the reference model in rtmon/props/c05.py; decides the executions it produces, nothing more"
TECHNIQUE = 'runtime monitoring: reference-model oracle (numpy per row / exact rational mean) + exhaustive small-scope sweep of row-length vectors'
DESIGN_REF = "DESIGN.md sections 0, 5 (C05), 7"
RULE = ("case = (row lengths, dtype, flat values, reduction name, spelling: method / np.<f> / ufunc.reduce / axis=None / keepdims); "
        "distinct = hash of the case; non-trivial = >= 2 rows and (an empty row or >= 2 cells)")
ASSUMPTIONS = ["max/min/mean/argmax/argmin are compared on non-empty rows only (one entry per row is still required)",
               "result dtype is compared by kind; float inputs are dyadic (k/4) or powers of two for products so that the exact result does not depend on the summation order",
               "mean: rtol 1e-12 (1e-6 for float32); arg* without NaN"]
ANCHORS = [
    "raggedarray/__init__.py::RaggedArray._reduce",
    "raggedarray/__init__.py::reduction.reduction_func.new_func",
    "raggedarray/__init__.py::RaggedArray.sum", "raggedarray/__init__.py::RaggedArray.prod", "raggedarray/__init__.py::RaggedArray.mean",
    "raggedarray/__init__.py::RaggedArray.all", "raggedarray/__init__.py::RaggedArray.any", "raggedarray/__init__.py::RaggedArray.max",
    "raggedarray/__init__.py::RaggedArray.min", "raggedarray/__init__.py::RaggedArray.argmax", "raggedarray/__init__.py::RaggedArray.argmin",
    "arrayfunctions.py::get_ra_func",
]
NAMED = ["sum", "prod", "any", "all", "max", "min", "mean", "argmax", "argmin"]
NEEDS_NONEMPTY = {"max", "min", "mean", "argmax", "argmin", "maximum", "minimum"}
UFUNCS = ["add", "multiply", "logical_and", "logical_or", "logical_xor", "bitwise_and", "bitwise_or", "bitwise_xor", "maximum", "minimum"]
MODES = ["method", "np", "ufunc.reduce", "axisNone", "keepdims", "np-keepdims", "ufunc-keepdims", "axis1", "np-positional", "axis-npint", "reduce-kwargs", "explicit-defaults", "axisNone-keepdims"]
FLOOR_TAGS = ["recv:" + r for r in c02.RECVS] + ["mode:" + m for m in MODES] + ["f:" + f for f in NAMED + UFUNCS] + ["kind:b", "kind:i", "kind:u", "kind:f", "norows", "allempty", "e-first", "e-last", "e-mid", "e-consec", "e-none", "trailing-run", "argm:nan-in-another-row"]
FLOOR_MONITORS = ["c05:compare", "c05:identity-for-empty-row"]
N_RANDOM = {"quick": 36000, "thorough": 500000}


def setup(lib):
    contracts.attach(lib, which=("ragged",))


def mk_case(lens, dtype, vals, mode, name, vclass="small", recv="fresh"):
    return {"lens": list(lens), "dtype": np.dtype(dtype).name, "vals": vals, "mode": mode, "name": name, "vclass": vclass, "recv": recv}


def run_big(case):
    """a few rows of millions of elements given by a formula (every element the largest value of a 32-bit / 16-bit type, or alternating): integer row
    sums are exact in numpy (64-bit accumulation), whatever the number of terms"""
    RA = CTX.lib.RaggedArray
    lens, name, dt = case["lens"], case["name"], np.dtype(case["dtype"])
    tot = sum(lens)
    tags = ["mode:big-formula", "f:" + name, "kind:" + dt.kind]
    ii = np.iinfo(dt)
    flat = np.full(tot, ii.max, dtype=dt)
    if case.get("pattern") == "alternate" and ii.min < 0:
        flat[1::2] = ii.min
    elif case.get("pattern") == "min" and ii.min < 0:
        flat[:] = ii.min
    ra = RA(flat.copy(), list(lens))
    rows = gen.split_rows(flat, lens)
    if name == "mean":
        exp = np.array([float(int(np.sum(r, dtype=np.int64 if dt.kind == "i" else np.uint64))) / len(r) if len(r) else float("nan") for r in rows])
        a = attempt(lambda: ra.mean(axis=-1))
    else:
        exp = np.array([np.sum(r) for r in rows] + [np.sum(flat[:0])])[:len(rows)]
        a = attempt(lambda: ra.sum(axis=-1) if name == "sum" else np.add.reduce(ra, axis=-1))
    CTX.tick("c05:compare", True)
    desc = "%s on %s rows of lengths %s, elements %s" % (name, dt, lens, case.get("pattern", "max"))
    if not a.ok:
        return violated("%s raised %r" % (desc, a), tags)
    g = np.asarray(a.value)
    if g.shape != exp.shape:
        return violated("%s has shape %s" % (desc, g.shape), tags)
    sel = [i for i, l in enumerate(lens) if l > 0] if name == "mean" else list(range(len(lens)))
    ok = all((abs(float(g[i]) - float(exp[i])) <= 1e-9 * abs(float(exp[i]))) if name == "mean" else (int(g[i]) == int(exp[i])) for i in sel)
    if not ok:
        return violated("%s gives %s, numpy per row gives %s" % (desc, short(g, 160), short(exp, 160)), tags, got=g, expected=exp)
    return held(tags, True)


def run(case):
    if case.get("big"):
        return run_big(case)
    RA = CTX.lib.RaggedArray
    lens, mode, name = case["lens"], case["mode"], case["name"]
    dt = np.dtype(case["dtype"])
    n, tot = len(lens), sum(lens)
    flat = np.array(case["vals"], dtype=dt)
    rows = gen.split_rows(flat, lens)
    recv = case.get("recv", "fresh")
    ra, _parent = c02.build_receiver(recv, flat, lens)     # the reduction is the first thing that touches an unmaterialised receiver
    tags = ["mode:" + mode, "f:" + name, "kind:" + dt.kind, "v:" + case["vclass"], "recv:" + recv] + gen.empty_placement(lens)
    if len(lens) >= 2 and lens[-1] == 0 and lens[-2] == 0:
        tags.append("trailing-run")
    is_uf = mode.startswith("ufunc") or mode == "reduce-kwargs"
    f_np = getattr(np, name)
    per_row = (lambda r: f_np.reduce(r)) if is_uf else (lambda r: f_np(r))
    f_flat = f_np
    if name == "mean" and dt.kind in "iub":
        # exact oracle: the rational mean of the python integers (numpy's own float64 accumulation depends on the summation order for huge values)
        per_row = lambda r: (float(sum(int(x) for x in r.tolist())) / len(r)) if len(r) else float("nan")
        f_flat = per_row
    nontrivial = n >= 2 and (0 in lens or tot >= 2)

    if mode in ("axisNone", "axisNone-keepdims"):
        o = attempt(f_flat, flat)
        if mode == "axisNone-keepdims":
            # both options in one call: whatever shape comes back (numpy: one row, one column), it holds the SAME NUMBER as the reduction over all elements
            a = attempt(lambda: getattr(ra, name)(axis=None, keepdims=True)) if len(case["vals"]) % 2 == 0 else attempt(lambda: f_np(ra, axis=None, keepdims=True))
            if a.ok:
                v_ = np.asarray(a.value)
                if v_.size != 1:
                    return violated("%s(axis=None, keepdims=True) on %s rows %s returned %s values" % (name, dt, short([r.tolist() for r in rows], 160), v_.size), tags)
                a.value = v_.reshape(())
        else:
            a = attempt(lambda: getattr(ra, name)()) if len(case["vals"]) % 2 == 0 else attempt(lambda: f_np(ra))
        if not o.ok:
            return undefined("numpy raises for the flat reduction: %r" % o, tags)
        CTX.tick("c05:compare", tot > 0)
        if not a.ok:
            return violated("%s with no axis on %s rows %s raised %r" % (name, dt, short([r.tolist() for r in rows], 160), a), tags)
        return compare_values(np.asarray(a.value), np.asarray(o.value), case, tags, nontrivial, rows, "no axis")

    if mode in ("method", "axis1"):
        ax = -1 if mode == "method" else 1
        a = attempt(lambda: getattr(ra, name)(axis=ax))
    elif mode == "np":
        a = attempt(lambda: f_np(ra, axis=-1))
    elif mode == "np-positional":
        a = attempt(lambda: f_np(ra, -1))
    elif mode == "axis-npint":
        a = attempt(lambda: getattr(ra, name)(axis=np.int64(-1)))
    elif mode == "ufunc.reduce":
        a = attempt(lambda: f_np.reduce(ra, axis=-1))
    elif mode == "reduce-kwargs":
        # numpy's documented defaults spelled out must change nothing
        ident = getattr(f_np, "identity", None)
        kws = [{"where": True}, {"dtype": None}, {"out": None}, {"keepdims": False}] + ([{"initial": ident}] if ident is not None and dt.kind != "b" else [])
        kw = kws[len(case["vals"]) % len(kws)]
        tags.append("kw:" + next(iter(kw)))
        a = attempt(lambda: f_np.reduce(ra, axis=-1, **kw))
    elif mode == "explicit-defaults":
        a = attempt(lambda: getattr(ra, name)(axis=-1, keepdims=False))
    elif mode == "keepdims":
        kd = {0: True, 1: np.True_, 2: 1}[len(case["vals"]) % 3]      # any true value asks for the column form, as in numpy
        a = attempt(lambda: getattr(ra, name)(axis=-1, keepdims=kd))
    elif mode == "np-keepdims":
        kd = {0: True, 1: np.bool_(1)}[len(case["vals"]) % 2]
        a = attempt(lambda: f_np(ra, axis=-1, keepdims=kd))
    elif mode == "ufunc-keepdims":
        a = attempt(lambda: f_np.reduce(ra, axis=-1, keepdims=True))
    else:
        raise ValueError(mode)

    nonempty_only = name in NEEDS_NONEMPTY
    idx = [i for i in range(n) if lens[i] > 0] if nonempty_only else list(range(n))
    if name in ("argmax", "argmin") and dt.kind in "fc" and tot and bool(np.isnan(flat).any()):
        # a row holding a NaN has no largest cell in the tree's sense (left out); every other row keeps its answer
        idx = [i for i in idx if not np.isnan(rows[i]).any()]
        tags.append("argm:nan-in-another-row")
    o = attempt(lambda: [per_row(rows[i]) for i in idx] + ([] if nonempty_only else [per_row(flat[:0])])[:0])
    if not o.ok:
        return undefined("numpy raises for a row: %r" % o, tags)
    exp = o.value
    CTX.tick("c05:compare", len(idx) > 0)
    desc = "%s [%s] on %s rows %s" % (name, mode, dt, short([r.tolist() for r in rows], 200))
    if not a.ok:
        return violated("%s raised %s: %s" % (desc, type(a.exc).__name__, a.exc), tags, got=repr(a))
    g = a.value
    if not isinstance(g, np.ndarray):
        return violated("%s returned %s" % (desc, short(g)), tags)
    want_shape = (n, 1) if "keepdims" in mode else (n,)
    if g.shape != want_shape:
        return violated("%s has shape %s, expected %s (one entry per row)" % (desc, g.shape, want_shape), tags, got=list(g.shape), expected=list(want_shape))
    g = g.reshape(n)
    if not nonempty_only and 0 in lens:
        CTX.tick("c05:identity-for-empty-row")
    got_sel = g[idx] if len(idx) else g[:0]
    if len(idx) == 0:
        return held(tags, nontrivial)
    return compare_values(np.asarray(got_sel), np.array(exp), case, tags, nontrivial, rows, mode)


def compare_values(g, e, case, tags, nontrivial, rows, mode):
    name = case["name"]
    desc = "%s [%s] on %s rows %s" % (name, mode, case["dtype"], short([r.tolist() for r in rows], 200))
    if g.dtype == object:
        return violated("%s returned an object array %s" % (desc, short(g)), tags)
    if name == "mean":
        rtol = 1e-6 if case["dtype"] == "float32" else (1e-9 if np.dtype(case["dtype"]).kind in "iub" else 1e-12)
        # the error bound is relative to the magnitude of the *terms* (cancellation among huge integers is numpy's own inexactness)
        mags = np.array([float(np.mean(np.abs(r.astype(np.float64)))) if len(r) else 0.0 for r in rows])
        scale = (mags[[i for i in range(len(rows)) if len(rows[i])]] if mode != "no axis" else np.array(float(np.mean(np.abs(np.concatenate(rows).astype(np.float64)))) if sum(len(r) for r in rows) else 0.0))
        try:
            atol = rtol * np.asarray(scale, dtype=np.float64).reshape(np.asarray(e).shape)
        except Exception:
            atol = 0.0
        wide_ = np.complex128 if (g.dtype.kind == "c" or np.asarray(e).dtype.kind == "c") else np.float64
        ge, ee = g.astype(wide_), np.asarray(e).astype(wide_)
        ok = g.shape == e.shape and bool(np.all((np.abs(ge - ee) <= atol + rtol * np.abs(ee)) | (np.isnan(ge) & np.isnan(ee)) | (ge == ee)))
    else:
        ok = same_array(g, e, dtype=False)
    if not ok:
        return violated("%s gives %s, numpy per row gives %s" % (desc, short(g, 200), short(e, 200)), tags, got=g, expected=e)
    if mode != "no axis" and g.dtype.kind != e.dtype.kind and not (name in ("argmax", "argmin") and g.dtype.kind in "iu"):
        return violated("%s has dtype %s, numpy gives %s" % (desc, g.dtype, e.dtype), tags + ["dtype-kind"], got=str(g.dtype), expected=str(e.dtype))
    return held(tags, nontrivial)


# ----------------------------------------------------------------------------- workloads

def _vals(rng, dtype, n, vclass, name):
    k = np.dtype(dtype).kind
    if vclass == "sparse":
        return gen.values(rng, dtype, n, "sparse").tolist()
    if k == "f":
        if name in ("prod", "multiply"):
            return [rng.choice([0.5, 1.0, 2.0, -1.0, -2.0, 1.0, 1.0]) for _ in range(n)]
        if vclass == "nonfinite":
            v = gen.values(rng, dtype, n, "nonfinite").tolist()
            if name in ("argmax", "argmin") and n % 2:
                v = [float("inf") if x != x else x for x in v]
            return v
        if vclass == "decimal" and name in ("max", "min", "argmax", "argmin", "any", "all", "maximum", "minimum"):
            return gen.values(rng, dtype, n, "decimal").tolist()      # exact (order-independent) reductions only
        return gen.values(rng, dtype, n, "small").tolist()
    if name == "mean" and k == "f":
        vclass = "small"   # float sums depend on the summation order; integer means are judged against the exact rational mean
    return gen.values(rng, dtype, n, vclass if vclass != "nonfinite" else "extreme").tolist()


def gen_case(rng, lens, dtype, vclass, mode=None, name=None, recv="fresh"):
    mode = mode or rng.choice(MODES)
    if name is None:
        if mode.startswith("ufunc") or mode == "reduce-kwargs":
            name = rng.choice(UFUNCS)
        elif mode in ("axisNone", "axisNone-keepdims"):
            name = rng.choice(["sum", "prod", "any", "all", "max", "min", "mean"])
        else:
            name = rng.choice(NAMED)
    return mk_case(lens, dtype, _vals(rng, dtype, sum(lens), vclass, name), mode, name, vclass, recv)


def directed():
    import random
    rng = random.Random(505)
    # durations (timedelta64, NaT in some rows): the reductions numpy defines for them and the current tree carries out in their own type
    # (sum, max, min, argmax, argmin, add / maximum / minimum .reduce); mean and the column aggregates go through doubles in the current tree and are left out
    for lens in ([2, 0, 3, 2], [3, 1], [1, 1, 1, 0], [0, 4, 0]):
        tot_ = sum(lens)
        for k_ in range(3):
            vals_ = [rng.choice([1, 2, 5, 86400, -7, 10 ** 6]) for _ in range(tot_)]
            if tot_ and k_:
                vals_[rng.randrange(tot_)] = -2 ** 63          # NaT
            for name, mode in (("sum", "method"), ("max", "method"), ("min", "np"), ("argmax", "method"), ("argmin", "method"), ("add", "ufunc.reduce"), ("maximum", "ufunc.reduce"), ("minimum", "ufunc.reduce"), ("sum", "keepdims")):
                if name in ("argmax", "argmin") and k_:
                    continue        # (the position of an extremum among NaT is left out, like the position among NaN)
                yield mk_case(lens, "m8[s]", vals_, mode, name, "small")
    # complex and extended-precision elements: every named reduction in every spelling
    for dtype in gen.DT_EXOTIC:
        for lens in ([2, 0, 3, 1], [0, 4], [3]):
            for name in NAMED:
                for mode in ("method", "np", "keepdims", "axisNone"):
                    if mode == "axisNone" and name in ("argmax", "argmin"):
                        continue
                    yield gen_case(rng, lens, dtype, "small", mode, name)
            for name in ("add", "multiply", "maximum", "logical_or"):
                yield gen_case(rng, lens, dtype, "small", "ufunc.reduce", name)
    # rows of millions of 32-bit / 16-bit / 8-bit integers of the largest magnitude: totals beyond 2**53 (exact in 64-bit integers, not in doubles)
    for dtype, lens in (("int32", [3, 6000001, 0, 2]), ("uint32", [2500000, 0, 4300000]), ("int32", [5000003, 1]), ("int16", [70001, 3]), ("uint8", [300000, 0, 7])):
        for name in ("sum", "add", "mean"):
            for pattern in ("max", "min", "alternate"):
                if pattern != "max" and (dtype.startswith("u") or name == "mean"):
                    continue
                yield {"big": True, "lens": lens, "dtype": dtype, "name": name, "pattern": pattern}
    shapes = [[], [0], [0, 0, 0], [3], [0, 2, 3], [2, 3, 0], [2, 0, 3], [2, 0, 0, 3], [1, 0, 0], [3, 2, 0, 0, 0], [0, 0, 2], [2, 2], [0, 12, 1], [1, 1, 1]]
    for lens in shapes:
        for dtype in ["int64", "uint8", "bool", "float64", "int8", "uint64", "float32"]:
            for name in NAMED:
                for mode in ["method", "np", "keepdims"]:
                    yield gen_case(rng, lens, dtype, "small", mode, name)
            for name in ("any", "all", "argmax", "argmin", "max", "sum"):
                yield gen_case(rng, lens, dtype, "sparse", "method", name)
            for name in UFUNCS:
                yield gen_case(rng, lens, dtype, "extreme", "ufunc.reduce", name)
            yield gen_case(rng, lens, dtype, "small", "ufunc-keepdims", "add")
            yield gen_case(rng, lens, dtype, "small", "np-keepdims", "sum")
            yield gen_case(rng, lens, dtype, "small", "axis1", "sum")
            for name in ["sum", "prod", "any", "all", "max", "min", "mean"]:
                yield gen_case(rng, lens, dtype, "small", "axisNone", name)
    # reductions applied directly to unmaterialised selections (empty rows at the end of the *selection*, not of the parent)
    for recv in c02.RECVS[1:]:
        for lens in ([2, 0, 3, 0], [0, 0, 4], [3, 1, 0, 0, 0], [1, 2, 3]):
            for name in NAMED:
                yield gen_case(rng, lens, "int64", "small", "method", name, recv)
                yield gen_case(rng, lens, "float64", "small", "np", name, recv)
            for name in UFUNCS:
                yield gen_case(rng, lens, "uint8", "small", "ufunc.reduce", name, recv)
    for dtype in ["int64", "uint64", "int32"]:
        for mode in ["method", "np", "keepdims", "axisNone"]:
            yield gen_case(rng, [3, 0, 4, 2], dtype, "extreme", mode, "mean")
    # rectangular contents on receivers built from / converted to a 2-D numpy array; floats of very different magnitude
    for recv in ("fromnumpy", "tonumpy-called", "fresh", "ufunc"):
        for lens in ([3, 3, 3], [2, 2], [4, 4, 4, 4], [1, 1, 1]):
            for name in ("argmax", "argmin", "max", "min"):
                for mode in ("method", "np", "keepdims"):
                    for dtype in ("float64", "float32"):
                        yield gen_case(rng, lens, dtype, "decimal", mode, name, recv)
    for lens in ([3, 0, 2], [0, 0], [4]):
        for name in UFUNCS:
            for k in range(5):
                c = gen_case(rng, lens, "int64", "small", "reduce-kwargs", name)
                c["vals"] = c["vals"]
                yield c
        for name in NAMED:
            yield gen_case(rng, lens, "int64", "small", "explicit-defaults", name)
    # wrap-around and non-finite values
    for dtype in ["int8", "uint8", "int16", "int64", "uint64"]:
        for name in ["sum", "prod", "max", "min", "argmax", "argmin"]:
            yield gen_case(rng, [3, 0, 4, 2], dtype, "extreme", "method", name)
    for dtype in ["float32", "float64"]:
        for name in ["sum", "max", "min", "any", "all", "argmax", "argmin"]:
            yield gen_case(rng, [3, 0, 4, 2, 0], dtype, "nonfinite", "np", name)


def sweep(tier):
    """every vector of row lengths with <= 4 rows of length 0..2 (every placement of empty rows) x every named reduction"""
    import itertools
    import random
    rng = random.Random(55)
    dts = ["int64", "bool"] if tier == "quick" else ["int64", "bool", "uint8", "float64", "int8"]
    for n in range(0, 5):
        for lens in itertools.product(range(3), repeat=n):
            for dtype in dts:
                for name in NAMED:
                    yield gen_case(rng, list(lens), dtype, "small", "method" if sum(lens) % 2 else "np", name)
                if tier != "quick":
                    for name in UFUNCS:
                        yield gen_case(rng, list(lens), dtype, "small", "ufunc.reduce", name)


def random_case(rng, tier):
    lens, _ = gen.length_vector(rng, tier)
    dtype = rng.choice(gen.DT_ALL) if rng.random() < 0.9 else rng.choice(gen.DT_EXOTIC)
    vclass = rng.choice(["small", "small", "extreme", "nonfinite", "sparse", "sparse", "decimal"])
    if dtype in gen.DT_EXOTIC and vclass in ("extreme", "nonfinite", "decimal"):
        vclass = "small"        # (sums of complex / extended-precision values: the exactly representable class)
    return gen_case(rng, lens, dtype, vclass, recv=rng.choice(c02.RECVS) if rng.random() < 0.35 else "fresh")


def classify(case, res):
    dt = np.dtype(case["dtype"])
    if case["name"] in ("argmax", "argmin"):
        return "F05c" if sum(case["lens"]) else "F05f"
    if case["name"] == "bitwise_and" and dt.kind == "u":
        return "F05a"
    if case["name"] == "bitwise_and" and sum(case["lens"]) == 0:
        return "F05b"
    if case["name"] in ("max", "min", "maximum", "minimum") and case["lens"] and case["lens"][-1] == 0:
        return "F05d"
    if case["name"] in ("max", "min", "maximum", "minimum") and sum(case["lens"]) == 0:
        return "F05f"
    if case["mode"] == "ufunc-keepdims":
        return "F05e"
    return None
