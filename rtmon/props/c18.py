"""C18 -- an npdataclass keeps its columns aligned under every operation.

Oracle: the same selector applied to each generating field.  Every field holds unique
entry ids (value encodes field and entry), so a result entry identifies where it came from.
The field-alignment contract (all fields equally long) is checked on every result."""
import dataclasses
import numpy as np
from ..core import CTX, attempt, held, violated, undefined, same_array, short
from .. import gen

PROP = "C18"
LEVEL_TEXT = 'Field-wise oracle with unique entry ids; alignment contract (all fields equally long, len agrees) on every result; index kinds incl. python bool lists, equality of tables whose columns differ only in entry shape, conversion to reordered narrower classes, Fortran-ordered 2-D fields, VarLenArray padding. Exploration.'
LEVEL_NOTE = "trusts numpy 2.x, CPython (copy.copy, slice semantics, big ints) and the reference model in rtmon/props/c18.py; decides the executions it produces, nothing more"
TECHNIQUE = 'runtime monitoring: reference-model oracle (same selector on each generating field) + field-alignment contract'
DESIGN_REF = "DESIGN.md sections 0, 5 (C18), 7"
RULE = ("case = (number and kinds of fields, common length, operation: construct (equal / unequal lengths) | len | index (int, slice, int list, "
        "bool array, bool list) | iter | concatenate | == | astype(narrower class, any field order) | VarLenArray concatenate); "
        "distinct = hash of the case; non-trivial = >= 2 fields and length >= 2")
ASSUMPTIONS = ["fields are 1-D or 2-D numpy arrays"]
ANCHORS = ["npdataclasses.py::NpDataClass._assert_same_lens", "npdataclasses.py::npdataclass.FinalClass.__init__", "npdataclasses.py::NpDataClass.__getitem__",
           "npdataclasses.py::NpDataClass.__iter__", "npdataclasses.py::NpDataClass.__array_function__", "npdataclasses.py::npdataclass.FinalClass.__eq__",
           "npdataclasses.py::NpDataClass.astype", "npdataclasses.py::VarLenArray.__array_function__", "npdataclasses.py::NpDataClass.__len__"]
OPS = ["len", "badlen", "idx", "iter", "concat", "eq", "astype", "vla", "inherit"]
FLOOR_TAGS = ["op:" + o for o in OPS] + ["idx:int", "idx:slice", "idx:list", "idx:mask", "idx:boollist", "idx:emptylist", "idx:range", "field-rebound", "len:0", "fields:1", "fields:4",
                                         "astype:reordered", "astype:same-order", "eq:same", "eq:cell-differs", "eq:length-differs", "eq:shape-differs", "eq:length-differs-same-size", "field:2d", "field:float", "badlen:first", "badlen:other", "vla:fortran", "inherit:badlen", "inherit:eq", "inherit:idx"]
FLOOR_MONITORS = ["c18:compare", "c18:aligned"]
FP_STRICT = True       # a floating-point event inside the library that the dense computation does not have is a violation (shard.FpMonitor)
N_RANDOM = {"quick": 32000, "thorough": 200000}
_CLS = {}


def get_cls(names):
    """npdataclass with the given field names (cached per process)"""
    key = tuple(names)
    if key not in _CLS:
        ns = {"__annotations__": {n: np.ndarray for n in names}}
        _CLS[key] = CTX.lib.npdataclass(type("T_" + "_".join(names), (), ns))
    return _CLS[key]


_DERIVED = {}


def get_derived(nbase, nextra):
    """(base class with nbase fields, class derived from it with nextra more fields); the base class is *used first*"""
    key = (nbase, nextra)
    if key not in _DERIVED:
        lib = CTX.lib
        bns = {"__annotations__": {"b%d" % i: np.ndarray for i in range(nbase)}}
        Base = lib.npdataclass(type("Base%d_%d" % key, (), bns))
        Base(*[np.arange(2) for _ in range(nbase)])        # an object of the base class exists before the derived class is defined / used
        dns = {"__annotations__": {"x%d" % i: np.ndarray for i in range(nextra)}}
        Derived = lib.npdataclass(type("Derived%d_%d" % key, (Base,), dns))
        _DERIVED[key] = (Base, Derived)
    return _DERIVED[key]


def run_inherit(case, tags):
    nb, nx, L = case["nbase"], case["nextra"], case["L"]
    Base, Derived = get_derived(nb, nx)
    k = nb + nx
    fs = [field("1d", i, L) for i in range(k)]
    tags += ["fields:%d" % k]
    o = attempt(lambda: Derived(*[f.copy() for f in fs]))
    if not o.ok:
        return violated("constructing a derived npdataclass with %d inherited and %d own fields raised %r" % (nb, nx, o), tags)
    o = o.value
    names = [f.name for f in dataclasses.fields(o)]
    if len(names) != k:
        return violated("a derived npdataclass with %d + %d fields reports fields %s" % (nb, nx, names), tags)
    msg = aligned(o, tags)
    if msg:
        return violated("derived npdataclass: %s" % msg, tags)
    sub = case["sub"]
    if sub == "badlen":
        fs2 = list(fs)
        fs2[-1] = field("1d", k - 1, L + 2)
        a = attempt(lambda: Derived(*fs2))
        if a.ok:
            return violated("a derived npdataclass accepted an own field of length %d next to inherited fields of length %d" % (L + 2, L), tags)
    elif sub == "eq":
        fs3 = [f.copy() for f in fs]
        if L:
            fs3[-1][0] += 1
            a = attempt(lambda: o == Derived(*fs3))
            if not a.ok or bool(a.value):
                return violated("two derived npdataclass objects that differ in an own (not inherited) field compare equal: %r" % (a,), tags)
    elif sub == "idx":
        idx = slice(None, None, -1)
        a = attempt(lambda: o[idx])
        if not a.ok or not all(eqf(g, f[idx]) for g, f in zip(fields_of(a.value), fs)) or len(fields_of(a.value)) != k:
            return violated("indexing a derived npdataclass gives %s" % (repr(a) if not a.ok else short([np.asarray(g).tolist() for g in fields_of(a.value)], 200)), tags)
    elif sub == "concat":
        a = attempt(lambda: np.concatenate([o, o]))
        if not a.ok or not all(eqf(g, np.concatenate([f, f])) for g, f in zip(fields_of(a.value), fs)) or len(fields_of(a.value)) != k:
            return violated("concatenating derived npdataclass objects gives %s" % (repr(a) if not a.ok else short([np.asarray(g).tolist() for g in fields_of(a.value)], 200)), tags)
    elif sub == "iter":
        a = attempt(lambda: list(o))
        if not a.ok or len(a.value) != L or not all(all(eqf(g, f[i]) for g, f in zip(fields_of(e), fs)) for i, e in enumerate(a.value)):
            return violated("iterating a derived npdataclass gives %s" % (repr(a) if not a.ok else "%d entries" % len(a.value)), tags)
    return held(tags + ["inherit:" + sub], L >= 2)


def field(kind, fidx, L, offset=0):
    base = 100000 * (fidx + 1) + offset
    if kind == "1d":
        return np.arange(L, dtype=np.int64) * 10 + base
    if kind == "2d":
        return (np.arange(L, dtype=np.int64)[:, None] * 10 + np.arange(3)[None, :] + base)
    if kind == "2dF":
        return np.asfortranarray(np.arange(L, dtype=np.int64)[:, None] * 10 + np.arange(3)[None, :] + base)
    return (np.arange(L, dtype=np.float64) * 10 + base) / 4.0


def fields_of(o):
    return [getattr(o, f.name) for f in dataclasses.fields(o)]


def aligned(o, tags):
    """the contract: all fields of an npdataclass object are equally long, and len() is that length"""
    CTX.tick("c18:aligned")
    fs = fields_of(o)
    ls = [len(f) for f in fs]
    if len(set(ls)) > 1:
        return "fields have different lengths %s" % ls
    try:
        if len(o) != ls[0]:
            return "len() is %d but the fields have length %d" % (len(o), ls[0])
    except Exception as e:
        return "len() raised %r" % e
    return None


def eqf(a, b):
    return same_array(np.asarray(a), np.asarray(b), dtype=False)


def run(case):
    op = case["op"]
    tags = ["op:" + op]
    CTX.tick("c18:compare")
    if op == "vla":
        VLA = CTX.lib.VarLenArray
        arrs = [np.array(a, dtype=np.int64).reshape(-1, w) for a, w in zip(case["arrays"], case["widths"])]
        if case.get("order") == "F":
            arrs = [np.asfortranarray(x) for x in arrs]
            tags.append("vla:fortran")
        elif case.get("order") == "T":
            arrs = [np.ascontiguousarray(x.T).T for x in arrs]
            tags.append("vla:fortran")
        W = max(case["widths"])
        exp = np.concatenate([np.pad(x, ((0, 0), (W - x.shape[1], 0))) for x in arrs])
        a = attempt(lambda: np.concatenate([VLA(x) for x in arrs]))
        desc = "np.concatenate of VarLenArrays with shapes %s" % [x.shape for x in arrs]
        if not a.ok:
            return violated("%s raised %r" % (desc, a), tags)
        if not isinstance(a.value, VLA) or not eqf(a.value.array, exp):
            return violated("%s gives %s, expected right-aligned zero-padded %s" % (desc, short(getattr(a.value, "array", a.value), 200), short(exp, 200)), tags)
        return held(tags, len(arrs) >= 2 and len(set(case["widths"])) >= 2)

    if op == "inherit":
        return run_inherit(case, tags)
    kinds, L = case["kinds"], case["L"]
    k = len(kinds)
    names = ["f%d" % i for i in range(k)]
    C = get_cls(names)
    fs = [field(kd, i, L) for i, kd in enumerate(kinds)]
    tags += ["fields:%d" % k] + (["len:0"] if L == 0 else []) + (["field:2d"] if ("2d" in kinds or "2dF" in kinds) else []) + (["field:float"] if "f" in kinds else [])
    nontrivial = k >= 2 and L >= 2
    desc0 = "dataclass with fields %s of length %d" % (kinds, L)
    if op == "badlen":
        i, d = case["which"], case["delta"]
        tags.append("badlen:first" if i == 0 else "badlen:other")
        fs2 = list(fs)
        fs2[i] = field(kinds[i], i, L + d)
        lens2 = [L] * k
        lens2[i] = L + d
        for j_, d_ in (case.get("more") or []):
            # several fields deviate at once -- in ways that may cancel in a sum, a mean, a min/max or a set of two values
            if 0 <= j_ < k and j_ != i and L + d_ >= 0:
                fs2[j_] = field(kinds[j_], j_, L + d_)
                lens2[j_] = L + d_
                tags.append("badlen:several")
        if len(set(lens2)) == 1:
            return undefined("the deviations left all fields equally long", tags)
        a = attempt(lambda: C(*fs2))
        if a.ok:
            return violated("construction with fields of lengths %s was accepted" % (lens2,), tags)
        return held(tags, nontrivial)
    c = attempt(lambda: C(*[f.copy() for f in fs]))
    if not c.ok:
        return violated("constructing a %s raised %r" % (desc0, c), tags)
    o = c.value
    msg = aligned(o, tags)
    if msg:
        return violated("%s: %s" % (desc0, msg), tags)
    if case.get("rebind") is not None and op in ("idx", "iter", "concat", "eq", "len", "astype"):
        # a field is re-bound to a new array of the same length after construction (t.score = t.score * 100): from then on every
        # operation acts on the new column
        i_rb = case["rebind"] % k
        fs = list(fs)
        fs[i_rb] = field(kinds[i_rb], i_rb, L, offset=7000)
        setattr(o, names[i_rb], fs[i_rb].copy())
        tags.append("field-rebound")

    def check_obj(res, exp_fields, what):
        if not dataclasses.is_dataclass(res):
            return violated("%s of %s returned %s" % (what, desc0, short(res)), tags)
        got = fields_of(res)
        if len(got) != len(exp_fields) or not all(eqf(g, e) for g, e in zip(got, exp_fields)):
            return violated("%s of %s gives fields %s, expected %s" % (what, desc0, short([np.asarray(g).tolist() for g in got], 220), short([np.asarray(e).tolist() for e in exp_fields], 220)), tags)
        return None

    if op == "len":
        a = attempt(lambda: len(o))
        if not a.ok or a.value != L:
            return violated("len of %s is %s" % (desc0, repr(a) if not a.ok else a.value), tags)
        return held(tags, nontrivial)
    if op == "idx":
        idx = case["idx"]
        ik = case["ikind"]
        tags.append("idx:" + ik)
        real = np.array(idx, dtype=bool) if ik == "mask" else (range(*idx) if ik == "range" else idx)
        sel = np.array(idx, dtype=bool) if ik in ("mask", "boollist") else (np.array(idx, dtype=np.int64) if ik in ("list", "emptylist") else (np.array(list(range(*idx)), dtype=np.int64) if ik == "range" else idx))
        exp = [f[sel] for f in fs]
        a = attempt(lambda: o[real])
        what = "obj[%s] (%s)" % (short(idx, 80), ik)
        if not a.ok:
            return violated("%s of %s raised %r" % (what, desc0, a), tags)
        r = check_obj(a.value, exp, what)
        if r:
            return r
        if ik != "int":
            msg = aligned(a.value, tags)
            if msg:
                return violated("%s of %s: %s" % (what, desc0, msg), tags)
        return held(tags, nontrivial)
    if op == "iter":
        a = attempt(lambda: list(o))
        if not a.ok:
            return violated("iterating a %s raised %r" % (desc0, a), tags)
        if len(a.value) != L:
            return violated("iterating a %s yields %d entries" % (desc0, len(a.value)), tags)
        for i, e in enumerate(a.value):
            r = check_obj(e, [f[i] for f in fs], "entry %d of iter(obj)" % i)
            if r:
                return r
        return held(tags, nontrivial)
    if op == "concat":
        allf = [fs] + [[field(kd, i, L2, offset=5000 * (q + 1)) for i, kd in enumerate(kinds)] for q, L2 in enumerate(case["others"])]
        objs = [o] + [C(*[f.copy() for f in f2]) for f2 in allf[1:]]
        a = attempt(lambda: np.concatenate(objs))
        what = "np.concatenate of objects with lengths %s" % [len(x[0]) for x in allf]
        if not a.ok:
            return violated("%s (%s) raised %r" % (what, desc0, a), tags)
        r = check_obj(a.value, [np.concatenate([x[i] for x in allf]) for i in range(k)], what)
        if r:
            return r
        msg = aligned(a.value, tags)
        if msg:
            return violated("%s: %s" % (what, msg), tags)
        return held(tags, nontrivial)
    if op == "eq":
        mode = case["mode"]
        tags.append("eq:" + mode)
        fs2 = [f.copy() for f in fs]
        if mode == "cell-differs":
            i = case["which"] % k
            fs2[i].reshape(-1)[case["cell"] % fs2[i].size] += 1
        elif mode == "length-differs":
            fs2 = [field(kd, i, L + 1) for i, kd in enumerate(kinds)]
        elif mode == "length-differs-same-size":
            # one table has L scalar entries, the other ONE entry that is the vector of those L numbers: same element count, other length
            i = case["which"] % k
            col = np.arange(L, dtype=np.int64) * 10 + 7
            fs1 = [f[:1].copy() for f in fs]
            fs1[i] = col[None, :]
            fs2 = [f.copy() for f in fs]
            fs2[i] = col
            if k > 1:
                return undefined("needs a single-field table", tags)
            o = C(*fs1)
        elif mode == "shape-differs":
            # same number of entries, but one column has another entry shape that numpy would broadcast:
            # entry i is a different object in the two tables although the cells repeat the same numbers
            i = case["which"] % k
            col = np.arange(L, dtype=np.int64) * 10 + 7
            variant_ = case["variant"]
            if variant_ == "1d-vs-2d" and L > 2000:
                variant_ = "nx1-vs-n"           # (an L x L matrix of a forced large size does not fit in memory)
            if variant_ == "nx1-vs-n":
                mine, theirs = col[:, None], col.copy()                     # (L, 1) against (L,): the same numbers, entries of another shape
            elif variant_ == "1d-vs-2d":
                mine, theirs = col, np.tile(col, (L, 1))                    # (L,) against (L, L) whose rows repeat it
            else:
                mine, theirs = col[:, None], np.repeat(col[:, None], case["width"], axis=1)   # (L, 1) against (L, w) with constant rows
            if case.get("swap"):
                mine, theirs = theirs, mine
            fs1 = [f.copy() for f in fs]
            fs1[i], fs2[i] = mine, theirs
            o = C(*fs1)
        o2 = C(*fs2)
        want = mode == "same"
        if mode == "selections" and L >= 1:
            # both tables are selections of ONE parent table: they begin at the same row and have as many rows, but walk the parent with another
            # step (or the same one): equal exactly if the selected rows are equal
            pf = [field(kd, i, 2 * L + 2) for i, kd in enumerate(kinds)]
            if case["which"] % 2:
                for f_ in pf:
                    f_[...] = f_[:1]          # a parent whose rows are all alike: every selection of L rows equals every other
            P = C(*pf)
            st_ = 1 if case["cell"] % 3 == 0 else 2
            o, o2 = P[0:L], P[0:st_ * L:st_]
            want = all(np.array_equal(f_[0:L], f_[0:st_ * L:st_]) for f_ in pf)
            tags.append("eq:selections-step%d" % st_)
        a = attempt(lambda: o == o2)
        if not a.ok or bool(a.value) != want:
            return violated("%s == (copy with %s) gives %s, expected %s" % (desc0, mode, repr(a) if not a.ok else a.value, want), tags)
        return held(tags, nontrivial)
    if op == "astype":
        order = case["order"]
        tags.append("astype:reordered" if order != sorted(order) else "astype:same-order")
        C2 = get_cls(["f%d" % i for i in order])
        a = attempt(lambda: o.astype(C2))
        what = "astype(class with fields %s)" % ["f%d" % i for i in order]
        if not a.ok:
            return violated("%s of %s raised %r" % (what, desc0, a), tags)
        res = a.value
        # entry i of the result consists of the i-th entry of every *named* field
        for i_f in order:
            g = getattr(res, "f%d" % i_f, None)
            if g is None or not eqf(g, fs[i_f]):
                return violated("%s of %s: field f%d holds %s, expected %s" % (what, desc0, i_f, short(g, 120), short(fs[i_f], 120)), tags)
        msg = aligned(res, tags)
        if msg:
            return violated("%s: %s" % (what, msg), tags)
        return held(tags, nontrivial)
    raise ValueError(op)


# ----------------------------------------------------------------------------- workloads

def gen_case(rng, tier, op=None, k=None, L=None):
    op = op or rng.choice(OPS)
    if op == "vla":
        m = rng.randint(1, 4)
        widths = [rng.randint(1, 4) for _ in range(m)]
        big = rng.random() < 0.2
        arrays = [[[rng.choice([2 ** 53 + 1, 2 ** 63 - 1, 2 ** 62 + 3, 5]) if big else rng.randint(1, 9) for _ in range(w)] for _ in range(rng.randint(0, 3))] for w in widths]
        return {"op": op, "widths": widths, "arrays": arrays, "order": rng.choice(["C", "C", "F", "T"])}
    if op == "inherit":
        return {"op": op, "nbase": rng.randint(1, 2), "nextra": rng.randint(1, 2), "L": rng.randint(0, 5) if L is None else L, "sub": rng.choice(["badlen", "eq", "idx", "concat", "iter"])}
    k = k or rng.randint(1, 4)
    L = rng.randint(0, 7) if L is None else L
    kinds = [rng.choice(["1d", "2d", "f", "2dF"]) for _ in range(k)]
    c = {"op": op, "kinds": kinds, "L": L}
    if rng.random() < 0.12:
        c["rebind"] = rng.randrange(8)
    if op == "badlen":
        if k < 2:
            c["kinds"] = kinds = kinds + ["1d"]
        c.update(which=rng.randrange(len(kinds)), delta=rng.choice([1, 2, -1]) if L > 0 else rng.choice([1, 2]))
        if rng.random() < 0.4:
            while len(c["kinds"]) < 3:
                c["kinds"] = kinds = c["kinds"] + [rng.choice(["1d", "f"])]
            others = [j for j in range(len(kinds)) if j != c["which"]]
            j_ = rng.choice(others)
            c["more"] = [[j_, -c["delta"]]] if rng.random() < 0.6 else [[j_, c["delta"]]] + ([[o_, -c["delta"]] for o_ in others if o_ != j_][:1])
    elif op == "idx":
        ik = rng.choice(["int", "slice", "list", "mask", "boollist", "emptylist", "range"])
        if ik == "int" and L == 0:
            ik = "slice"
        c["ikind"] = ik
        if ik == "int":
            c["idx"] = rng.randint(-L, L - 1)
        elif ik == "range":
            # a python range as the selector (numpy treats it like the list of its members; negative members count from the end)
            if L == 0:
                c["ikind"], c["idx"] = "emptylist", []
            else:
                a_ = rng.randint(-L, L - 1)
                st_ = rng.choice([1, 1, 2, -1])
                b_ = rng.randint(a_, L) if st_ > 0 else rng.randint(-L - 1, a_)
                c["idx"] = [a_, b_, st_]
        elif ik == "slice":
            c["idx"] = gen.gen_slice(rng, L, far=True)
        elif ik == "list":
            c["idx"] = [rng.randint(-L, L - 1) for _ in range(rng.randint(1, 5))] if L else []
            if not c["idx"]:
                c["ikind"] = "emptylist"
        elif ik == "emptylist":
            c["idx"] = []
        else:
            c["idx"] = [rng.random() < 0.5 for _ in range(L)]
            if ik == "boollist" and L == 0:
                c["ikind"], c["idx"] = "emptylist", []
    elif op == "concat":
        c["others"] = [rng.randint(0, 4) for _ in range(rng.randint(0, 3))]
    elif op == "eq":
        c["mode"] = rng.choice(["same", "cell-differs", "length-differs", "shape-differs", "selections", "length-differs-same-size" if k == 1 and L > 1 else "shape-differs"]) if L > 0 else rng.choice(["same", "length-differs"])
        c.update(which=rng.randrange(k), cell=rng.randrange(100))
        if c["mode"] == "shape-differs":
            c.update(variant=rng.choice(["1d-vs-2d", "narrow-vs-wide", "nx1-vs-n"]), width=rng.randint(2, 4), swap=rng.random() < 0.5)
            if c["variant"] == "1d-vs-2d" and L == 1:
                c["variant"] = "narrow-vs-wide"
    elif op == "astype":
        m = rng.randint(1, k)
        c["order"] = rng.sample(range(k), m)
    return c


def directed():
    import random
    rng = random.Random(1818)
    for k in (1, 2, 3, 4):
        for L in (0, 1, 2, 5):
            for op in OPS[:-1]:
                for _ in range(3):
                    yield gen_case(rng, "quick", op, k, L)
    for _ in range(10):
        yield gen_case(rng, "quick", "vla")
    # very long tables: one field longer / shorter by a single entry must still be refused
    for L_ in (100000, 250000):
        for d_ in (1, -1, 2):
            for w_ in (0, 1):
                yield {"op": "badlen", "kinds": ["1d", "1d"], "L": L_, "which": w_, "delta": d_}
                if L_ >= abs(d_):
                    # three and four fields whose lengths differ although their sum / mean / extremes look regular: (L+d, L-d, L), (L-d, L+d, L, L), (L+d, L+d, L-d ...)
                    yield {"op": "badlen", "kinds": ["1d", "1d", "f"], "L": L_, "which": w_ % 3, "delta": d_, "more": [[(w_ + 1) % 3, -d_]]}
                    yield {"op": "badlen", "kinds": ["1d", "f", "1d", "1d"], "L": L_, "which": 1, "delta": d_, "more": [[3, -d_]]}
                    yield {"op": "badlen", "kinds": ["1d", "1d", "1d"], "L": L_, "which": 0, "delta": -d_, "more": [[2, d_]]}
    for r_ in ([-2, 0, 1], [-1, 2, 1], [-5, 0, 1], [0, 3, 1], [4, -1, -1], [-1, -6, -1], [-3, 2, 2]):
        yield {"op": "idx", "kinds": ["1d", "2d"], "L": 5, "ikind": "range", "idx": r_}
    yield {"op": "astype", "kinds": ["1d", "f", "2d"], "L": 4, "order": [2, 0]}
    yield {"op": "astype", "kinds": ["1d", "1d"], "L": 3, "order": [1, 0]}
    yield {"op": "astype", "kinds": ["1d", "1d", "1d"], "L": 3, "order": [0, 2]}
    yield {"op": "idx", "kinds": ["1d", "f"], "L": 3, "ikind": "boollist", "idx": [True, False, True]}
    yield {"op": "idx", "kinds": ["1d", "2d"], "L": 4, "ikind": "boollist", "idx": [False, True, True, False]}
    yield {"op": "idx", "kinds": ["1d"], "L": 3, "ikind": "mask", "idx": [True, False, True]}
    yield {"op": "vla", "widths": [2, 4, 1], "arrays": [[[1, 2]], [[3, 4, 5, 6], [7, 8, 9, 1]], [[2], [3]]]}
    yield {"op": "vla", "widths": [3, 3], "arrays": [[[1, 2, 3]], [[4, 5, 6]]]}
    yield {"op": "vla", "widths": [1, 3], "arrays": [[[2 ** 53 + 1], [2 ** 63 - 1]], [[4, 5, 2 ** 62 + 3]]]}
    for order in ("F", "T"):
        yield {"op": "vla", "widths": [2, 4, 3], "arrays": [[[1, 2], [3, 4], [5, 6]], [[3, 4, 5, 6], [7, 8, 9, 1]], [[2, 3, 4], [5, 6, 7]]], "order": order}


def const_case(rng, tier, s, form):
    """a number taken from the library source (+-1) as the length of the table"""
    if form not in ("rows", "cells", "nonempty") or s > 300000:
        return None
    ops = [o for o in OPS if o not in ("vla",)]
    if s > 5000:
        ops = [o for o in ops if o not in ("iter", "inherit")] or ops
    return gen_case(rng, tier, op=rng.choice(ops), L=s)


def random_case(rng, tier):
    return gen_case(rng, tier)
