"""C11 -- HashTable is a dictionary over a fixed set of integer keys.

Decided on histories: construction + a sequence of operations, checked step by step against a
dict.  Every assigned value is a unique number, so a lookup identifies the assignment it
observed.  After *every* step the whole table is read back (vector lookup of all keys) and a
fixed universe of keys and non-keys is probed with contains(): the key set never changes
and only the addressed keys' values change."""
import numpy as np
from ..core import CTX, attempt, held, violated, undefined, same_array, short
from .. import gen, contracts

PROP = "C11"
LEVEL_TEXT = 'Histories (construction + 1..40 operations, derived tables take part) checked step by step against a dict; after every step all keys are read back and a fixed universe of keys/non-keys is probed; caller arrays are checked for write-through and overwritten. Exploration over histories.'
LEVEL_NOTE = "trusts numpy 2.x, CPython (copy.copy, slice semantics, big ints) and the reference model in rtmon/props/c11.py; decides the executions it produces, nothing more"
TECHNIQUE = 'runtime monitoring: history checking against a sequential dict model with unique assigned values; key-set / read-back tap after every step'
DESIGN_REF = "DESIGN.md sections 0, 5 (C11), 7"
RULE = ("case = history: (unique keys, key dtype, modulus, initial values: per-key array | scalar, value dtype, list of operations with explicit arguments); "
        "model = dict; distinct = hash of the history; non-trivial = >= 2 keys and >= 2 operations")
ASSUMPTIONS = ["the modulus is representable in the key dtype", "a single-key lookup of an absent key is unspecified", "query arrays are typed (same or wider integer dtype)",
               "no repeated keys inside one assignment", "+ and == between tables built from the same key array and modulus"]
ANCHORS = ["hashtable.py::HashTable.__init__", "hashtable.py::HashTable._build_ragged_array", "hashtable.py::HashTable._get_mod", "hashtable.py::HashTable._get_hash",
           "hashtable.py::HashTable._get_indices", "hashtable.py::HashTable.contains", "hashtable.py::HashSet.contains", "hashtable.py::HashTable._fill_values",
           "hashtable.py::HashTable.__setitem__", "hashtable.py::HashTable.__getitem__", "hashtable.py::HashTable.fill", "hashtable.py::HashTable.__add__",
           "hashtable.py::HashTable.__eq__", "hashtable.py::HashTable.items", "hashtable.py::HashTable.to_dict", "hashtable.py::zeros_like", "hashtable.py::ones_like"]
OPS = ["get1", "getv", "getmiss", "set1", "setv", "setvv", "fill", "contains", "hs_contains1", "hs_containsv", "zeros_like", "ones_like", "add", "eq", "items", "to_dict", "getwide", "getreuse", "deepcopy", "pickle", "format"]
FLOOR_TAGS = ["op:" + o for o in OPS] + ["init:scalar", "init:array", "mod:None", "mod:1", "mod:explicit", "keys:neg", "keys:big", "keys:dense", "keys:small",
                                         "kd:int8", "kd:uint64", "kd:list", "kd:int64", "state:scalar-at-first-write", "derived-table-used", "values:infinite", "class:Counter", "query:list", "query:other-sign", "query:narrow"]
FLOOR_MONITORS = ["c11:eq-other-keys", "c11:step", "c11:readback", "c11:keyset", "c11:must-refuse", "c11:caller-arrays"]
FP_STRICT = True       # a floating-point event inside the library that the dense computation does not have is a violation (shard.FpMonitor)
N_RANDOM = {"quick": 4000, "thorough": 100000}
KD = ["int8", "int16", "int32", "int64", "uint8", "uint16", "uint32", "uint64", None]


def setup(lib):
    contracts.attach(lib, which=("hashtable", "ragged"))


def karr(keys, kd):
    return np.array(keys, dtype=kd) if kd else list(keys)


def qarr(q, kd):
    """typed query array"""
    return np.array(q, dtype=kd if kd else np.int64)


def carry(q, kd, op, default=None):
    """the keys of a question in the container / integer type the caller happens to have: a python list or tuple, the other signedness of the key
    type, the narrowest type that holds them, 64-bit integers -- the answer is a matter of the key VALUES"""
    c = op.get("qcarrier")
    base = default if default is not None else (kd if kd else np.int64)
    if not c or not len(q):
        return np.array(q, dtype=base)
    if c in ("list", "tuple"):
        if np.asarray(list(q)).dtype.kind not in "iu":
            return np.array(q, dtype=base)      # (numpy itself reads such a list as doubles or objects: numbers below and above 2**63 side by side)
        return list(q) if c == "list" else tuple(q)
    if c == "other-sign":
        k_ = np.dtype(base)
        dt = np.dtype(("u" if k_.kind == "i" else "i") + str(k_.itemsize)) if k_.kind in "iu" else k_
    elif c == "narrow":
        dt = next((np.dtype(d) for d in ("int8", "uint8", "int16", "uint16", "int32", "uint32", "int64", "uint64") if np.iinfo(d).min <= min(q) and max(q) <= np.iinfo(d).max), np.dtype(base))
    else:
        dt = np.dtype(c)
    if dt.kind in "iu" and np.iinfo(dt).min <= min(q) and max(q) <= np.iinfo(dt).max:
        return np.array(q, dtype=dt)
    return np.array(q, dtype=base)


def eqval(a, b):
    return float(a) == float(b)


def run(case):
    lib = CTX.lib
    keys, kd, mod = case["keys"], case["kdtype"], case["mod"]
    vdt = np.dtype(case["vdtype"])
    init = case["init"]
    scalar_init = not isinstance(init, list)
    style = case.get("style", "small")
    tags = (["values:infinite"] if (not scalar_init and any(isinstance(v, float) and v in (float("inf"), float("-inf")) for v in init)) else []) + ["init:" + ("scalar" if scalar_init else "array"), "mod:" + ("None" if mod is None else ("1" if mod == 1 else "explicit")), "keys:" + style, "kd:" + (kd or "list")]
    kw = {} if mod is None else {"mod": mod}
    kin = karr(keys, kd)
    vin = init if scalar_init else np.array(init, dtype=vdt)
    TABLE = lib.Counter if (case.get("cls") == "Counter" and (scalar_init is False or isinstance(init, int))) else lib.HashTable
    if TABLE is lib.Counter:
        tags.append("class:Counter")       # a Counter is a HashTable: everything the statement says about tables holds for it as well
    c = attempt(lambda: TABLE(kin, vin, **kw))
    desc0 = "HashTable(keys=%s %s, values=%s, mod=%s)" % (kd, short(keys, 120), short(init, 80), mod)
    if not c.ok:
        return violated("%s raised %r" % (desc0, c), tags)
    t = c.value
    hs = attempt(lambda: lib.HashSet(karr(keys, kd), **kw))
    model = {k: (init if scalar_init else init[i]) for i, k in enumerate(keys)}
    universe = list(keys) + list(case["nonkeys"])
    member = [k in model for k in universe]
    allq = qarr(keys, kd)
    uq = qarr(universe, kd)
    tables = {"t": (t, model)}     # derived tables join the history
    # an unrelated table (other keys, other modulus, other key dtype) lives alongside: tables must not share state
    okeys = [11, 4, 97, 60]
    other = lib.HashTable(np.array(okeys, dtype=np.int16), np.array([1.5, 2.5, 3.5, 4.5]), mod=5)
    written = False
    nontrivial = len(keys) >= 2 and len(case["ops"]) >= 2

    def readback(name, step):
        tb, md = tables[name]
        CTX.tick("c11:readback")
        a = attempt(lambda: np.asarray(tb[allq]).tolist())
        e = [md[k] for k in keys]
        if not a.ok or len(a.value) != len(e) or not all(eqval(x, y) for x, y in zip(a.value, e)):
            return "after step %s, table '%s' reads %s for all keys %s, the dictionary says %s" % (step, name, repr(a) if not a.ok else short(a.value, 160), short(keys, 100), short(e, 160))
        o2 = attempt(lambda: (np.asarray(other[np.array(okeys, dtype=np.int16)]).tolist(), np.asarray(other.contains(np.array([11, 12, 60], dtype=np.int16))).tolist()))
        if not o2.ok or o2.value != ([1.5, 2.5, 3.5, 4.5], [True, False, True]):
            return "after step %s an unrelated table reads %s" % (step, repr(o2) if not o2.ok else o2.value)
        CTX.tick("c11:keyset")
        a = attempt(lambda: np.asarray(tb.contains(uq)).tolist())
        if not a.ok or a.value != member:
            return "after step %s, contains() over the fixed universe %s gives %s, expected %s" % (step, short(universe, 120), repr(a) if not a.ok else a.value, member)
        return None

    msg = readback("t", "construction")
    if msg:
        return violated("%s: %s" % (desc0, msg), tags)
    for si, op in enumerate(case["ops"]):
        name = op["op"]
        tname = op.get("table", "t")
        if tname not in tables:
            tname = "t"
        if tname != "t":
            tags.append("derived-table-used")
        tb, md = tables[tname]
        step = "%d (%s on '%s')" % (si, name, tname)
        tags.append("op:" + name)
        CTX.tick("c11:step")
        bad = None
        if name == "get1":
            k = op["key"]
            kk = k if kd is None else np.dtype(kd).type(k).item() if op.get("py") else (np.dtype(kd).type(k) if kd else k)
            a = attempt(lambda: np.asarray(tb[kk]).ravel().tolist())
            if not a.ok or len(a.value) != 1 or not eqval(a.value[0], md[k]):
                bad = "table[%r] gives %s, the dictionary says %s" % (k, repr(a) if not a.ok else a.value, md[k])
        elif name in ("getv", "getwide"):
            q = op["keys"]
            qa = carry(q, kd, op) if name == "getv" else np.array(q, dtype=op["qdtype"])
            if op.get("qcarrier"):
                tags.append("query:" + (op["qcarrier"] if op["qcarrier"] in ("list", "tuple", "other-sign", "narrow") else "typed"))
            a = attempt(lambda: np.asarray(tb[qa]))
            e = [md[k] for k in q]
            if not a.ok or a.value.shape != (len(q),) or not all(eqval(x, y) for x, y in zip(a.value.tolist(), e)):
                bad = "table[%s %s] gives %s, the dictionary says %s" % (getattr(qa, "dtype", type(qa).__name__), short(q, 100), repr(a) if not a.ok else short(a.value, 120), short(e, 120))
        elif name == "getreuse":
            # one query array object, looked up, refilled in place by the caller, looked up again (and once more with an absent key)
            q1, q2 = op["keys"], op["keys2"]
            qa = qarr(q1, kd)
            a1 = attempt(lambda: np.asarray(tb[qa]).tolist())
            qa[...] = qarr(q2, kd)
            a2 = attempt(lambda: np.asarray(tb[qa]).tolist())
            e1, e2 = [md[k] for k in q1], [md[k] for k in q2]
            if not a1.ok or not all(eqval(x, y) for x, y in zip(a1.value, e1)) or len(a1.value) != len(e1):
                bad = "table[%s] gives %s, the dictionary says %s" % (short(q1, 80), repr(a1) if not a1.ok else a1.value, e1)
            elif not a2.ok or len(a2.value) != len(e2) or not all(eqval(x, y) for x, y in zip(a2.value, e2)):
                bad = "the query array %s was refilled in place with %s and looked up again: got %s, the dictionary says %s" % (short(q1, 80), short(q2, 80), repr(a2) if not a2.ok else a2.value, e2)
            elif op.get("miss") is not None:
                qa[0] = np.asarray(op["miss"]).astype(qa.dtype)
                CTX.tick("c11:must-refuse")
                a3 = attempt(lambda: tb[qa])
                if a3.ok:
                    bad = "after the caller put the absent key %s into the same query array, the lookup was answered: %s" % (op["miss"], short(a3.value, 80))
        elif name == "getmiss":
            q = op["keys"]
            qa = carry(q, kd, op, op.get("qdtype"))
            CTX.tick("c11:must-refuse")
            a = attempt(lambda: tb[qa])
            if a.ok:
                bad = "a vector lookup containing the absent key(s) %s was answered: table[%s %s] -> %s" % ([k for k in q if k not in md], getattr(qa, "dtype", type(qa).__name__), short(q, 100), short(a.value, 100))
        elif name in ("set1", "setv", "setvv"):
            q, vals = op["keys"], op["vals"]
            if not written and scalar_init and tname == "t":
                tags.append("state:scalar-at-first-write")
            if name == "set1":
                idx, v = (q[0] if kd is None else np.dtype(kd).type(q[0])), vals[0]
            elif name == "setv":
                idx, v = qarr(q, kd), vals[0]
            else:
                idx, v = qarr(q, kd), np.array(vals, dtype=vdt)
            a = attempt(lambda: tb.__setitem__(idx, v))
            if not a.ok:
                bad = "table[%s] = %s raised %r" % (short(q, 100), short(vals, 100), a)
            else:
                for k_, v_ in zip(q, vals if name == "setvv" else [vals[0]] * len(q)):
                    md[k_] = v_
                if tname == "t":
                    written = True
        elif name == "fill":
            a = attempt(lambda: tb.fill(op["val"]))
            if not a.ok:
                bad = "fill(%s) raised %r" % (op["val"], a)
            else:
                for k_ in md:
                    md[k_] = int(op["val"]) if op.get("trunc") else op["val"]        # (trunc: a table holding integers per key takes the whole part, as a numpy integer array does)
        elif name == "contains":
            q = op["keys"]
            qa = carry(q, kd, op, op.get("qdtype"))
            if op.get("qcarrier"):
                tags.append("query:" + (op["qcarrier"] if op["qcarrier"] in ("list", "tuple", "other-sign", "narrow") else "typed"))
            a = attempt(lambda: np.asarray(tb.contains(qa)).tolist())
            e = [k in md for k in q]
            if not a.ok or a.value != e:
                bad = "contains(%s %s) gives %s, expected %s" % (getattr(qa, "dtype", type(qa).__name__), short(q, 100), repr(a) if not a.ok else a.value, e)
        elif name in ("hs_contains1", "hs_containsv"):
            if not hs.ok:
                bad = "HashSet construction raised %r" % hs
            elif name == "hs_contains1":
                k = op["key"]
                kk = k if kd is None else np.dtype(kd).type(k)
                a = attempt(lambda: bool(hs.value.contains(kk)))
                if not a.ok or a.value != (k in model):
                    bad = "HashSet.contains(%r) gives %s, expected %s" % (k, repr(a) if not a.ok else a.value, k in model)
            else:
                q = op["keys"]
                qa = carry(q, kd, op, op.get("qdtype"))
                a = attempt(lambda: np.asarray(hs.value.contains(qa)).tolist())
                e = [k in model for k in q]
                if not a.ok or a.value != e:
                    bad = "HashSet.contains(%s %s) gives %s, expected %s" % (getattr(qa, "dtype", type(qa).__name__), short(q, 100), repr(a) if not a.ok else a.value, e)
        elif name in ("zeros_like", "ones_like"):
            f = np.zeros_like if name == "zeros_like" else np.ones_like
            a = attempt(f, tb)
            if not a.ok:
                bad = "np.%s(table) raised %r" % (name, a)
            else:
                new = "d%d" % len(tables)
                tables[new] = (a.value, {k: (0 if name == "zeros_like" else 1) for k in keys})
                bad = readback(new, step)
        elif name == "format":
            # printing a table (and its set of keys) is a read: everything is read back afterwards as after any other step
            a = attempt(lambda: (repr(tb), str(tb), "%s" % (tb,), repr(hs.value) if hs.ok else None))
            if not a.ok:
                bad = "formatting the table raised %r" % a
        elif name in ("deepcopy", "pickle"):
            # an independent copy: it answers like the original now, and joins the history (later writes to either must not reach the other)
            import copy
            import pickle
            a = attempt((lambda: copy.deepcopy(tb)) if name == "deepcopy" else (lambda: pickle.loads(pickle.dumps(tb))))
            if not a.ok:
                bad = "%s of the table raised %r" % (name, a)
            else:
                new = "d%d" % len(tables)
                tables[new] = (a.value, dict(md))
                bad = readback(new, step)
        elif name == "add":
            other_vals = op["vals"]
            if op.get("scalar_other") is not None:
                # both operands may be in the hidden scalar state; the constant may be of another type than the left operand's values
                other_vals = [op["scalar_other"]] * len(keys)
                t2 = (TABLE if (TABLE is lib.HashTable or np.asarray(op["scalar_other"]).dtype.kind in "iu") else lib.HashTable)(karr(keys, kd), op["scalar_other"], **kw)
                tags.append("add:scalar-valued-operand")
            else:
                t2 = (TABLE if (TABLE is lib.HashTable or np.asarray(other_vals).dtype.kind in "iu") else lib.HashTable)(karr(keys, kd), np.array(other_vals, dtype=vdt), **kw)
            kd2_ = op.get("other_kd")
            if kd2_ and kd is not None and case.get("mod") is not None and op.get("scalar_other") is None and not op.get("other_order") and all(np.iinfo(kd2_).min <= k_ <= np.iinfo(kd2_).max for k_ in keys):
                # the second table holds the SAME keys in the same order in another integer type (built from a list, read from a file with another width)
                t2 = lib.HashTable(karr(keys, kd2_), np.array(other_vals, dtype=vdt), **kw)
                tags.append("add:other-key-type")
                a = attempt(lambda: tb + t2)
                if not a.ok and len({k_ % int(case["mod"]) for k_ in keys}) < len(keys):
                    ops_declined = True      # (keys that share a bucket may sit in another order there, depending on the type they were sorted in: declining is not a wrong sum)
                    continue
            elif op.get("other_order") and len(keys) >= 2 and op.get("scalar_other") is None:
                # the second table is built on its own over the SAME key set given in another order (keys that share a bucket then sit in another order
                # inside it): the sum, if the library forms it at all, is the per-key sum
                perm_ = sorted(range(len(keys)), key=lambda i_: (i_ * 7 + len(keys) // 2) % len(keys)) if op["other_order"] == "mixed" else list(range(len(keys)))[::-1]
                t2 = lib.HashTable(karr([keys[i_] for i_ in perm_], kd), np.array([other_vals[i_] for i_ in perm_], dtype=vdt), **kw)
                tags.append("add:other-key-order")
                a = attempt(lambda: tb + t2)
                if not a.ok:
                    ops_declined = True      # (the current tree declines tables whose key layouts differ; declining is not a wrong sum)
                    continue
            elif op.get("zero_other") and op.get("scalar_other") is None:
                # the other term is the all-zero table made from this one (np.zeros_like), on either side: the sum is a table of its own
                other_vals = [0] * len(keys)
                z_ = attempt(np.zeros_like, tb)
                if not z_.ok:
                    bad = "np.zeros_like(table) raised %r" % z_
                    a = None
                else:
                    t2 = z_.value
                    tags.append("add:zero-table")
                    a = attempt(lambda: (tb + t2) if op["zero_other"] == "R" else (t2 + tb))
            else:
                a = attempt(lambda: tb + t2)
            if a is None:
                pass
            elif not a.ok:
                bad = "table + table2 raised %r" % a
            else:
                new = "d%d" % len(tables)
                tables[new] = (a.value, {k: md[k] + other_vals[i] for i, k in enumerate(keys)})
                bad = readback(new, step)
                if not bad:
                    a2 = attempt(lambda: np.asarray(t2[allq]).tolist())
                    if not a2.ok or not all(eqval(x, y) for x, y in zip(a2.value, other_vals)):
                        bad = "table + table2 modified table2"
                if not bad and op.get("zero_other") and keys:
                    # ... and a write to the sum must not reach the term it was formed from (nor the other way round, checked by later steps)
                    k0_ = keys[len(keys) // 2]
                    newv_ = (md[k0_] if np.isfinite(md[k0_]) else 0) + 1000
                    w_ = attempt(lambda: a.value.__setitem__(k0_ if kd is None else np.dtype(kd).type(k0_), newv_))
                    if w_.ok:
                        tables[new][1][k0_] = newv_
                        bad = readback(new, step) or readback(tname, step)
                        if bad:
                            bad = "after a write to the sum table + zeros_like(table): " + bad
        elif name == "eq":
            vals2 = [md[k] for k in keys]
            if op["differ"] is not None:
                i_ = op["differ"] % len(keys)
                vals2[i_] = vals2[i_] + 1 if np.isfinite(vals2[i_]) else 0
            vdt_ = vdt if all(float(v_) == int(v_) for v_ in vals2 if np.isfinite(v_)) and all(np.isfinite(v_) for v_ in vals2) else np.dtype("float64")
            t2 = (TABLE if (TABLE is lib.HashTable or np.asarray(vals2).dtype.kind in "iu") else lib.HashTable)(karr(keys, kd), np.array(vals2, dtype=vdt_), **kw)
            a = attempt(lambda: bool(tb == t2))
            want = op["differ"] is None
            if not a.ok or a.value != want:
                bad = "table == (table with %s) gives %s" % ("the same values" if want else "one value changed", repr(a) if not a.ok else a.value)
            vs_ = list(md.values())
            if not bad and len(keys) >= 1 and all(eqval(v_, vs_[0]) for v_ in vs_) and np.isfinite(vs_[0]):
                # every key holds the same value: a table that stores it once (built from the scalar) and a table that stores it per key are the same
                # dictionary -- compared in either order, with each other and with the table under test
                CTX.tick("c11:eq-mixed-states")
                c_ = vs_[0]
                once_ = attempt(lambda: lib.HashTable(karr(keys, kd), c_ if float(c_) != int(c_) else (int(c_) if vdt.kind in "iu" else float(c_)), **kw))
                each_ = attempt(lambda: lib.HashTable(karr(keys, kd), np.full(len(keys), c_, dtype=vdt_), **kw))
                if once_.ok and each_.ok:
                    for nm_, l_, r_ in (("table == stored-once", tb, once_.value), ("stored-once == table", once_.value, tb), ("table == stored-per-key", tb, each_.value), ("stored-per-key == table", each_.value, tb),
                                        ("stored-per-key == stored-once", each_.value, once_.value), ("stored-once == stored-per-key", once_.value, each_.value)):
                        a = attempt(lambda: bool(l_ == r_))
                        if not a.ok or a.value is not True:
                            bad = "every key holds %r, but (%s) gives %s" % (c_, nm_, repr(a) if not a.ok else a.value)
                            break
            if not bad and mod is not None and kd != "uint64":
                # a table over ANOTHER key set with the same bucket layout (one key moved by the modulus): never equal, whatever the values' state
                k0 = keys[0]
                moved = k0 + mod if (k0 + mod) not in md and (kd is None or k0 + mod <= np.iinfo(kd).max) else None
                if moved is not None:
                    okeys_ = [moved] + list(keys[1:])
                    CTX.tick("c11:eq-other-keys")
                    for form in ("array", "scalar"):
                        if form == "array":
                            l_, r_ = tb, lib.HashTable(karr(okeys_, kd), np.array([md[k] for k in keys], dtype=vdt_), **kw)
                        else:
                            l_, r_ = np.zeros_like(tb), np.zeros_like(lib.HashTable(karr(okeys_, kd), np.array([md[k] for k in keys], dtype=vdt_), **kw))
                        a = attempt(lambda: bool(l_ == r_))
                        if a.ok and a.value:
                            bad = "a table over keys %s compares equal to a table over keys %s (%s-valued, same values)" % (short(keys, 80), short(okeys_, 80), form)
                            break
        elif name in ("items", "to_dict"):
            a = attempt(lambda: {int(k): v for k, v in (tb.to_dict().items() if name == "to_dict" else tb.items())})
            if not a.ok or set(a.value) != set(md) or not all(eqval(a.value[k], md[k]) for k in md):
                bad = "%s() gives %s, the dictionary says %s" % (name, repr(a) if not a.ok else short(a.value, 160), short(md, 160))
        else:
            raise ValueError(name)
        if not bad:
            for nm in list(tables):
                bad = readback(nm, step)
                if bad:
                    break
        if bad:
            return violated("%s, history %s: %s" % (desc0, short([o_["op"] for o_ in case["ops"][:si + 1]], 200), bad), tags + ["failed-op:" + name])
    # the table owns its storage: it never wrote through to the caller's arrays, and the caller changing them afterwards changes nothing
    CTX.tick("c11:caller-arrays")
    if isinstance(kin, np.ndarray) and kin.tolist() != list(keys):
        return violated("%s: the caller's key array was modified by the table: %s" % (desc0, short(kin, 120)), tags + ["caller-array-written"])
    if isinstance(vin, np.ndarray) and not all(eqval(x, y) for x, y in zip(vin.tolist(), init)):
        return violated("%s, history %s: the caller's value array was modified through the table: %s (was %s)" % (desc0, short([o_["op"] for o_ in case["ops"]], 160), short(vin, 120), short(init, 120)),
                        tags + ["caller-array-written"])
    if isinstance(kin, np.ndarray) and len(kin):
        kin[...] = kin[::-1].copy() if len(kin) > 1 else kin + np.array(1, dtype=kin.dtype)
    if isinstance(vin, np.ndarray) and len(vin):
        vin += np.array(77, dtype=vin.dtype)
    for nm in list(tables):
        bad = readback(nm, "the caller overwrote the arrays passed to the constructor")
        if bad:
            return violated("%s: %s" % (desc0, bad), tags + ["aliases-caller-array"])
    return held(tags, nontrivial)


# ----------------------------------------------------------------------------- workloads

_FORCE = {}      # set by const_case: {"nk": number of keys} or {"around": key values around multiples of this number}


def gen_keys(rng, kd=None, style=None, nk=None, tier="quick"):
    kd = kd if kd != "pick" else rng.choice(KD)
    if _FORCE.get("nk") or _FORCE.get("around"):
        # sizes / key values taken from the numeric constants of the library source (rtmon/codeconst.py)
        if _FORCE.get("nk"):
            nk = _FORCE["nk"]
            if kd is not None and np.iinfo(kd).max < 4 * nk + 70:
                kd = rng.choice([None, "int64", "uint64", "int32"])
            lo, hi = (-2 ** 62, 2 ** 62) if kd is None else (int(np.iinfo(kd).min), int(np.iinfo(kd).max))
            lo2 = rng.choice([0, 0, max(lo, -nk)])
            hi2 = lo2 + rng.choice([nk + 2, 2 * nk, 4 * nk + 60])
            keys = rng.sample(range(lo2, hi2 + 1), nk)
        else:
            a = _FORCE["around"]
            if kd is not None and np.iinfo(kd).max < 3 * a + 2:
                kd = rng.choice([None, "int64", "uint64"])
            lo, hi = (-2 ** 62, 2 ** 62) if kd is None else (int(np.iinfo(kd).min), int(np.iinfo(kd).max))
            pool = [m * a + d for m in (1, 2, 3) for d in (-1, 0, 1)] + [0, 1, a // 2, a + 7]
            if lo < 0:
                pool += [-a, -a - 1, -a + 1]
            pool = sorted(set(x for x in pool if lo <= x <= hi))
            keys = rng.sample(pool, rng.randint(2, len(pool)))
            lo2, hi2 = min(keys), max(keys)
        if rng.random() < 0.3:
            keys.sort()
        return keys, kd, "codeconst", (lo, hi), (lo2, hi2)
    nk = nk or rng.randint(1, 10 if tier == "quick" else 64)
    if kd in ("int8", "uint8"):
        nk = min(nk, 64)
    style = style or rng.choice(["small", "neg", "big", "dense"])
    if kd is None:
        lo, hi = -2 ** 62, 2 ** 62
    else:
        ii = np.iinfo(kd)
        lo, hi = int(ii.min), int(ii.max)
    if style == "small":
        lo2, hi2 = max(lo, 0), min(hi, 60)
    elif style == "neg":
        lo2, hi2 = max(lo, -60), min(hi, 60)
    elif style == "big":
        lo2, hi2 = max(lo, -2 ** 62), min(hi, 2 ** 62) if kd != "uint64" else 2 ** 64 - 1
    else:
        lo2, hi2 = max(lo, 0), min(hi, nk + 2)
    pool = set()
    tries = 0
    while len(pool) < nk and tries < 400:
        pool.add(rng.randint(lo2, hi2))
        tries += 1
    keys = list(pool)
    rng.shuffle(keys)
    if rng.random() < 0.3:
        keys.sort()        # already in bucket order: no reordering needed by the constructor
    return keys, kd, style, (lo, hi), (lo2, hi2)


def gen_history(rng, tier, kd="pick", style=None, mod="pick", scalar_init=None, nops=None):
    keys, kd, style, (lo, hi), (lo2, hi2) = gen_keys(rng, kd, style, tier=tier)
    n = len(keys)
    if mod == "pick":
        mod = rng.choice([None, None, 1, 2, 3, 7, n, 17, 101, max(abs(k) for k in keys) + 1])
    if mod is not None and (mod > hi or mod < 1 or mod > 5000):
        mod = None     # the table allocates one bucket per residue: keep the modulus small (and representable in the key dtype)
    vdtype = rng.choice(["int64", "float64", "int32"])
    scalar_init = rng.random() < 0.4 if scalar_init is None else scalar_init
    init = rng.choice([5, 0, 7, 2.5, 0.25]) if scalar_init else [rng.randint(-9, 9) for _ in keys]
    if isinstance(init, float):
        vdtype = "float64"
    if not scalar_init and vdtype == "float64" and rng.random() < 0.3:
        init = [rng.choice([float("inf"), float("-inf"), 1.5, -2.0, 0.0, 3.0]) for _ in keys]     # infinities are values like any other
    m = mod if mod is not None else 2 * n - 1

    def nonkey(wide=False):
        for _ in range(60):
            u = rng.random()
            if u < 0.4:
                x = rng.choice(keys) + m * rng.randint(-3, 3)       # collides with a key's bucket
            elif u < 0.8:
                x = rng.randint(max(lo2 - 5, lo), min(hi2 + 5, hi))
            else:
                x = rng.randint(lo, hi)
            if wide:
                x = rng.choice(keys) + rng.choice([1, -1]) * (hi - lo + 1) * rng.randint(1, 2)   # wraps onto a key in the key dtype
            if x not in keys and (wide or lo <= x <= hi) and -2 ** 63 <= x < 2 ** 63:
                return x
        return None
    nonkeys = sorted({x for x in [nonkey() for _ in range(6)] if x is not None})
    uniq = [1000]

    def fresh(k=1):
        out = list(range(uniq[0], uniq[0] + k))
        uniq[0] += k
        if vdtype == "float64" and (not scalar_init or isinstance(init, float)):
            out = [x + 0.5 for x in out]          # float tables are assigned fractional values (an integer-typed detour would lose them)
        return out
    fracfill = [False]
    pristine = [True]       # no assignment / fill on table 't' so far: a scalar-initialised table is still in its compact scalar state
    ops = []
    ntables = 1
    nops = nops or rng.randint(1, 12 if tier == "quick" else 40)
    widenable = kd not in (None, "int64", "uint64")
    for _ in range(nops):
        name = rng.choice(OPS)
        tb = rng.choice(["t"] + ["d%d" % i for i in range(1, ntables)]) if rng.random() < 0.35 else "t"
        op = {"op": name, "table": tb}
        if tb == "t" and name not in ("get1", "getv", "getmiss", "contains", "hs_contains1", "hs_containsv", "getwide", "getreuse", "fill"):
            pristine[0] = False        # anything but look-ups may spread the common value out per key (in the value's own type)
        if name == "get1" or name == "hs_contains1":
            op["key"] = rng.choice(keys) if name == "get1" or rng.random() < 0.5 else (nonkey() or keys[0])
            op["py"] = rng.random() < 0.5
        elif name == "getv":
            op["keys"] = [rng.choice(keys) for _ in range(rng.randint(0, 7))]
            if kd is not None and rng.random() < 0.4:
                op["qcarrier"] = rng.choice(["list", "tuple", "other-sign", "narrow", "int64", "uint64"])
        elif name == "getwide":
            if not widenable:
                op = {"op": "getv", "table": tb, "keys": [rng.choice(keys) for _ in range(rng.randint(1, 5))]}
            else:
                op["keys"] = [rng.choice(keys) for _ in range(rng.randint(1, 5))]
                op["qdtype"] = "int64"
        elif name == "getreuse":
            m_ = rng.randint(1, 5)
            op["keys"] = [rng.choice(keys) for _ in range(m_)]
            op["keys2"] = [rng.choice(keys) for _ in range(m_)]
            x = nonkey()
            op["miss"] = x if (x is not None and lo <= x <= hi) else None
        elif name == "getmiss":
            wide = widenable and rng.random() < 0.4
            x = nonkey(wide)
            if x is None:
                continue
            q = [rng.choice(keys) for _ in range(rng.randint(0, 3))] + [x]
            rng.shuffle(q)
            op["keys"] = q
            if wide:
                op["qdtype"] = "int64"
            elif kd is not None and rng.random() < 0.3:
                op["qcarrier"] = rng.choice(["list", "tuple", "other-sign", "narrow", "int64", "uint64"])
        elif name in ("set1", "setv", "setvv"):
            q = [rng.choice(keys)] if name == "set1" else rng.sample(keys, rng.randint(1, n))
            if name == "setv" and n > 1 and rng.random() < 0.4:
                # one value for a key vector that names some keys several times and others not at all -- as long as the key set, or any other length
                m_ = n if rng.random() < 0.6 else rng.randint(2, 2 * n)
                sub_ = rng.sample(keys, rng.randint(1, n - 1))
                q = [rng.choice(sub_) for _ in range(m_)]
            op["keys"] = q
            op["vals"] = fresh(len(q) if name == "setvv" else 1)
            if tb == "t":
                pristine[0] = False
        elif name == "fill":
            op["val"] = fresh()[0]
            if scalar_init and pristine[0] and tb == "t" and rng.random() < 0.5:
                op["val"] = rng.choice([2.5, 0.25, -1.5])
                fracfill[0] = True          # a table that still holds one common value takes any value, whatever was looked up before
            if tb == "t":
                pristine[0] = pristine[0] and scalar_init
        elif name in ("contains", "hs_containsv"):
            wide = widenable and rng.random() < 0.3
            q = [rng.choice(keys) if rng.random() < 0.5 else (nonkey(wide and rng.random() < 0.5) or keys[0]) for _ in range(rng.randint(1, 6))]
            op["keys"] = q
            if wide:
                op["qdtype"] = "int64"
            elif any(not (lo <= x <= hi) for x in q):
                op["keys"] = [x for x in q if lo <= x <= hi] or [keys[0]]
            if kd is not None and rng.random() < 0.4:
                op["qcarrier"] = rng.choice(["list", "tuple", "other-sign", "narrow", "int64", "uint64"])
                if op["qcarrier"] in ("list", "tuple") and rng.random() < 0.6:
                    # a python sequence may hold numbers the key type cannot: they are simply not keys
                    far_ = [x for x in (np.iinfo(kd).max + 1 + rng.randint(0, 50), np.iinfo(kd).min - 1 - rng.randint(0, 50), 2 ** 40 + 3, -2 ** 40 - 3) if not (lo <= x <= hi) and -2 ** 63 <= x < 2 ** 63 and not (x < 0 and max(op["keys"]) >= 2 ** 63)]
                    if far_:
                        op["keys"] = list(op["keys"]) + [rng.choice(far_)]
                        rng.shuffle(op["keys"])
        elif name in ("zeros_like", "ones_like", "deepcopy", "pickle"):
            ntables += 1
        elif name == "add":
            op["vals"] = [rng.randint(1, 50) for _ in keys]
            if rng.random() < 0.35:
                op["scalar_other"] = rng.choice([0.5, 0.25, 2, 1.5, 7])
            elif rng.random() < 0.5:
                op["other_order"] = rng.choice(["reversed", "mixed"])
            elif rng.random() < 0.6:
                op["other_kd"] = rng.choice(["int64", "int32", "uint64", "int16", "uint8"])
            else:
                op["zero_other"] = rng.choice("LR")
            ntables += 1
        elif name == "eq":
            op["differ"] = None if rng.random() < 0.5 else rng.randrange(n)
        ops.append(op)
    c_ = {"keys": keys, "kdtype": kd, "mod": mod, "init": init, "vdtype": vdtype, "nonkeys": nonkeys, "ops": ops, "style": style}
    if rng.random() < 0.15 and (vdtype != "float64" or not scalar_init) and not fracfill[0]:
        c_["cls"] = "Counter"          # (also with per-key float values: a Counter keeps what it is given)
    return c_


def directed():
    import random
    rng = random.Random(1111)
    # key sets as large as the key dtype's range allows (default modulus 2n-1 at / beyond the dtype's capacity), and one short of that
    for kd, nk in (("int8", 64), ("int8", 63), ("uint8", 128), ("uint8", 127), ("int8", 128), ("uint8", 256), ("int16", 16384), ("uint16", 32768), ("int16", 20000)):
        ii = np.iinfo(kd)
        pool = list(range(int(ii.min), int(ii.max) + 1))
        keys = sorted(rng.sample(pool, nk))
        rng.shuffle(keys)
        ks_ = set(keys)
        nonkeys = [x for x in rng.sample(pool, min(len(pool), nk + 6)) if x not in ks_][:5]
        for init in (3, [(i * 7) % 11 for i in range(nk)]):
            yield {"keys": keys, "kdtype": kd, "mod": None, "init": init, "vdtype": "int64", "nonkeys": nonkeys, "style": "dense",
                   "ops": [{"op": "getv", "table": "t", "keys": keys[:5]}, {"op": "set1", "table": "t", "keys": [keys[1]], "vals": [1000]}, {"op": "contains", "table": "t", "keys": keys[:3] + nonkeys[:2]},
                           {"op": "hs_containsv", "table": "t", "keys": keys[-2:] + nonkeys[:1]}, {"op": "items", "table": "t"}]}
    # every key in one or two buckets (a caller-given modulus of 1 / 2): buckets longer than a narrow key type can count, and
    # thousands of colliding keys queried with thousands of (present and absent) keys at once
    for kd, nk, mod in (("int8", 130, 1), ("int8", 200, 1), ("uint8", 256, 1), ("int8", 256, 2), ("int64", 3000, 1)):
        ii = np.iinfo(kd or "int64")
        pool = list(range(int(ii.min), int(ii.max) + 1)) if kd in ("int8", "uint8", "int16", "uint16") else [i * 7919 - 20000000 for i in range(3 * nk)]
        keys = rng.sample(pool, nk)
        ks_ = set(keys)
        absent = [x for x in pool if x not in ks_][:max(5, min(3000, len(pool) - nk))] or [keys[0]]
        nq = 9000 if nk >= 3000 else 40
        q = [rng.choice(keys) if rng.random() < 0.6 else rng.choice(absent) for _ in range(nq)] if len(pool) > nk else [rng.choice(keys) for _ in range(nq)]
        for init in (3, [(i * 5) % 13 for i in range(nk)]):
            yield {"keys": keys, "kdtype": kd, "mod": mod, "init": init, "vdtype": "int64", "nonkeys": absent[:5], "style": "collide-all",
                   "ops": [{"op": "contains", "table": "t", "keys": q}, {"op": "hs_containsv", "table": "t", "keys": q[::-1]}, {"op": "getv", "table": "t", "keys": [k for k in q if k in ks_][:nq // 2]},
                           {"op": "setv", "table": "t", "keys": keys[:3], "vals": [777]}, {"op": "contains", "table": "t", "keys": q[:50]}, {"op": "getv", "table": "t", "keys": keys[:7]}]}
    # tables in which every key holds the same value, stored once or per key, compared with each other (also after a fill / a full assignment)
    for kd in ("int64", None, "uint8", "int32"):
        for keys in ([3, 7, 11, 20, 41], [5], [0, 1, 2, 3]):
            for init in (4, [4] * len(keys), 2.5, [2.5] * len(keys)):
                vd_ = "float64" if isinstance(init, float) or (isinstance(init, list) and isinstance(init[0], float)) else "int64"
                for pre in ([], [{"op": "fill", "table": "t", "val": 9}], [{"op": "setv", "table": "t", "keys": list(keys), "vals": [6]}], [{"op": "getv", "table": "t", "keys": keys[:1]}]):
                    yield {"keys": keys, "kdtype": kd, "mod": rng.choice([None, 7, 1]), "init": init, "vdtype": vd_, "nonkeys": [99, 100], "style": "small",
                           "ops": pre + [{"op": "eq", "table": "t", "differ": None}, {"op": "zeros_like", "table": "t"}, {"op": "eq", "table": "d1", "differ": None}, {"op": "eq", "table": "t", "differ": 0}]}
    # a table that holds an integer PER KEY is filled with a number that has a fraction: every way of asking gives the whole part, before and after a later write
    for kd in ("int64", None, "uint8"):
        for keys in ([3, 7, 11, 20, 41], [5, 6]):
            for fv_ in (2.75, -1.5, 7.25):
                yield {"keys": keys, "kdtype": kd, "mod": rng.choice([None, 7, 1]), "init": list(range(10, 10 + len(keys))), "vdtype": "int64", "nonkeys": [99, 100], "style": "small",
                       "ops": [{"op": "fill", "table": "t", "val": fv_, "trunc": True}, {"op": "get1", "key": keys[0], "table": "t", "py": True}, {"op": "get1", "key": keys[-1], "table": "t", "py": False},
                               {"op": "getv", "table": "t", "keys": keys[:2]}, {"op": "to_dict", "table": "t"}, {"op": "items", "table": "t"},
                               {"op": "set1", "table": "t", "keys": [keys[0]], "vals": [55]}, {"op": "get1", "key": keys[-1], "table": "t", "py": True}, {"op": "getv", "table": "t", "keys": keys}]}
    # 12..40 keys spread over a huge range; membership queries in which an absent key occurs several times
    for nk in (12, 20, 25, 40):
        keys = [(i * 3 + 1) * 2 ** 40 + i * 7 for i in range(nk)]
        rng.shuffle(keys)
        absent = [5 * 2 ** 40 + 3, 2 ** 41 + 1, 17]
        q = [absent[0], keys[0], absent[0], absent[1], keys[3], absent[0], absent[1], keys[0], absent[2], absent[2]]
        for kd in ("int64", None, "uint64"):
            yield {"keys": keys, "kdtype": kd, "mod": None, "init": 2, "vdtype": "int64", "nonkeys": absent, "style": "big",
                   "ops": [{"op": "hs_containsv", "table": "t", "keys": q}, {"op": "contains", "table": "t", "keys": q}, {"op": "format", "table": "t"}, {"op": "hs_containsv", "table": "t", "keys": q[::-1]},
                           {"op": "zeros_like", "table": "t"}, {"op": "format", "table": "d1"}, {"op": "getv", "table": "t", "keys": keys[:4]}]}
    for kd in KD:
        for style in ["small", "neg", "big", "dense"]:
            if style == "neg" and kd and kd.startswith("u"):
                continue
            for mod in [None, 1, 2, 7, "pick"]:
                for scalar_init in (True, False):
                    yield gen_history(rng, "quick", kd, style, mod, scalar_init, nops=8)
    # every operation right after construction, in both hidden states, with an explicit modulus (derived tables must keep it)
    for scalar_init in (True, False):
        for mod in (None, 7, 1, 50):
            for name in OPS:
                h = gen_history(rng, "quick", "int64", "small", mod, scalar_init, nops=1)
                for _ in range(40):
                    if h["ops"] and h["ops"][0]["op"] == name:
                        break
                    h = gen_history(rng, "quick", "int64", "small", mod, scalar_init, nops=1)
                # follow a derived table with hashed accesses on it
                if name in ("zeros_like", "ones_like", "add"):
                    ks = h["keys"]
                    h["ops"] += [{"op": "getv", "table": "d1", "keys": ks[:3]}, {"op": "contains", "table": "d1", "keys": ks[:2] + h["nonkeys"][:2]},
                                 {"op": "setv", "table": "d1", "keys": ks[:1], "vals": [4242]}, {"op": "to_dict", "table": "d1"}, {"op": "getv", "table": "t", "keys": ks}]
                yield h


    # a table that holds ONE common value of a declared type (the all-zero / all-one table of a float table) is LISTED first (items / to_dict: reads),
    # then looked up, then takes a fractional value for some keys: the listing must not have decided the table's value type
    for kd in ("int64", None, "int32"):
        keys = [5, 17, 3, 40, 12]
        for init in ([0.5 * i + 0.25 for i in range(5)], 1.5):
            for like in ("zeros_like", "ones_like"):
                for lst in (["items"], ["to_dict"], ["to_dict", "items"], ["format", "items"]):
                    for wr in ({"op": "set1", "table": "d1", "keys": [17], "vals": [2.5]}, {"op": "setv", "table": "d1", "keys": [5, 12], "vals": [0.25]},
                               {"op": "setvv", "table": "d1", "keys": [3, 40], "vals": [2.75, -0.5]}):
                        yield {"keys": keys, "kdtype": kd, "mod": None, "init": init, "vdtype": "float64", "nonkeys": [99, 100], "style": "small",
                               "ops": [{"op": like, "table": "t"}] + [{"op": o_, "table": "d1"} for o_ in lst] + [{"op": "getv", "table": "d1", "keys": keys[:3]}, wr,
                                       {"op": "getv", "table": "d1", "keys": keys}, {"op": "to_dict", "table": "d1"}, {"op": "getv", "table": "t", "keys": keys}]}


def random_case(rng, tier):
    return gen_history(rng, tier)


def const_case(rng, tier, s, form):
    """a number taken from the library source (+-1) as the number of keys / the modulus / a value around which the keys lie / the number of keys in one query"""
    try:
        if form in ("rows", "nonempty"):
            if s > 30000:
                return None
            _FORCE["nk"] = s
            return gen_history(rng, tier, nops=rng.randint(2, 6) if s > 2000 else None)
        if form == "rowlen":
            if s > 5000:
                return None
            _FORCE["nk"] = rng.choice([3, 10, s, 2 * s + 1]) if s <= 500 else rng.choice([3, 10, 40])
            return gen_history(rng, tier, kd=rng.choice([None, "int64", "int32", "uint64"]), mod=s)
        if form == "emptyrun":
            _FORCE["around"] = s
            return gen_history(rng, tier)
        # "cells": one vector look-up / membership test / assignment with exactly s entries
        if s > 60000:
            return None
        _FORCE["nk"] = rng.choice([3, 12, 40])
        c = gen_history(rng, tier, nops=3)
        keys = c["keys"]
        q = [rng.choice(keys) for _ in range(s)]
        c["ops"] += [{"op": "getv", "table": "t", "keys": q}, {"op": "contains", "table": "t", "keys": q[:-1] + c["nonkeys"][:1]},
                     {"op": "hs_containsv", "table": "t", "keys": (c["nonkeys"][:1] + q)[:s]}]
        return c
    finally:
        _FORCE.clear()


def classify(case, res):
    scalar_init = not isinstance(case["init"], list)
    failed = [t for t in res["tags"] if t.startswith("failed-op:")]
    if scalar_init and failed and case["kdtype"] not in (None, "int64") and failed[0].split(":")[1] in ("set1", "setv", "setvv", "fill", "items", "to_dict", "get1", "getv", "getwide"):
        return "F11c"
    if scalar_init and failed:
        name = failed[0].split(":")[1]
        wrote = any(o["op"] in ("set1", "setv", "setvv") and o.get("table", "t") == "t" for o in case["ops"])
        if name == "getmiss" and not wrote:
            return "F11a"
        if name in ("items", "to_dict") and not wrote:
            return "F11b"
    return None
