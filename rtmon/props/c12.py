"""C12 -- Counter totals equal the number of occurrences seen so far.

Histories of count(batch) calls against collections.Counter restricted to the key set, read
back after every batch; plus metamorphic twins on the same sample multiset: read only at the
end, one batch, re-split and permuted batches, another modulus, untyped sample lists."""
import collections
import numpy as np
from ..core import CTX, attempt, held, violated, undefined, short
from .. import gen, contracts
from . import c11

PROP = "C12"
LEVEL_TEXT = 'Histories of count() calls against collections.Counter restricted to the keys, read back after every batch, plus metamorphic twins (read at end, one batch, re-split+permuted, other modulus) on the same sample multiset; hidden scalar/array states, wide / other-signedness / 250001-sample batches. Exploration over histories.'
LEVEL_NOTE = "trusts numpy 2.x, CPython (copy.copy, slice semantics, big ints) and the reference model in rtmon/props/c12.py; decides the executions it produces, nothing more"
TECHNIQUE = 'runtime monitoring: history checking against collections.Counter + metamorphic twin runs'
DESIGN_REF = "DESIGN.md sections 0, 5 (C12), 7"
RULE = ("case = history: (unique keys, key dtype, modulus, initial value: default | scalar | per-key array, list of sample batches with dtypes, second modulus, "
        "re-split plan); model = collections.Counter restricted to the keys; distinct = hash of the history; non-trivial = >= 2 keys and >= 1 sample that is a key")
ASSUMPTIONS = ["moduli are representable in the key dtype and small (one bucket per residue is allocated)"]
ANCHORS = ["hashtable.py::Counter.count", "hashtable.py::Counter.__init__", "raggedshape.py::ViewBase.ravel_multi_index", "raggedshape.py::RaggedView._get_flat_indices_fast",
           "raggedshape.py::ViewBase.empty_rows_removed", "hashtable.py::HashTable.__getitem__"]
FLOOR_TAGS = ["batch:array-protocol-only", "init:default", "init:scalar0", "init:scalar", "init:array", "init:array-fractional", "init:array-uint64", "batch:empty", "batch:nokey", "batch:onlykeys", "batch:mixed", "batch:heavy", "batch:collide",
              "batch:wide", "batch:pylist", "batch:run-length-encoded", "batch:othersign", "batch:huge", "keys>=33", "mod:1", "mod:None", "mod:explicit", "state:first-hit-on-scalar0", "state:first-hit-on-scalar", "state:array", "no-hit-call"]
FLOOR_MONITORS = ["c12:caller-keys", "c12:batch", "c12:twin-read-at-end", "c12:twin-one-batch", "c12:twin-resplit", "c12:twin-modulus", "c12:twin-sorted"]
FP_STRICT = True       # a floating-point event inside the library that the dense computation does not have is a violation (shard.FpMonitor)
N_RANDOM = {"quick": 7500, "thorough": 100000}


def setup(lib):
    contracts.attach(lib, which=("hashtable", "ragged"))


def make(case, mod, keep=None):
    C = CTX.lib.Counter
    keys, kd, init = case["keys"], case["kdtype"], case["init"]
    ka = c11.karr(keys, kd)
    if keep is not None and isinstance(ka, np.ndarray):
        keep.append(("keys", ka))       # the caller keeps (and later reuses) the key array he passed in
    kw = {} if mod is None else {"mod": mod}
    if init == "default":
        return C(ka, **kw)
    if isinstance(init, float):
        return C(ka, init, value_dtype=float, **kw)        # a fractional common start value (the counter is told to count in floats)
    if isinstance(init, list):
        arr = np.array(init, dtype=np.uint64) if any(isinstance(v, int) and v >= 2 ** 63 for v in init) else np.array(init)
        if keep is not None:
            keep.append(arr)      # the caller keeps his start-value array
        return C(ka, arr, **kw)
    return C(ka, init, **kw)


def expand(b, case):
    """batches given by a formula (huge batches are not written out in the case)"""
    if "gen" in b and "samples" not in b:
        pool = list(case["keys"]) + list(b["gen"].get("extra", []))
        n, a = b["gen"]["n"], b["gen"]["mult"]
        idx = (np.arange(n, dtype=np.int64) * a + (np.arange(n, dtype=np.int64) // 7)) % len(pool)
        b = dict(b, samples=[pool[i] for i in idx.tolist()])
    return b


class _Column:
    """an array_like that follows numpy's conversion protocol and nothing else (no length, no indexing): a lazily decoded column of a file"""

    def __init__(self, a):
        self._a = a

    def __array__(self, dtype=None, copy=None):
        return self._a if dtype is None else self._a.astype(dtype)


def samples_of(b, kd):
    if b.get("pylist"):
        return tuple(b["samples"]) if len(b["samples"]) % 2 else list(b["samples"])      # a python list or a tuple
    arr = np.array(b["samples"], dtype=b.get("sdtype") or (kd if kd else np.int64))
    if b.get("as_column"):
        return _Column(arr)
    if b.get("as_rla") and len(arr):
        return CTX.lib.RunLengthArray.from_array(arr)        # a run-length encoded batch (accepted: it converts to its dense form)
    return arr


def totals(cn, case):
    return np.asarray(cn[c11.qarr(case["keys"], case["kdtype"])]).tolist()


def run(case):
    keys, kd, mod, init = case["keys"], case["kdtype"], case["mod"], case["init"]
    tags = ["init:" + ("default" if init == "default" else ("array" if isinstance(init, list) else ("scalar0" if init == 0 else "scalar"))),
            ] + (["init:array-fractional"] if isinstance(init, list) and any(isinstance(v, float) for v in init) else []) + (
            ["init:array-uint64"] if isinstance(init, list) and any(isinstance(v, int) and v >= 2 ** 63 for v in init) else []) + [
            "mod:" + ("None" if mod is None else ("1" if mod == 1 else "explicit")), "kd:" + (kd or "list")] + (["keys>=33"] if len(keys) >= 33 else [])
    desc0 = "Counter(keys=%s %s, init=%s, mod=%s)" % (kd, short(keys, 120), short(init, 60), mod)
    kept = []
    c = attempt(make, case, mod, kept)
    if not c.ok:
        return violated("%s raised %r" % (desc0, c), tags)
    cn = c.value
    base = {k: (0 if init == "default" else (init[i] if isinstance(init, list) else init)) for i, k in enumerate(keys)}
    model = dict(base)
    first = attempt(totals, cn, case)
    if not first.ok or first.value != [model[k] for k in keys]:
        return violated("%s reads %s before any count, expected %s" % (desc0, repr(first) if not first.ok else first.value, [model[k] for k in keys]), tags)
    hits_so_far = 0
    allsamples = []
    case = dict(case, batches=[expand(b, case) for b in case["batches"]])
    for bi, b in enumerate(case["batches"]):
        tags.append("batch:" + b["kind"])
        if b.get("pylist"):
            tags.append("batch:pylist")
        if b.get("as_rla"):
            tags.append("batch:run-length-encoded")
        if b.get("as_column"):
            tags.append("batch:array-protocol-only")
        s = b["samples"]
        nh = sum(1 for x in s if x in model)
        if nh == 0:
            tags.append("no-hit-call")
        elif hits_so_far == 0:
            tags.append("state:first-hit-on-scalar0" if tags[0] in ("init:default", "init:scalar0") else ("state:first-hit-on-scalar" if tags[0] == "init:scalar" else "state:array"))
        else:
            tags.append("state:array")
        CTX.tick("c12:batch", nh > 0)
        a = attempt(lambda: cn.count(samples_of(b, kd)))
        if not a.ok:
            return violated("%s: count(%s %s) (batch %d, kind %s) raised %s: %s" % (desc0, b.get("sdtype") or kd, short(s, 120), bi, b["kind"], type(a.exc).__name__, a.exc), tags)
        for x in s:
            if x in model:
                model[x] += 1
        hits_so_far += nh
        allsamples += list(s)
        r = attempt(totals, cn, case)
        e = [model[k] for k in keys]
        if not r.ok or r.value != e:
            return violated("%s: after batches %s the totals for keys %s are %s, the number of occurrences says %s" % (
                desc0, short([bb["samples"] for bb in case["batches"][:bi + 1]], 200), short(keys, 100), repr(r) if not r.ok else r.value, e), tags, got=repr(r), expected=e)
    final = [model[k] for k in keys]
    nontrivial = len(keys) >= 2 and hits_so_far >= 1
    kept_keys = [x[1] for x in kept if isinstance(x, tuple)]
    kept = [x for x in kept if not isinstance(x, tuple)]
    if kept_keys and len(keys) >= 1:
        # the caller's key array is his: it still holds his keys, and refilling it afterwards changes neither the totals nor what later calls count
        CTX.tick("c12:caller-keys")
        ka_ = kept_keys[0]
        if ka_.tolist() != list(keys):
            return violated("%s: the caller's key array was changed: %s" % (desc0, short(ka_, 120)), tags + ["caller-array-written"])
        ka_[...] = ka_[::-1].copy() if len(set(keys)) > 1 and ka_[::-1].tolist() != ka_.tolist() else ka_ + ka_.dtype.type(1)
        r = attempt(totals, cn, case)
        if not r.ok or r.value != final:
            return violated("%s: after the caller refilled the key array he had passed in, the counter reads %s for the keys %s, expected %s" % (desc0, repr(r) if not r.ok else r.value, short(keys, 100), final), tags + ["aliases-caller-array"])
        a = attempt(lambda: cn.count(c11.qarr(list(keys), kd)))
        r = attempt(totals, cn, case)
        final = [v + 1 for v in final]
        for k_ in model:
            model[k_] += 1
        if not a.ok or not r.ok or r.value != final:
            return violated("%s: after the caller refilled the key array he had passed in, counting every key once more gives %s, expected %s" % (desc0, repr(r) if (a.ok and not r.ok) else (repr(a) if not a.ok else r.value), final), tags + ["aliases-caller-array"])
        allsamples += list(keys)
        case["batches"].append({"kind": "onlykeys", "samples": list(keys)})
    if kept:
        CTX.tick("c12:caller-array")
        if kept[0].tolist() != list(init):
            return violated("%s: counting wrote into the caller's array of start values: it now reads %s (was %s)" % (desc0, kept[0].tolist(), init), tags + ["caller-array-written"])
        kept[0] += 1000
        r = attempt(totals, cn, case)
        if not r.ok or r.value != final:
            return violated("%s: after the caller changed his array of start values the counter reads %s, expected %s" % (desc0, repr(r) if not r.ok else r.value, final), tags + ["aliases-caller-array"])

    def twin(name, mod_, plan):
        """plan: list of sample lists; a fresh counter counts them, reading only at the end"""
        CTX.tick("c12:twin-" + name)
        t = attempt(make, case, mod_)
        if not t.ok:
            return "twin '%s': construction raised %r" % (name, t)
        for s in plan:
            a = attempt(lambda: t.value.count(s))
            if not a.ok:
                return "twin '%s': count(%s) raised %r" % (name, short(s, 100), a)
        r = attempt(totals, t.value, case)
        if not r.ok or r.value != final:
            return "twin '%s' (same samples, %s) ends with totals %s, the step-by-step run ended with %s" % (name, short(plan, 160), repr(r) if not r.ok else r.value, final)
        return None

    wide = any(b.get("sdtype") for b in case["batches"]) or any(not (-2 ** 63 <= x < 2 ** 63) for x in allsamples)
    if any(not (-2 ** 63 <= x < 2 ** 63) for x in allsamples):
        return held(tags, nontrivial)       # samples of both signednesses beyond int64: no common typed array for the twins
    sdt = "int64" if (wide or kd is None) else kd
    typed = lambda s: np.array(s, dtype=sdt)
    msgs = [
        twin("read-at-end", mod, [samples_of(b, kd) for b in case["batches"]]),
        twin("one-batch", mod, [typed(allsamples)]),
    ]
    perm = [allsamples[i] for i in case["perm"]] if len(case.get("perm", [])) == len(allsamples) else list(allsamples)
    cuts = sorted(c_ for c_ in case.get("cuts", []) if 0 <= c_ <= len(perm))
    pieces = [perm[a_:b_] for a_, b_ in zip([0] + cuts, cuts + [len(perm)])]
    msgs.append(twin("resplit", mod, [typed(p) for p in pieces]))
    msgs.append(twin("sorted", mod, [typed(sorted(allsamples))]))          # the order of the samples does not matter: neither does sortedness
    msgs.append(twin("sorted-descending", mod, [typed(sorted(allsamples, reverse=True)[:len(allsamples) // 2]), typed(sorted(allsamples, reverse=True)[len(allsamples) // 2:])]))
    msgs.append(twin("modulus", case.get("mod2"), [typed(allsamples)]))
    for m in msgs:
        if m:
            return violated("%s with batches %s: %s" % (desc0, short([b["samples"] for b in case["batches"]], 200), m), tags + ["twin-differs"])
    return held(tags, nontrivial)


# ----------------------------------------------------------------------------- workloads

def gen_history(rng, tier, kd="pick", init=None, mod="pick", nb=None):
    keys, kd, style, (lo, hi), (lo2, hi2) = c11.gen_keys(rng, kd, tier=tier, nk=rng.randint(33, 64) if rng.random() < 0.12 else None)
    n = len(keys)

    def pick_mod():
        m = rng.choice([None, None, 1, 2, 3, 7, n, 17, 101])
        return None if (m is not None and (m > hi or m > 5000)) else m
    if mod == "pick":
        mod = pick_mod()
    elif mod is not None and mod > hi:
        mod = None
    mod2 = pick_mod()
    if mod2 == mod:
        mod2 = 5 if (mod != 5 and hi >= 5) else None
    init = init or rng.choice(["default", 0, 4, "array", 2.5])
    if init == "array":
        u = rng.random()
        if u < 0.7:
            init = [rng.randint(0, 9) for _ in keys]
        elif u < 0.85:
            init = [rng.randint(0, 40) / 4.0 for _ in keys]                    # fractional start values (exact in binary)
            init[0] += 0.5 if init[0] == int(init[0]) else 0.0
        else:
            init = [rng.choice([2 ** 63 + rng.randint(0, 9), 2 ** 64 - 2 ** 32, 3]) for _ in keys]       # start values beyond the signed 64-bit range
            init[0] = 2 ** 63 + 5
    m = mod if mod is not None else 2 * n - 1
    ks = set(keys)
    widenable = kd not in (None, "int64", "uint64")

    def nonkey(collide=False, wide=False):
        for _ in range(60):
            if wide:
                x = rng.choice(keys) + rng.choice([1, -1]) * (hi - lo + 1) * rng.randint(1, 2)
            elif collide:
                x = rng.choice(keys) + m * rng.randint(-3, 3)
            else:
                x = rng.randint(max(lo, lo2 - 8), min(hi, hi2 + 8)) if rng.random() < 0.7 else rng.randint(lo, hi)
            if x not in ks and (wide or lo <= x <= hi) and -2 ** 63 <= x < 2 ** 63:
                return x
        return None
    batches = []
    for _ in range(nb if nb is not None else rng.randint(0, 5)):
        kind = rng.choice(["empty", "nokey", "onlykeys", "mixed", "heavy", "collide", "wide", "othersign", "fewrepeats", "veryheavy"])
        L = rng.randint(1, 14)
        b = {"kind": kind}
        if kind == "empty":
            s = []
        elif kind == "nokey":
            s = [nonkey() for _ in range(L)]
        elif kind == "onlykeys":
            s = [rng.choice(keys) for _ in range(L)]
        elif kind == "heavy":
            s = [keys[0]] * (3 * L) + [rng.choice(keys) for _ in range(2)]
        elif kind == "collide":
            s = [rng.choice(keys) if rng.random() < 0.4 else nonkey(collide=True) for _ in range(L)]
        elif kind == "veryheavy":
            # one key repeated more often than a narrow integer type can count (128 / 256 / 300 times)
            kind = b["kind"] = "heavy"
            s = [rng.choice(keys)] * rng.choice([127, 128, 129, 255, 256, 257, 300]) + [rng.choice(keys) for _ in range(3)]
        elif kind == "fewrepeats":
            kind = b["kind"] = "mixed"
            k1 = rng.choice(keys)
            s = [k1] * rng.randint(2, 4) + [rng.choice(keys) for _ in range(rng.randint(0, 2))]     # few hits, one key repeated
        elif kind == "othersign":
            # samples of the opposite signedness (same width) whose bit pattern equals a key's
            if kd is None:
                kind = b["kind"] = "mixed"
                s = [rng.choice(keys) if rng.random() < 0.5 else nonkey() for _ in range(L)]
            else:
                other = ("u" + kd) if not kd.startswith("u") else kd[1:]
                bits = np.dtype(kd).itemsize * 8
                oi = np.iinfo(other)
                s = []
                for _ in range(L):
                    k1 = rng.choice(keys)
                    w = k1 + 2 ** bits if k1 < 0 else (k1 - 2 ** bits if k1 >= 2 ** (bits - 1) else k1)
                    x = w if rng.random() < 0.6 else k1
                    if oi.min <= x <= oi.max:
                        s.append(x)
                b["sdtype"] = other
        elif kind == "wide":
            if not widenable:
                kind = b["kind"] = "mixed"
                s = [rng.choice(keys) if rng.random() < 0.5 else nonkey() for _ in range(L)]
            else:
                s = [rng.choice(keys) if rng.random() < 0.5 else nonkey(wide=True) for _ in range(L)]
                b["sdtype"] = "int64"
        else:
            s = [rng.choice(keys) if rng.random() < 0.5 else nonkey() for _ in range(L)]
        s = [x for x in s if x is not None]
        rng.shuffle(s)
        if rng.random() < 0.15 and s:
            # a long batch that arrives in order (ascending or descending): many more samples than keys
            s = sorted(s * (17 * n // len(s) + 2))[:3000]
            if rng.random() < 0.3:
                s = s[::-1]
            b["ordered"] = True
        if rng.random() < 0.12 and s:
            # the batch arrives run-length encoded: runs of different lengths, in a wider dtype with values the key dtype cannot hold in between
            s = [x for x in s for _ in range(rng.randint(1, 4))]
            if widenable and "sdtype" not in b:
                s = [x if rng.random() < 0.8 else rng.choice([hi + 5, lo - 7, hi + 300]) for x in s]
                s = [x for x in s if -2 ** 63 <= x < 2 ** 63]
                b["sdtype"] = "int64"
            b["as_rla"] = True
        b["samples"] = s
        if kind not in ("wide",) and not b.get("as_rla") and rng.random() < 0.2 and all(-2 ** 63 <= x < 2 ** 63 for x in s) and kd != "uint64":
            b["pylist"] = True
        elif not b.get("as_rla") and rng.random() < 0.12:
            b["as_column"] = True
        batches.append(b)
    total = sum(len(b["samples"]) for b in batches)
    perm = list(range(total))
    rng.shuffle(perm)
    cuts = sorted(rng.randint(0, total) for _ in range(rng.randint(0, 4)))
    return {"keys": keys, "kdtype": kd, "mod": mod, "mod2": mod2, "init": init, "batches": batches, "perm": perm, "cuts": cuts}


def directed():
    import random
    rng = random.Random(1212)
    for kd in c11.KD:
        for init in ["default", 0, 4, "array"]:
            for mod in [None, 1, 2, 7]:
                yield gen_history(rng, "quick", kd, init, mod, nb=3)
    # a repeated key in a small batch after the values are materialised (fewer hits than keys)
    for init in ("default", 4, "array"):
        keys = [3, 7, 11, 20, 41, 55, 68]
        ini = [1] * 7 if init == "array" else init
        yield {"keys": keys, "kdtype": "int64", "mod": None, "mod2": 3, "init": ini, "perm": [], "cuts": [2, 5],
               "batches": [{"kind": "onlykeys", "samples": [3, 11]}, {"kind": "heavy", "samples": [7, 7, 7, 7]}, {"kind": "mixed", "samples": [7, 99, 7, 55]}]}
    # thousands of keys, values already in their array state, then small batches in which one key occurs several times
    for nk_ in (5000, 4097, 9000):
        keys_ = [(i * 7919) % 100003 for i in range(nk_)]
        for init in ("default", [i % 3 for i in range(nk_)]):
            yield {"keys": keys_, "kdtype": "int64", "mod": None, "mod2": 101, "init": init, "perm": [], "cuts": [2],
                   "batches": [{"kind": "onlykeys", "samples": keys_[:50]}, {"kind": "mixed", "samples": [keys_[31], keys_[31], 5, keys_[31], keys_[7], keys_[31], keys_[7]]},
                               {"kind": "heavy", "samples": [keys_[100]] * 6 + [keys_[4000]] * 2}]}
    # one call with more samples than any internal chunk size (formula-generated; 100001 and 250001 are not multiples of 100000)
    for n_ in (100001, 250001, 65536, 131072, 65535, 65537, 2 ** 20 + 7):        # also exactly on / next to a power-of-two block size
        for init in ("default", [2, 0, 1, 5, 0]):
            yield {"keys": [3, 7, 11, 20, 41], "kdtype": "int64", "mod": None, "mod2": 3, "init": init, "perm": [], "cuts": [1000, 100000, 100001],
                   "batches": [{"kind": "huge", "gen": {"n": n_, "mult": 3, "extra": [5, 99, -4] if n_ < 2 ** 20 else []}}]}
    # samples handed over as doubles (all of them whole numbers that the key type holds), one of them a key beyond 2**53, ordinary hits after it
    for bigkey_ in (2 ** 62, 2 ** 53, 2 ** 60 + 2 ** 9):
        for kd_ in ("int64", "uint64"):
            for mod_ in (None, 1, 7):
                yield {"keys": [3, 5, bigkey_, 11], "kdtype": kd_, "mod": mod_, "mod2": 3, "init": "default", "perm": [], "cuts": [2],
                       "batches": [{"kind": "othersign", "samples": [bigkey_, 3, 3, 5, 4, 3], "sdtype": "float64"}, {"kind": "othersign", "samples": [11, bigkey_, 2 ** 40, 11], "sdtype": "float64"}]}
    # one common start value (a plain python number) just below / above what 32 bits count: the totals are 64-bit numbers from the first hit on
    for init_ in (2 ** 31 - 3, 2 ** 31 - 1, 2 ** 31 + 5, 2 ** 32 - 2, 2 ** 40, 2 ** 15 - 2, 2 ** 16 - 2):
        for kd_ in ("int64", "int32", None):
            yield {"keys": [3, 7, 11, 20, 41], "kdtype": kd_, "mod": None, "mod2": 3, "init": init_, "perm": [], "cuts": [2],
                   "batches": [{"kind": "heavy", "samples": [7] * 6 + [3]}, {"kind": "mixed", "samples": [7, 99, 7, 41, 41]}]}
    # a narrow key dtype, values already materialised, then one key more often than that dtype can count
    for kd_, reps in (("int8", 128), ("uint8", 256), ("int8", 300), ("int16", 200)):
        for init in ("default", [1, 2, 3]):
            yield {"keys": [5, 9, 100], "kdtype": kd_, "mod": None, "mod2": 3, "init": init, "perm": [], "cuts": [1],
                   "batches": [{"kind": "onlykeys", "samples": [5, 100]}, {"kind": "heavy", "samples": [9] * reps + [5]}]}
    # keys already in bucket order (no reordering needed), per-key start values given as an array
    for kd_ in ("int64", "int32", None):
        yield {"keys": [0, 1, 2, 3, 4], "kdtype": kd_, "mod": None, "mod2": 2, "init": [3, 0, 1, 4, 1], "perm": [], "cuts": [2],
               "batches": [{"kind": "onlykeys", "samples": [1, 1, 4]}, {"kind": "mixed", "samples": [0, 7, 2]}]}
    # a big table, values already materialised, then a small batch in which one key repeats
    big = list(range(100, 100 + 3 * 40, 3))
    for init in ("default", 4, [1] * 40):
        yield {"keys": big, "kdtype": "int64", "mod": None, "mod2": 7, "init": init, "perm": [], "cuts": [3],
               "batches": [{"kind": "onlykeys", "samples": big[:5]}, {"kind": "heavy", "samples": [big[7], big[7], big[7]]}, {"kind": "mixed", "samples": [big[1], 5, big[1]]}]}
    # samples of the other signedness with the same bit pattern as a key
    yield {"keys": [-1, 5], "kdtype": "int64", "mod": None, "mod2": 3, "init": "default", "perm": [], "cuts": [], "batches": [{"kind": "othersign", "samples": [2 ** 64 - 1, 5, 5], "sdtype": "uint64"}]}
    yield {"keys": [-56, 7], "kdtype": "int8", "mod": None, "mod2": 3, "init": 4, "perm": [], "cuts": [], "batches": [{"kind": "othersign", "samples": [200, 7, 200], "sdtype": "uint8"}]}
    yield {"keys": [250, 3], "kdtype": "uint8", "mod": None, "mod2": 2, "init": "default", "perm": [], "cuts": [], "batches": [{"kind": "othersign", "samples": [-6, 3], "sdtype": "int8"}]}
    # long ordered batches of the other signedness around 2**63: the neighbours of a key beyond 2**53 are not that key
    yield {"keys": [2 ** 63 - 1, 5, -3], "kdtype": "int64", "mod": None, "mod2": 3, "init": "default", "perm": [], "cuts": [],
           "batches": [{"kind": "othersign", "samples": [5] * 20 + [2 ** 63 - 1] * 21 + [2 ** 63] * 17 + [2 ** 63 + 1] * 3, "sdtype": "uint64", "ordered": True}]}
    yield {"keys": [2 ** 63, 7, 2 ** 64 - 1], "kdtype": "uint64", "mod": None, "mod2": 2, "init": 4, "perm": [], "cuts": [],
           "batches": [{"kind": "othersign", "samples": [-1] * 18 + [7] * 19 + [2 ** 63 - 1] * 25, "sdtype": "int64", "ordered": True}]}
    yield {"keys": [2 ** 53 + 1, 2 ** 53 + 3, 9], "kdtype": "int64", "mod": None, "mod2": 3, "init": "default", "perm": [], "cuts": [30],
           "batches": [{"kind": "mixed", "samples": [9] * 18 + [2 ** 53] * 20 + [2 ** 53 + 1] * 17 + [2 ** 53 + 2] * 19 + [2 ** 53 + 3] * 18 + [2 ** 53 + 4] * 9, "ordered": True}]}
    # every key in one bucket (modulus 1) and thousands of samples in one call: long stretches without any key, then keys
    big_keys = [i * 7919 - 20000000 for i in range(3000)]
    nk_ = [i * 7919 - 20000000 + 1 for i in range(7000)]
    for init in ("default", [i % 4 for i in range(3000)]):
        yield {"keys": big_keys, "kdtype": "int64", "mod": 1, "mod2": None, "init": init, "perm": [], "cuts": [6000, 8000],
               "batches": [{"kind": "mixed", "samples": nk_ + big_keys[:2500] + nk_[:50] + big_keys[100:300]}, {"kind": "nokey", "samples": nk_[:6500]}, {"kind": "onlykeys", "samples": big_keys[5:25] * 3}]}
    # samples that wrap onto a key in the key dtype
    yield {"keys": [44, 3], "kdtype": "int8", "mod": None, "mod2": 2, "init": "default", "perm": [], "cuts": [],
           "batches": [{"kind": "wide", "samples": [300, 3, 259, 44, -212], "sdtype": "int64"}]}
    yield {"keys": [5, 9], "kdtype": "int32", "mod": None, "mod2": 7, "init": 4, "perm": [], "cuts": [1],
           "batches": [{"kind": "wide", "samples": [5 + 2 ** 32, 9, 5], "sdtype": "int64"}, {"kind": "wide", "samples": [9 - 2 ** 33], "sdtype": "int64"}]}


def random_case(rng, tier):
    return gen_history(rng, tier)


def const_case(rng, tier, s, form):
    """a number taken from the library source (+-1) as the number of keys / of samples in one call / of occurrences of one key / the modulus /
    a value around which the keys lie"""
    try:
        if form in ("rows", "nonempty"):
            if s > 30000:
                return None
            c11._FORCE["nk"] = s
            return gen_history(rng, tier, nb=rng.randint(1, 3))
        if form == "emptyrun":
            c11._FORCE["around"] = s
            return gen_history(rng, tier)
        if form == "rowlen":
            # modulus s (where the table can afford it); one key exactly s times in one call
            if s <= 5000 and rng.random() < 0.5:
                c11._FORCE["nk"] = rng.choice([3, 10, 40])
                return gen_history(rng, tier, kd=rng.choice([None, "int64", "int32", "uint64"]), mod=s)
            c = gen_history(rng, tier, nb=rng.randint(0, 2))
            k1 = rng.choice(c["keys"])
            c["batches"].insert(rng.randint(0, len(c["batches"])), {"kind": "heavy", "samples": [k1] * s + [rng.choice(c["keys"]) for _ in range(3)]})
        else:
            # "cells": one call with exactly s samples (formula-generated: keys and non-keys mixed)
            c = gen_history(rng, tier, nb=rng.randint(0, 2))
            lo, hi = (-2 ** 62, 2 ** 62) if c["kdtype"] is None else (int(np.iinfo(c["kdtype"]).min), int(np.iinfo(c["kdtype"]).max))
            extra = [x for x in (5, 99, -4, max(c["keys"]) + 1) if lo <= x <= hi and x not in c["keys"]]
            c["batches"].insert(rng.randint(0, len(c["batches"])), {"kind": "huge", "gen": {"n": s, "mult": rng.choice([1, 3, 7]), "extra": extra}})
        total = sum(len(expand(b, c)["samples"]) for b in c["batches"])
        c["perm"] = []
        c["cuts"] = sorted(rng.randint(0, total) for _ in range(rng.randint(0, 3)))
        return c
    finally:
        c11._FORCE.clear()


def classify(case, res):
    if any(b["kind"] == "wide" for b in case["batches"]):
        return "F12a"
    return None
