"""C09 -- column aggregates count every row that reaches the column, once.

Oracle: the explicit loop 'rows with more than j elements'."""
import numpy as np
from ..core import CTX, attempt, held, violated, undefined, same_array, same_dtype, peek, short, lists_same
from .. import gen, contracts
from . import c02

PROP = "C09"
LEVEL_TEXT = "Explicit 'rows that reach column j' oracle for column sums / means / counts / get_column_values over every dtype branch, very different row lengths, lazy receivers, 64-bit values beyond 2**63 (magnitude-relative bound). Exploration."
LEVEL_NOTE = "trusts numpy 2.x, CPython (copy.copy, slice semantics, big ints) and the reference model in rtmon/props/c09.py; decides the executions it produces, nothing more"
TECHNIQUE = 'runtime monitoring: reference-model oracle (explicit column loop)'
DESIGN_REF = "DESIGN.md sections 0, 5 (C09), 7"
RULE = ("case = (row lengths with >= 1 non-empty row, dtype, flat values, operation in sum(axis=0) / np.sum / mean(axis=0) / col_counts / "
        "get_column_values(j), receiver kind); oracle = loop over the rows that reach column j; distinct = hash of the case; "
        "non-trivial = >= 2 rows of different lengths")
ASSUMPTIONS = ["numeric equality (the library returns float64 from bincount; the statement fixes the values, not the dtype)",
               "values keep every column sum below 2**53 and floats dyadic, so the comparison is exact; mean: rtol 1e-12"]
ANCHORS = ["raggedarray/__init__.py::RaggedArray.sum", "raggedarray/__init__.py::RaggedArray.col_counts", "raggedarray/__init__.py::RaggedArray.mean",
           "raggedarray/indexablearray.py::IndexableArray.get_column_values", "raggedshape.py::ViewBase.unravel_multi_index"]
OPS = ["sum0", "np.sum0", "mean0", "np.mean0", "col_counts", "getcol"]
FLOOR_TAGS = ["op:" + o for o in OPS] + ["kind:b", "kind:i", "kind:u", "kind:f", "e-first", "e-last", "e-mid", "e-consec", "e-none", "very-different-lengths",
                                         "recv:fresh", "recv:lazyrows", "recv:lazycols+2", "recv:lazycols-1", "recv:lazychain", "getcol:last", "getcol:0", "axis:numpy-integer", "v:nonfinite", "op-write-op", "getcol:numpy-integer"]
FLOOR_MONITORS = ["c09:compare", "c09:result-independent"]
FP_STRICT = True       # a floating-point event inside the library that the dense computation does not have is a violation (shard.FpMonitor)
N_RANDOM = {"quick": 30000, "thorough": 300000}


def setup(lib):
    contracts.attach(lib, which=("ragged",))


def mk_case(lens, dtype, vals, op, j=0, recv="fresh", vclass="small"):
    return {"lens": list(lens), "dtype": np.dtype(dtype).name, "vals": vals, "op": op, "j": j, "recv": recv, "vclass": vclass}


def run(case):
    if case.get("big"):
        return run_big(case)
    lens, op, j = case["lens"], case["op"], case["j"]
    dt = np.dtype(case["dtype"])
    n, tot = len(lens), sum(lens)
    recv = case.get("recv", "fresh")
    tags = ["op:" + op, "kind:" + dt.kind, "recv:" + recv] + gen.empty_placement(lens)
    if tot == 0:
        return undefined("no non-empty row", tags)
    flat = np.array(case["vals"], dtype=dt)
    if case.get("boolbytes"):
        # a boolean buffer as other code may hand it over: true cells stored as some non-zero byte (a uint8 flag column viewed as bool); numpy counts each as one
        flat = np.array(case["vals"], dtype=np.uint8).view(np.bool_)
        tags.append("bool:bytes-not-0/1")
    rows = gen.split_rows(flat, lens)
    M = max(lens)
    if M >= 8 and min(l for l in lens) <= 1 and n >= 2:
        tags.append("very-different-lengths")
    ra, parent = c02.build_receiver(recv, flat, lens)
    rw = case.get("rewrite")
    if rw and recv != "readonly":
        # the operation, then a write through a view the array hands out (its flat view, one of its rows) or through the array itself,
        # then the operation again on the same object: anything remembered from the first pass must follow the write
        tags.append("op-write-op")
        first = {"sum0": lambda: ra.sum(axis=0), "np.sum0": lambda: np.sum(ra, axis=0), "mean0": lambda: ra.mean(axis=0), "np.mean0": lambda: np.mean(ra, axis=0),
                 "col_counts": lambda: ra.col_counts(), "getcol": lambda: ra.get_column_values(j)}[op]
        attempt(first)
        pos = rw["pos"] % tot
        nv = np.array(rw["val"]).astype(dt)
        i_ = int(np.searchsorted(np.cumsum(lens), pos, side="right"))
        j_ = pos - (int(np.cumsum(lens)[i_ - 1]) if i_ else 0)
        flat = flat.copy()
        flat[pos] = nv
        if rw["how"] == "ravel":
            ra.ravel()[pos] = nv
        elif rw["how"] == "row":
            ra[i_][j_] = nv
        elif rw["how"] == "iterrow":
            for k_, row_ in enumerate(ra):
                if k_ == i_:
                    row_[j_] = nv
        else:
            ra[i_, j_] = nv
        rows = gen.split_rows(flat, lens)
    cols = [[r[k] for r in rows if len(r) > k] for k in range(M)]
    before = peek(ra)
    desc = "%s%s of %s rows %s [%s receiver]" % (op, "(%d)" % j if op == "getcol" else "", dt, short([r.tolist() for r in rows], 200), recv)
    if op in ("sum0", "np.sum0"):
        if dt.kind == "c" or (dt.kind == "f" and dt.itemsize > 8):
            exp = np.array([np.sum(np.array(c, dtype=dt)) for c in cols], dtype=dt)      # complex / extended precision: added in the element type itself
        else:
            exp = np.array([(int(np.sum(np.array(c, dtype=bool))) if dt.kind == "b" else (sum(int(x) for x in c) if dt.kind in "iu" else float(np.sum(np.array(c, dtype=np.float64))))) for c in cols])
        ax = axis_of(case)
        a = attempt(lambda: ra.sum(axis=ax) if op == "sum0" else (np.sum(ra, axis=ax) if j % 2 == 0 else np.sum(ra, ax)))
    elif op in ("mean0", "np.mean0"):
        ax = axis_of(case)
        if dt.kind == "c" or (dt.kind == "f" and dt.itemsize > 8):
            exp = np.array([np.mean(np.array(c, dtype=dt)) for c in cols], dtype=dt)
        else:
            exp = np.array([float(np.mean(np.array(c, dtype=np.float64))) for c in cols])
        a = attempt(lambda: ra.mean(axis=ax) if op == "mean0" else (np.mean(ra, axis=ax) if j % 2 == 0 else np.mean(ra, ax)))
    elif op == "col_counts":
        exp = np.array([len(c) for c in cols])
        a = attempt(lambda: ra.col_counts())
    else:
        exp = np.array(cols[j], dtype=dt)
        tags.append("getcol:last" if j == M - 1 else ("getcol:0" if j == 0 else "getcol:mid"))
        jt = case.get("jtype")
        jj = j if not jt else np.dtype(jt).type(j)           # the column number as a numpy integer of a type that can hold it (possibly exactly its largest value)
        if jt:
            tags.append("getcol:numpy-integer")
        a = attempt(lambda: ra.get_column_values(jj))
    if case.get("axisform", "int") != "int" and op not in ("col_counts", "getcol"):
        tags.append("axis:numpy-integer")
    if case.get("vclass") == "nonfinite":
        tags.append("v:nonfinite")
    CTX.tick("c09:compare")
    if not a.ok:
        return violated("%s raised %s: %s" % (desc, type(a.exc).__name__, a.exc), tags, got=repr(a))
    g = a.value
    if not isinstance(g, np.ndarray) or g.ndim != 1:
        return violated("%s returned %s" % (desc, short(g)), tags)
    if g.shape != exp.shape:
        return violated("%s has %d entries, expected %d (longest row)" % (desc, len(g), len(exp)), tags, got=g, expected=exp)
    if (dt.kind == "c" or (dt.kind == "f" and dt.itemsize > 8)) and op != "getcol" and op != "col_counts":
        wide_ = np.clongdouble if dt.kind == "c" else np.longdouble
        ok = same_dtype(g.dtype, dt) and bool(np.allclose(g.astype(wide_), exp.astype(wide_), rtol=1e-6 if dt.itemsize == 8 and dt.kind == "c" else 1e-12, atol=0, equal_nan=True))
        if ok and case.get("exact") and op.endswith("sum0"):
            # the cells and every partial total are exactly representable in the element type: the totals are exact, whatever the order of addition
            ok = bool(np.array_equal(g.astype(wide_), exp.astype(wide_)))
            tags.append("exact-in-extended-precision")
    elif case.get("vclass") == "bigfloat" and op.endswith("mean0"):
        # the element type can hold every element and every column mean, but not the column total: the mean must still be finite
        ok = bool(np.all(np.isfinite(g.astype(np.float64)))) and np.allclose(g.astype(np.float64), exp, rtol=1e-3 if dt.itemsize == 2 else 1e-6, atol=0)
    elif case.get("vclass") == "bigfloat" and op != "getcol" and op != "col_counts":
        ok = np.allclose(g.astype(np.float64), exp.astype(np.float64), rtol=1e-6, atol=0)
    elif op.endswith("mean0") and g.dtype.kind == "f" and g.dtype.itemsize == 2:
        # the mean comes back in the half-precision element type: the exact column mean rounded to that type, give or take one unit in the last place
        with np.errstate(all="ignore"):
            e16 = exp.astype(g.dtype)
            ok = bool(np.all((np.abs(g.astype(np.float64) - e16.astype(np.float64)) <= np.spacing(np.abs(e16)).astype(np.float64)) | (np.isnan(g) & np.isnan(e16)) | (g == e16)))
    elif op.endswith("mean0"):
        ok = np.allclose(g.astype(np.float64), exp, rtol=1e-6 if dt == np.float32 else 1e-12, atol=0, equal_nan=True)
    elif op == "getcol":
        ok = same_array(g, exp, dtype=True)
    elif case.get("vclass") == "huge":
        # sums beyond 2**53 cannot be exact in the float64 the library returns: bound the error relative to the exact integer sums
        ex = [sum(int(x) for x in c) for c in cols]
        mag = [sum(abs(int(x)) for x in c) for c in cols]
        ok = all(abs(float(gv) - float(e)) <= 1e-9 * max(1.0, float(m)) for gv, e, m in zip(g.tolist(), ex, mag))
    elif case.get("vclass") == "nonfinite":
        ok = np.array_equal(g.astype(np.float64), exp.astype(np.float64), equal_nan=True)
    else:
        ok = bool(np.all(g.astype(np.float64) == exp.astype(np.float64))) and all(float(x) == float(y) for x, y in zip(g.tolist(), exp.tolist()))
    if not ok:
        return violated("%s gives %s, the rows that reach each column give %s" % (desc, short(g, 200), short(exp, 200)), tags, got=g, expected=exp)
    if not lists_same(peek(ra), before):
        return violated("%s modified its operand" % desc, tags)
    # the result belongs to the caller: overwriting it must not change what the array (or an array derived from it) answers next time
    CTX.tick("c09:result-independent")
    first = np.array(g, copy=True)
    if g.flags.writeable and g.size:
        g[...] = np.array(7, dtype=g.dtype) if g.dtype.kind != "b" else True
        again = attempt({"sum0": lambda: ra.sum(axis=0), "np.sum0": lambda: np.sum(ra, axis=0), "mean0": lambda: ra.mean(axis=0), "np.mean0": lambda: np.mean(ra, axis=0),
                         "col_counts": lambda: ra.col_counts(), "getcol": lambda: ra.get_column_values(j)}[op])
        if not again.ok or not same_array(np.asarray(again.value), first, dtype=True):
            return violated("%s: after the caller overwrote the returned array, the same call gives %s, before %s" % (desc, repr(again) if not again.ok else short(again.value, 160), short(first, 160)), tags + ["result-aliased"])
        if op in ("col_counts", "mean0", "np.mean0") and dt.kind != "b":
            derived = attempt(lambda: np.positive(ra).col_counts())
            if not derived.ok or np.asarray(derived.value).tolist() != [len(c) for c in cols]:
                return violated("%s: after the caller overwrote the returned array, col_counts() of an array derived from it gives %s, expected %s" % (desc, repr(derived) if not derived.ok else short(derived.value, 160), [len(c) for c in cols]), tags + ["result-aliased"])
    return held(tags, n >= 2 and len(set(lens)) >= 2)


CONST_CAP_CELLS = 1 << 25       # sizes taken from the constants of the source (rtmon/codeconst.py): up to 2**25 cells, given by a formula


def run_big(case):
    """millions of cells in a handful of rows, values given by a formula; the per-column oracle adds the rows one after the other (vectorised)"""
    RA = CTX.lib.RaggedArray
    dt, op, lens = np.dtype(case["dtype"]), case["op"], case["lens"]
    tot = sum(lens)
    tags = ["op:" + op, "kind:" + dt.kind, "big-formula"]
    idx = np.arange(tot, dtype=np.int64)
    flat = ((idx * 7 + idx // 11) % 3 == 0) if dt.kind == "b" else ((idx * 7 + idx // 11) % 5).astype(dt)
    ra = RA(flat.copy(), list(lens))
    M = max(lens)
    tsum, cnt = np.zeros(M, dtype=np.float64 if dt.kind == "f" else np.int64), np.zeros(M, dtype=np.int64)
    off = 0
    for l in lens:
        tsum[:l] += flat[off:off + l]
        cnt[:l] += 1
        off += l
    f = {"sum0": lambda: ra.sum(axis=0), "np.sum0": lambda: np.sum(ra, axis=0), "mean0": lambda: ra.mean(axis=0), "col_counts": lambda: ra.col_counts()}[op]
    exp = tsum if op.endswith("sum0") else (cnt if op == "col_counts" else tsum / cnt)
    CTX.tick("c09:compare")
    a = attempt(f)
    desc = "%s of %d %s cells in rows of lengths %s" % (op, tot, dt, short(lens, 80))
    if not a.ok:
        return violated("%s raised %s: %s" % (desc, type(a.exc).__name__, a.exc), tags)
    g = np.asarray(a.value)
    if g.shape != exp.shape:
        return violated("%s has %s entries, expected %d" % (desc, g.shape, M), tags)
    bad = np.flatnonzero(~np.isclose(g.astype(np.float64), exp.astype(np.float64), rtol=1e-12, atol=0))
    if len(bad):
        return violated("%s differs from the rows that reach each column in %d columns, first at column %d: %s, expected %s" % (desc, len(bad), bad[0], g[bad[0]], exp[bad[0]]), tags)
    if not np.array_equal(ra.ravel(), flat):
        return violated("%s modified its operand" % desc, tags)
    return held(tags, True)


def const_case(rng, tier, s, form):
    """sizes taken from the numeric constants of the source: beyond 300000 cells as formula-given arrays of a few long rows"""
    if s > 300000:
        if form not in ("cells", "rowlen"):
            return None
        gen.FORCED["used"] += 1
        k = rng.randint(2, 7)
        if form == "cells":
            cuts = sorted(rng.randint(0, s) for _ in range(k - 1))
            lens = [b - a for a, b in zip([0] + cuts, cuts + [s])]
        else:
            lens = [rng.randint(1, 1000) for _ in range(k - 1)]
            lens.insert(rng.randrange(k), s)
        return [{"big": True, "lens": lens, "dtype": d_, "op": o_} for d_, o_ in (("bool", "sum0"), ("int32", "np.sum0"), ("float64", "mean0"), ("uint8", "col_counts"), ("int64", "sum0"))]
    from ..codeconst import CAPACITY
    if (gen.FORCED.get("novel") or any(abs(s - c_) <= 1 for c_ in CAPACITY)) and form in ("rowlen", "cells", "rows"):
        # a size the harness has not seen before, or one next to the capacity of a narrow integer type: every kind of column aggregate on boolean,
        # narrow and wide elements (one case each) instead of one random case
        out = []
        for k, (d_, o_) in enumerate((("bool", "sum0"), ("bool", "mean0"), ("uint8", "np.sum0"), ("int64", "sum0"), ("float32", "mean0"), ("int16", "col_counts"), ("bool", "getcol"), ("float64", "np.mean0"))):
            gen.FORCED["used"] = 0
            lens, _ = gen.length_vector(rng, tier)
            if not sum(lens):
                continue
            out.append(gen_case(rng, lens, d_, o_, vclass="small", j=(max(lens) - 1) if k % 2 else 0))
        return out or None
    c = random_case(rng, tier)
    return c if gen.FORCED["used"] else None


def axis_of(case):
    """axis 0 as a python int or as a numpy integer of some type (what indexing an np.arange or a shape tuple hands out)"""
    f = case.get("axisform", "int")
    return 0 if f == "int" else np.dtype(f).type(0)


# ----------------------------------------------------------------------------- workloads

def _vals(rng, dtype, n, vclass):
    dt = np.dtype(dtype)
    if vclass == "bigfloat" and dt.kind == "f":
        top = 3e4 if dt.itemsize == 2 else (2.5e38 if dt.itemsize == 4 else 1e300)
        return [rng.choice([top, top / 2, top / 4, 1.0]) for _ in range(n)]
    if vclass == "nonfinite" and dt.kind == "f":
        return gen.values(rng, dtype, n, "nonfinite").tolist()
    if vclass == "mostlyzero":
        # fewer than one cell in sixteen is non-zero (sparse shortcuts), zeros at the ends of the long rows
        out = [0] * n
        for _ in range(max(1, n // 40)):
            out[rng.randrange(max(1, n // 2))] = rng.choice([1, 2, 5])
        return np.array(out).astype(dt).tolist()
    if vclass == "huge":
        if dt.kind in "iu" and dt.itemsize == 8:
            ii = np.iinfo(dt)
            return [rng.choice([int(ii.max), int(ii.max) - 5, int(ii.max) // 2 + 3, 7, 0] + ([int(ii.min), -3] if dt.kind == "i" else [2 ** 63, 2 ** 63 + 11])) for _ in range(n)]
        vclass = "medium"
    if vclass == "medium" and dt.kind in "iu" and dt.itemsize == 8:
        lo = 0 if dt.kind == "u" else -2 ** 40
        return [rng.randint(lo, 2 ** 40) for _ in range(n)]
    if vclass == "medium" and dt.kind in "iu":
        return gen.values(rng, dtype, n, "extreme").tolist()
    return gen.values(rng, dtype, n, "small").tolist()


def gen_case(rng, lens, dtype, op=None, recv="fresh", vclass="small", j=None):
    op = op or rng.choice(OPS)
    M = max(lens) if lens else 0
    if j is None:
        j = rng.randint(0, max(0, M - 1))
    if vclass == "huge" and (op not in ("sum0", "np.sum0") or np.dtype(dtype).name not in ("int64", "uint64")):
        vclass = "medium"
    if vclass in ("bigfloat", "nonfinite") and np.dtype(dtype).kind != "f":
        vclass = "small"
    if np.dtype(dtype).name in [np.dtype(d_).name for d_ in gen.DT_EXOTIC] and vclass in ("bigfloat", "nonfinite", "huge", "medium"):
        vclass = "small"        # (complex / extended-precision columns: exactly summable values; whether inf + -inf inside a column raises an 'invalid' event depends on numpy's loop for the type)
    c = mk_case(lens, dtype, _vals(rng, dtype, sum(lens), vclass), op, j, recv, vclass)
    if rng.random() < 0.25 and vclass == "small":
        c["rewrite"] = {"how": rng.choice(["ravel", "row", "iterrow", "cell"]), "pos": rng.randrange(10 ** 6), "val": rng.choice([0, 1, 3, 7])}
    if op == "getcol" and rng.random() < 0.4:
        fits = [d for d in gen.NP_INTS if j <= np.iinfo(d).max]
        c["jtype"] = rng.choice(fits)
    if rng.random() < 0.3:
        c["axisform"] = rng.choice(["int64", "intp", "uint8", "int8", "int32"])
    return c


def directed():
    import random
    rng = random.Random(909)
    for c in big_cases():
        yield c
    for lens_ in ([12, 3, 0, 9, 5], [1, 30], [6, 6, 6, 6], [20, 0, 0, 1]):
        for dtype_ in ("int64", "float64", "uint8", "bool"):
            for op_ in ("sum0", "np.sum0", "mean0", "np.mean0"):
                yield gen_case(rng, lens_, dtype_, op_, vclass="mostlyzero")
    # the column number is exactly the largest value of its (narrow) integer type, in arrays with longer and shorter rows
    for jt_, jmax in (("int8", 127), ("uint8", 255), ("int8", 126), ("uint8", 254)):
        lens_ = [jmax + 3, 2, jmax + 1, 0, jmax]
        c = mk_case(lens_, "int32", [(i * 7) % 50 for i in range(sum(lens_))], "getcol", jmax, "fresh", "small")
        c["jtype"] = jt_
        yield c
    # complex elements with one infinite or undefined part in a single cell (no opposite infinity in the same column): only that part of that column's total is affected
    for dtype_ in ("complex128", "complex64"):
        for lens_ in ([2, 0, 3, 1], [3, 3], [1, 4, 2]):
            tot_ = sum(lens_)
            for bad_ in (complex(2.5, float("inf")), complex(float("inf"), 1.0), complex(float("nan"), 2.0), complex(1.0, float("nan"))):
                for pos_ in (0, tot_ - 1, tot_ // 2):
                    vals_ = [complex(1 + (i * 3) % 5, (i * 2) % 3) for i in range(tot_)]
                    vals_[pos_] = bad_
                    for op_ in ("sum0", "mean0", "np.sum0"):
                        yield mk_case(lens_, dtype_, vals_, op_, 0, "fresh", "small")
    for lens_ in ([3, 1, 3], [2, 0, 4, 1], [1, 1, 1, 1], [5, 2]):
        for k_ in range(3):
            vals_ = [[0, 2, 1, 255, 0, 7, 128, 3][(i * (k_ + 1) + k_) % 8] for i in range(sum(lens_))]
            for op_ in ("sum0", "np.sum0", "mean0", "col_counts", "getcol"):
                for recv_ in ("fresh", "lazyrows"):
                    yield dict(mk_case(lens_, "bool", vals_, op_, 0, recv_, "small"), boolbytes=True)
    # rectangular contents built from a matrix, copied, written, asked again (bool / integer cells)
    for lens_ in ([3, 3, 3, 3], [2, 2], [4, 4, 4]):
        tot_ = sum(lens_)
        for dtype_ in ("int64", "bool", "uint8"):
            vals_ = [(i * 3) % 5 for i in range(tot_)] if dtype_ != "bool" else [i % 3 == 0 for i in range(tot_)]
            for op_ in ("sum0", "np.sum0", "mean0", "col_counts", "getcol"):
                for how_ in ("ravel", "row", "cell"):
                    for recv_ in ("fromnumpy-copied", "fromnumpy", "pickle"):
                        yield dict(mk_case(lens_, dtype_, vals_, op_, 1, recv_, "small"), rewrite={"how": how_, "pos": 7 + len(lens_), "val": 1 if dtype_ == "bool" else 9})
    # extended precision: every cell is an exact double, the column totals are not (2**60 next to 1, 2**63 next to 3)
    for lens_ in ([2, 1, 2], [1, 1, 1, 1], [3, 0, 3]):
        tot_ = sum(lens_)
        for big_ in (2.0 ** 60, 2.0 ** 63, -2.0 ** 62):
            vals_ = [big_ if i % 3 == 0 else float(1 + i % 4) for i in range(tot_)]
            for op_ in ("sum0", "np.sum0", "mean0"):
                yield dict(mk_case(lens_, "longdouble", vals_, op_, 0, "fresh", "small"), exact=True)
    # complex and extended-precision elements
    for dtype_ in gen.DT_EXOTIC:
        for lens_ in ([2, 0, 3, 1], [4], [1, 5, 0, 2]):
            for op_ in OPS:
                yield gen_case(rng, lens_, dtype_, op_)
    # tall: thousands of rows reach a column -- more than a narrow or low-precision element type can count exactly (float16: 2048, int8: 127)
    for nrows in (2051, 4100, 70001):
        lens_ = [(2 if i % 3 else 1) for i in range(nrows)]
        lens_[5] = 0
        tot_ = sum(lens_)
        for dtype_ in ("float16", "float32", "int8", "uint8", "bool", "int64"):
            k_ = np.dtype(dtype_).kind
            vals_ = [v_ for l_ in lens_ for v_ in (1.75, 0.5)[:l_]] if k_ == "f" else ([i % 3 == 0 for i in range(tot_)] if k_ == "b" else [(i * 7) % 5 for i in range(tot_)])
            for op_ in ("mean0", "sum0", "col_counts", "np.mean0"):
                if nrows > 5000 and (op_, dtype_) not in (("mean0", "float16"), ("sum0", "bool"), ("col_counts", "int8"), ("np.mean0", "float32"), ("sum0", "int64")):
                    continue
                yield mk_case(lens_, dtype_, vals_, op_, 0, "fresh", "small")
    # wide: a few rows of hundreds / thousands of cells (mean row length beyond 300), also with 64-bit values whose column totals leave the 64-bit range
    for lens_ in ([301, 302, 350], [6001, 5003], [400, 0, 350, 500], [1000, 1000]):
        for dtype_ in ("int64", "uint64", "float64", "int32", "bool"):
            for vclass_ in ("huge", "medium", "small"):
                for op_ in ("sum0", "mean0", "np.sum0", "col_counts"):
                    yield gen_case(rng, lens_, dtype_, op_, vclass=vclass_)
    shapes = [[1], [3], [0, 2, 3], [2, 3, 0], [2, 0, 3], [2, 0, 0, 3], [1, 0, 0], [0, 0, 4], [5, 0, 1, 1], [2, 0, 3, 4], [0, 0, 3, 2], [1, 12], [12, 0, 1, 1], [3, 3, 3], [4, 3, 2, 1], [1, 2, 3, 4]]
    for lens in shapes:
        for dtype in ["int64", "bool", "uint8", "float64", "int8", "uint64", "float32"]:
            for op in OPS[:-1]:
                yield gen_case(rng, lens, dtype, op)
                yield gen_case(rng, lens, dtype, op, vclass="medium")
                yield gen_case(rng, lens, dtype, op, vclass="huge")
                yield gen_case(rng, lens, dtype, op, vclass="bigfloat")
                yield gen_case(rng, lens, dtype, op, vclass="nonfinite")
            for j in range(max(lens)):
                yield gen_case(rng, lens, dtype, "getcol", j=j)
        for recv in c02.RECVS[1:]:
            for op in OPS:
                yield gen_case(rng, lens, "int64", op, recv)
            for j in range(max(lens)):
                yield gen_case(rng, lens, "int16", "getcol", recv, j=j)


def big_cases():
    """element counts exactly on / next to a multiple of 65536 (block sizes), a few hundred rows"""
    import random
    rng = random.Random(9090)
    for total in (65536, 131072, 65535, 65537):
        lens = []
        while sum(lens) < total:
            lens.append(min(rng.choice([0, 100, 255, 256, 257, 300, 512]), total - sum(lens)))
        for dtype, op in (("int32", "sum0"), ("bool", "np.sum0"), ("float64", "mean0")):
            vals = [(i * 7 + 3) % 11 for i in range(total)] if dtype != "bool" else [i % 3 == 0 for i in range(total)]
            yield mk_case(lens, dtype, vals, op, 0, "fresh", "small")


def random_case(rng, tier):
    for _ in range(10):
        lens, _ = gen.length_vector(rng, tier, maxlen=rng.choice([3, 6, 14]))
        if sum(lens):
            break
    else:
        lens = [1, 0, 2]
    dtype = rng.choice(gen.DT_ALL) if rng.random() < 0.9 else rng.choice(gen.DT_EXOTIC)
    recv = rng.choice(c02.RECVS) if rng.random() < 0.4 else "fresh"
    return gen_case(rng, lens, dtype, None, recv, rng.choice(["small", "medium", "huge", "bigfloat", "nonfinite", "mostlyzero"]))


def classify(case, res):
    if case["op"] in ("sum0", "np.sum0", "mean0", "np.mean0") and case.get("recv", "fresh") != "fresh":
        return "F06b"
    if case["op"] == "getcol" and case.get("recv", "fresh") in ("lazycols+2", "lazycols-1", "lazychain"):
        return "F06f"
    return None
