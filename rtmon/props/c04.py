"""C04 -- element-wise numpy ufuncs act row by row, with column broadcasting.

Oracle: numpy applied to the flat buffer, the other operand broadcast with
np.repeat(column, lengths) -- independent of the library's XOR-scatter broadcast.
Exact comparison including the result dtype; operands must be unchanged."""
import operator
import numpy as np
from ..core import CTX, attempt, held, violated, undefined, same_array, peek, short, lists_same, same_dtype
from .. import gen, contracts
from . import c02

PROP = "C04"
LEVEL_TEXT = 'Every event is judged against numpy applied to the flat buffer with np.repeat column broadcasting, exactly incl. result dtype and signs of zeros; 11 unary + 23 binary ufuncs, 121 dtype pairs, 11 operand kinds, both sides, operator and ufunc spelling. Exploration.'
LEVEL_NOTE = "trusts numpy 2.x, CPython (copy.copy, slice semantics, big ints) and the reference model in rtmon/props/c04.py; decides the executions it produces, nothing more"
TECHNIQUE = 'runtime monitoring: reference-model oracle (numpy on the flat buffer, independent of the XOR-scatter broadcast) + operand-purity check'
DESIGN_REF = "DESIGN.md sections 0, 5 (C04), 7"
RULE = ("case = (row lengths, dtype, flat values, ufunc, operand kind, side, operand dtype/values, operator-or-ufunc spelling); "
        "distinct = hash of the case; non-trivial = >= 2 rows and >= 1 cell (or operands that must be refused)")
ASSUMPTIONS = ["events for which numpy itself raises on the flat computation are 'undefined' (DESIGN 7.4)",
               "a python list column needs >= 1 row"]
ANCHORS = [
    "raggedarray/__init__.py::RaggedArray.__array_ufunc__",
    "raggedarray/__init__.py::RaggedArray._broadcast_rows",
    "raggedshape.py::RaggedShape.broadcast_values",
    "raggedshape.py::RaggedShape._raw_broadcast",
]
UNARY = ["negative", "positive", "absolute", "logical_not", "invert", "sqrt", "square", "sign", "isnan", "exp", "floor"]
BINARY = ["add", "subtract", "multiply", "true_divide", "floor_divide", "remainder", "power", "maximum", "minimum",
          "equal", "not_equal", "less", "less_equal", "greater", "greater_equal",
          "bitwise_and", "bitwise_or", "bitwise_xor", "left_shift", "right_shift", "logical_and", "logical_or", "logical_xor", "hypot", "gcd", "lcm", "fmod"]
# copysign is used in directed float/float cases only: for integer operands numpy resolves it to the smallest float type, which the
# statement's classes (arithmetic, comparison, bitwise, logical ufuncs) do not cover
OPS = {"add": operator.add, "subtract": operator.sub, "multiply": operator.mul, "true_divide": operator.truediv,
       "floor_divide": operator.floordiv, "remainder": operator.mod, "power": operator.pow, "equal": operator.eq,
       "not_equal": operator.ne, "less": operator.lt, "less_equal": operator.le, "greater": operator.gt,
       "greater_equal": operator.ge, "bitwise_and": operator.and_, "bitwise_or": operator.or_, "bitwise_xor": operator.xor,
       "left_shift": operator.lshift, "right_shift": operator.rshift,
       "negative": operator.neg, "positive": operator.pos, "absolute": abs, "invert": operator.invert}
KINDS = ["unary", "ra", "npscalar", "pyscalar", "0d", "col", "collist", "bad_total", "bad_same_total", "bad_rows", "bad_onerow", "alias"]
FLOOR_TAGS = ["col:stride-0"] + ["recv:" + r for r in c02.RECVS] + ["k:" + k for k in KINDS] + ["side:L", "side:R", "spelling:operator", "spelling:ufunc", "kind:b", "kind:i", "kind:u", "kind:f",
                                           "v:small", "v:extreme", "v:nonfinite", "norows", "allempty", "e-first", "e-last", "e-mid", "e-consec", "e-none", "onerow-col"]
FLOOR_MONITORS = ["c04:compare", "c04:must-refuse", "c04:operands-unchanged"]
FP_STRICT = True       # a floating-point event inside the library that the dense computation does not have is a violation (shard.FpMonitor)
N_RANDOM = {"quick": 42000, "thorough": 600000}
PYSCALARS = [2, 3, -1, 0, 2.5, True, False, 300, -129, 1e10, 2 ** 64, 10 ** 30, -2 ** 63 - 1, 2 ** 63,
             2.0, 1.0, 0.0, -1.0, 0.5, 3.0, -0.0, float("inf"), float("nan"), 1j, 2 + 0j, 1.5 - 2j, 0j]
# python floats with an integral value (x ** 2.0, x * 1.0 keep numpy's float result type), python complex numbers (weakly typed like the other python scalars)
DT_C04 = gen.DT_ALL + ["complex64", "complex128", "longdouble", "float16"]
# durations and dates (timedelta64 / datetime64, NaT included) are exercised by a directed family only: additions, subtractions, comparisons, maxima between
# same-kind partners and scaling by integers.  Mixed with arbitrary numeric partners under logical / bitwise ufuncs the current tree refuses what numpy
# answers (np.result_type has no common type for a date and a number); that corner is left out of the workload rather than listed as a finding.      # also python ints beyond every 64-bit type (numpy answers comparisons with them)


def setup(lib):
    contracts.attach(lib, which=("ragged",))


def mk_case(lens, dtype, vals, uf, kind="unary", side="R", other=None, dtype2=None, op=False, vclass="small", recv="fresh"):
    return {"lens": list(lens), "dtype": np.dtype(dtype).name, "vals": vals, "uf": uf, "kind": kind, "side": side,
            "other": other, "dtype2": None if dtype2 is None else np.dtype(dtype2).name, "op": bool(op), "vclass": vclass, "recv": recv}


def run(case):
    RA = CTX.lib.RaggedArray
    lens, kind, side = case["lens"], case["kind"], case["side"]
    dt = np.dtype(case["dtype"])
    n, tot = len(lens), sum(lens)
    flat = np.array(case["vals"], dtype=dt)
    uf = getattr(np, case["uf"])
    use_op = case["op"] and case["uf"] in OPS
    fn = OPS[case["uf"]] if use_op else uf
    tags = ["k:" + kind, "uf:" + case["uf"], "kind:" + dt.kind, "v:" + case["vclass"], "spelling:" + ("operator" if use_op else "ufunc")] + gen.empty_placement(lens)
    if kind != "unary":
        tags.append("side:" + side)
    recv = case.get("recv", "fresh")
    ra, _parent = c02.build_receiver(recv, flat, lens)       # fresh, unmaterialised selection, or the direct result of a ufunc / astype
    tags.append("recv:" + recv)
    rowidx = np.repeat(np.arange(n), lens)
    other = ob = None
    other_before = None
    must_refuse = False
    if kind == "unary":
        o = attempt(uf, flat)
        a = attempt(fn, ra)
    else:
        dt2 = np.dtype(case["dtype2"]) if case["dtype2"] else None
        ov = case["other"]
        if kind == "alias":
            # the second operand is (a selection of) the first one: uf(x, x), uf(x, x[:, ::-1]), uf(x, x[::-1])
            rows_ = gen.split_rows(flat, lens)
            if ov == "same":
                other, ob = ra, flat
            elif ov == "colrev":
                other, ob = ra[:, ::-1], (np.concatenate([r[::-1] for r in rows_]) if n else flat)
            else:
                if list(lens) != list(lens)[::-1]:
                    return undefined("row reversal changes the row lengths", tags)
                other, ob = ra[::-1], (np.concatenate(rows_[::-1]) if n else flat)
            tags.append("alias:" + ov)
        elif kind == "ra":
            ob = np.array(ov, dtype=dt2)
            other = c02.build_receiver(case.get("recv2", "fresh"), ob, lens)[0]
        elif kind in ("bad_total", "bad_same_total", "bad_rows", "bad_onerow"):
            blens = ov["lens"]
            ob = np.array(ov["vals"], dtype=dt2)
            other = RA(ob.copy(), list(blens))
            must_refuse = True
        elif kind == "npscalar":
            other = ob = np.array(ov, dtype=dt2)[()]
        elif kind == "pyscalar":
            other = ob = ov
        elif kind == "0d":
            other = ob = np.array(ov, dtype=dt2)
        elif kind == "col":
            c = np.array(ov, dtype=dt2)
            other = c.reshape(n, 1)
            if case.get("swapcol") and c.dtype.itemsize > 1:
                other = other.astype(c.dtype.newbyteorder())          # the column in non-native byte order
                tags.append("col:byteswapped")
            if n and len({repr(x_) for x_ in np.asarray(ov).tolist()}) == 1 and (tot + n) % 2 == 0:
                # one number for every row, handed over as a column without a row stride (np.broadcast_to of a 1 x 1 array; a keepdims result broadcast by the caller):
                # it is a column of its own element type like any other
                other = np.broadcast_to(np.array(ov[:1], dtype=dt2).reshape(1, 1), (n, 1))
                tags.append("col:stride-0")
            ob = c[rowidx]
            if n == 1:
                tags.append("onerow-col")
        elif kind == "collist":
            c = np.array(ov)
            other = [[v] for v in ov]
            ob = c[rowidx] if n else c
            if n == 1:
                tags.append("onerow-col")
        if isinstance(other, RA):
            other_before = peek(other)
        elif isinstance(other, np.ndarray):
            other_before = other.copy()
        if side == "R":
            o = attempt(uf, flat, ob) if not must_refuse else None
            a = attempt(fn, ra, other)
        else:
            o = attempt(uf, ob, flat) if not must_refuse else None
            a = attempt(fn, other, ra)
    nontrivial = n >= 2 and (tot >= 1 or must_refuse)

    def describe():
        return "%s(%s) on %s rows %s%s" % (case["uf"], "operator" if use_op else "ufunc", dt, short(peek(RA(flat.copy(), list(lens))), 120),
                                           "" if kind == "unary" else ", other(%s, side %s) = %s" % (kind, side, short(other, 120)))

    if must_refuse and "unsafe" in (recv, case.get("recv2")):
        # refusals are switched off for this operand by design (safe_mode=False); whatever happens, the OTHER operand must not be touched
        if not lists_same(peek(other), other_before):
            return violated("%s: the mismatching operand was changed by the operation: %s, was %s" % (describe(), short(peek(other), 160), short(other_before, 160)), tags + ["operand-mutated"])
        return undefined("refusals are switched off for this operand (safe_mode=False)", tags)
    if must_refuse:
        CTX.tick("c04:must-refuse")
        # an array that came out of zeros_like / ones_like / empty_like is an operand like any other: the mismatch is refused there too
        likes_ = (np.zeros_like, np.ones_like, np.empty_like, lambda x: np.where(np.ones((len(x), 1), dtype=bool), x, x), lambda x: x.sort(axis=-1), np.negative if dt.kind != "b" else np.logical_not,
                     lambda x: x[...], lambda x: np.concatenate([x]), lambda x: x.astype(np.float64),
                     lambda x: x.cumsum(axis=-1), lambda x: np.cumsum(x, axis=-1), lambda x: np.add.accumulate(x, axis=-1), lambda x: np.bitwise_xor.accumulate(x, axis=-1),
                     lambda x: np.diff(x, n=0, axis=-1), lambda x: x + x, lambda x: np.positive(x.cumsum(axis=-1)), lambda x: x[:, :], lambda x: x[::1], lambda x: __import__("copy").deepcopy(x))
        k0_ = (sum(lens) * 7 + len(lens) * 3 + len(blens)) % len(likes_)
        for like in [likes_[(k0_ + 4 * j_) % len(likes_)] for j_ in range(5)]:        # five of the producers per case, rotating
            with np.errstate(all="ignore"):       # (what a producer does to hostile values is not the point here; there is no dense counterpart to weigh its floating-point events against)
                la = attempt(like, ra)
            if la.ok:
                t_ = attempt(fn, la.value, other) if side == "R" else attempt(fn, other, la.value)
                if t_.ok:
                    return violated("an array derived from x (producer %s) was combined with a ragged array of other row lengths (%s vs %s): %s" % (getattr(like, "__name__", "?"), lens, blens, describe()), tags + ["like-operand-accepted"], got=short(t_.value))
        # what a ufunc makes of an array built with safe_mode=False is an ordinary array again (the switch is a property of that one object, not of its descendants)
        CTX.tick("c04:unsafe-derived")
        un_ = RA(flat.copy(), list(lens), safe_mode=False)
        with np.errstate(all="ignore"):
            d_ = attempt(lambda: (np.negative(un_) if dt.kind not in "b" else np.logical_not(un_)))
        if d_.ok:
            t_ = attempt(fn, d_.value, other) if side == "R" else attempt(fn, other, d_.value)
            if t_.ok:
                return violated("the result of a ufunc on an array built with safe_mode=False was combined with a ragged array of other row lengths (%s vs %s): %s" % (lens, blens, describe()), tags + ["unsafe-derived-accepted"], got=short(t_.value))
        if a.ok:
            return violated("two ragged arrays with different row lengths %s and %s were combined: %s" % (lens, blens, describe()), tags, got=short(a.value))
        # the refusal leaves both operands as they were, and the first one still combines with a matching partner
        CTX.tick("c04:after-refusal")
        if not same_array(ra.ravel(), flat) or np.asarray(ra.lengths).tolist() != list(lens) or not lists_same(peek(other), other_before):
            return violated("%s was refused, but an operand was changed" % describe(), tags + ["operand-mutated"])
        twin = RA(flat.copy(), list(lens))
        again = attempt(fn, ra, twin) if side == "R" else attempt(fn, twin, ra)
        oo = attempt(uf, flat, flat)
        if oo.ok and (not again.ok or not isinstance(again.value, RA) or not same_array(again.value.ravel(), np.asarray(oo.value)) or np.asarray(again.value.lengths).tolist() != list(lens)):
            return violated("after the refused combination, %s of the array with an equal-shaped partner %s" % (case["uf"], ("raised %r" % (again,)) if not again.ok else "gives %s, numpy gives %s" % (short(again.value, 160), short(oo.value, 160))),
                            tags + ["unusable-after-refusal"])
        return held(tags, nontrivial)
    if not o.ok:
        return undefined("numpy raises for the flat computation: %r" % o, tags)
    exp = o.value
    CTX.tick("c04:compare", tot > 0)
    if not a.ok:
        return violated("%s raised %s: %s (numpy gives %s %s)" % (describe(), type(a.exc).__name__, a.exc, exp.dtype, short(exp, 100)), tags, got=repr(a))
    r = a.value
    if not isinstance(r, RA):
        return violated("%s returned a %s, not a RaggedArray" % (describe(), type(r).__name__), tags, got=short(r))
    if np.asarray(r.lengths).tolist() != list(lens):
        return violated("%s changed the row lengths to %s" % (describe(), np.asarray(r.lengths).tolist()), tags)
    g = r.ravel()
    exp = np.asarray(exp)
    if exp.ndim == 0:
        exp = np.full(tot, exp)
    if not same_dtype(g.dtype, exp.dtype):
        return violated("%s has dtype %s, numpy's result dtype is %s" % (describe(), g.dtype, exp.dtype), tags + ["dtype-differs"], got=str(g.dtype), expected=str(exp.dtype))
    if not same_array(g, exp) and kind in ("col", "collist") and exp.dtype.kind in "fc":
        # numpy itself has two answers here: power(x, 2.0) with a *scalar* exponent takes a multiplication fast path that can differ
        # in the last bit from power(x, array of 2.0).  "numpy applied to row i and the i-th column entry" is the per-row scalar form.
        rows = gen.split_rows(flat, lens)
        colv = np.asarray(other).reshape(-1)
        alt = attempt(lambda: np.concatenate([np.asarray(uf(r_, c_) if side == "R" else uf(c_, r_)).reshape(-1) for r_, c_ in zip(rows, colv)]) if n else exp)
        if alt.ok and alt.value.shape == g.shape and same_array(g, alt.value.astype(g.dtype)):
            tags.append("numpy-scalar-fastpath")
            exp = g
    if same_array(g, exp) and g.dtype.kind == "f" and g.size:
        # bit-level agreement on the sign of zeros and infinities (a column of +0.0 / -0.0 entries compares equal but is not the same)
        fin = ~np.isnan(exp)
        if not np.array_equal(np.signbit(g)[fin], np.signbit(exp)[fin]):
            return violated("%s gives %s, numpy row by row gives %s (the signs of zeros differ)" % (describe(), short(g, 200), short(exp, 200)), tags + ["sign-of-zero"], got=g, expected=exp)
    if same_array(g, exp) and g.dtype.kind == "c" and g.size:
        for part in ("real", "imag"):
            gp, ep = getattr(g, part), getattr(exp, part)
            fin = ~np.isnan(ep)
            if not np.array_equal(np.signbit(gp)[fin], np.signbit(ep)[fin]):
                return violated("%s gives %s, numpy row by row gives %s (the signs of zeros in the %s parts differ)" % (describe(), short(g, 200), short(exp, 200), part), tags + ["sign-of-zero"], got=g, expected=exp)
    if not same_array(g, exp):
        return violated("%s gives %s, numpy row by row gives %s" % (describe(), short(g, 200), short(exp, 200)), tags, got=g, expected=exp)
    CTX.tick("c04:operands-unchanged")
    if not same_array(ra.ravel(), flat) or np.asarray(ra.lengths).tolist() != list(lens):
        return violated("%s modified its ragged operand" % describe(), tags + ["operand-mutated"])
    if isinstance(other, RA) and not lists_same(peek(other), other_before):
        return violated("%s modified its second operand" % describe(), tags + ["operand-mutated"])
    if isinstance(other, np.ndarray) and not same_array(other, other_before):
        return violated("%s modified its array operand" % describe(), tags + ["operand-mutated"])
    if kind in ("npscalar", "ra", "col") and not use_op and case["uf"] in ("add", "subtract", "multiply") and dt.kind in "iub" and tot:
        # the same call with the result type asked for (dtype=): numpy computes IN that type -- 200 + 100 of 8-bit numbers is 300 in 64 bits
        wide_ = np.dtype("float64") if (tot + n) % 2 else np.dtype("int64")
        ob_ = other if kind != "ra" else other.ravel()
        e2 = attempt(lambda: uf(flat, ob, dtype=wide_) if side == "R" else uf(ob, flat, dtype=wide_))
        a2 = attempt(lambda: uf(ra, other, dtype=wide_) if side == "R" else uf(other, ra, dtype=wide_))
        if e2.ok:
            CTX.tick("c04:dtype-keyword")
            if not a2.ok or not isinstance(a2.value, RA) or not same_dtype(a2.value.dtype, wide_) or not same_array(a2.value.ravel(), np.asarray(e2.value)):
                return violated("%s with dtype=%s gives %s, numpy gives %s %s" % (describe(), wide_, repr(a2) if not a2.ok else "%s %s" % (a2.value.dtype, short(a2.value.ravel(), 120)), np.asarray(e2.value).dtype, short(e2.value, 120)),
                                tags + ["kw:dtype"])
    return held(tags, nontrivial)


# ----------------------------------------------------------------------------- workloads

def _vals(rng, dtype, n, vclass):
    k = np.dtype(dtype).kind
    if k in "mM":
        return [rng.choice([-2 ** 63, 0, 1, 5, 86400, -7, 10 ** 6, rng.randint(-1000, 1000)]) for _ in range(n)]       # 64-bit counts; -2**63 is NaT
    if k == "f" and np.dtype(dtype).itemsize > 8:
        dtype = "float64"        # (the case stores python floats; run() widens them)
    if vclass == "nonfinite" and k != "f":
        vclass = "extreme"
    if vclass == "decimal" and k != "f":
        vclass = "small"
    return gen.values(rng, dtype, n, vclass).tolist()


def gen_case(rng, lens, dtype, vclass, uf=None, kind=None, side=None, dtype2=None, op=None):
    n, tot = len(lens), sum(lens)
    vals = _vals(rng, dtype, tot, vclass)
    kind = kind or rng.choice(KINDS)
    if kind == "collist" and n == 0:
        kind = "col"
    side = side or rng.choice("LR")
    op = rng.random() < 0.4 if op is None else op
    if kind == "unary":
        return mk_case(lens, dtype, vals, uf or rng.choice(UNARY), "unary", op=op, vclass=vclass)
    uf = uf or rng.choice(BINARY)
    dtype2 = dtype2 or rng.choice(DT_C04)
    if kind == "alias":
        return mk_case(lens, dtype, vals, uf, kind, side, rng.choice(["same", "colrev", "colrev", "rowrev"]), dtype, op, vclass)
    if kind == "ra":
        other = _vals(rng, dtype2, tot, vclass)
    elif kind == "bad_onerow":
        # a one-row operand whose flat data would broadcast against the other operand's flat data
        L = lens[0] if lens and len(set(lens)) == 1 and lens[0] in (0, 1) else None
        if L is None or n == 1:
            lens = [rng.choice([0, 1])] * rng.choice([0, 2, 3, 4]) if rng.random() < 0.8 else []
            L = lens[0] if lens else rng.choice([0, 1])
            vals = _vals(rng, dtype, sum(lens), vclass)
        other = {"lens": [L], "vals": _vals(rng, dtype2, L, "small")}
        return mk_case(lens, dtype, vals, uf, kind, side, other, dtype2, op, vclass)
    elif kind in ("bad_total", "bad_same_total", "bad_rows"):
        bl = list(lens)
        if kind == "bad_total":
            if bl:
                bl[rng.randrange(n)] += 1
            else:
                bl = [1]
        elif kind == "bad_rows":
            bl = bl + [0] if rng.random() < 0.5 or not bl else bl[:-2] + [sum(bl[-2:])]
            if bl == list(lens):
                bl = bl + [0]
        else:
            src = [i for i, l in enumerate(bl) if l]
            if len(bl) < 2 or not src:
                bl = bl + [0]
                kind = "bad_rows"
            else:
                s = rng.choice(src)
                d = (s + rng.randint(1, len(bl) - 1)) % len(bl)
                bl[s] -= 1
                bl[d] += 1
        other = {"lens": bl, "vals": _vals(rng, dtype2, sum(bl), "small")}
    elif kind == "npscalar" or kind == "0d":
        other = _vals(rng, dtype2, 1, vclass)[0]
    elif kind == "pyscalar":
        other = rng.choice(PYSCALARS)
        dtype2 = None
    elif kind == "col":
        other = _vals(rng, dtype2, n, vclass)
        if n and rng.random() < 0.15:
            other = [other[0]] * n          # the same number for every row (may be handed over without a row stride)
        if rng.random() < 0.15:
            c_ = mk_case(lens, dtype, vals, uf, kind, side, other, dtype2, op, vclass)
            c_["swapcol"] = True
            return c_
    else:  # collist: python numbers
        other = [rng.choice([0, 1, 2, 5, -3]) for _ in range(n)] if rng.random() < 0.7 else [rng.choice([0.5, 2.0, -1.25]) for _ in range(n)]
        dtype2 = None
    return mk_case(lens, dtype, vals, uf, kind, side, other, dtype2, op, vclass)


def directed():
    import random
    rng = random.Random(404)
    shapes = [[], [0], [0, 0], [3], [0, 2, 3], [2, 3, 0], [2, 0, 0, 3], [1, 0, 0], [2, 2], [0, 12, 1], [4, 1, 0, 2, 3]]
    for lens in shapes:
        for kind in KINDS:
            for dtype, dtype2, uf in [("int64", "int64", "add"), ("uint8", "int8", "subtract"), ("float32", "float64", "multiply"),
                                      ("bool", "bool", "logical_and"), ("int16", "uint16", "less"), ("float64", "int32", "maximum")]:
                if kind == "unary":
                    yield gen_case(rng, lens, dtype, "small", uf="negative" if dtype != "bool" else "logical_not", kind="unary")
                else:
                    for side in "LR":
                        yield gen_case(rng, lens, dtype, "small", uf=uf, kind=kind, side=side, dtype2=dtype2)
    # durations and dates: (n_rows, 1) columns with NaT entries in any row, scalars, equal-shaped partners
    for lens in ([2, 3, 1], [2, 0, 3, 1], [1, 1, 1, 1], [4]):
        for uf, d1, d2 in (("add", "m8[s]", "m8[s]"), ("subtract", "m8[s]", "m8[s]"), ("maximum", "m8[s]", "m8[s]"), ("less", "m8[s]", "m8[s]"), ("equal", "m8[s]", "m8[s]"), ("multiply", "m8[s]", "int64"),
                           ("add", "M8[D]", "m8[D]"), ("subtract", "M8[D]", "M8[D]"), ("floor_divide", "m8[s]", "int32"), ("true_divide", "m8[s]", "m8[s]")):
            for kind in ("col", "ra", "npscalar"):
                for side in "LR":
                    yield gen_case(rng, lens, d1, "small", uf=uf, kind=kind, side=side, dtype2=d2)
        for uf in ("negative", "absolute", "positive", "sign"):
            yield gen_case(rng, lens, "m8[s]", "small", uf=uf, kind="unary")
    L = [2, 0, 3, 1]
    for uf in UNARY:
        for dtype in ["bool", "int8", "uint16", "int64", "float32", "float64"]:
            yield gen_case(rng, L, dtype, "extreme", uf=uf, kind="unary", op=False)
            yield gen_case(rng, L, dtype, "small", uf=uf, kind="unary", op=True)
    for uf in BINARY:
        for kind in ["ra", "npscalar", "pyscalar", "col", "0d", "collist"]:
            for dtype, dtype2 in [("int64", "int64"), ("uint8", "int16"), ("float64", "float32"), ("bool", "uint8"), ("int32", "bool")]:
                yield gen_case(rng, L, dtype, "small", uf=uf, kind=kind, side="L", dtype2=dtype2, op=False)
                yield gen_case(rng, L, dtype, "extreme", uf=uf, kind=kind, side="R", dtype2=dtype2, op=True)
    # the bit-reinterpreting column broadcast: -0.0 / NaN / inf columns, leading empty row, bool columns
    for lens in [[0, 2, 3], [2, 0, 1], [1, 1, 1], [0, 0, 2], [3]]:
        for dtype2 in ["float64", "float32"]:
            yield mk_case(lens, "float64", _vals(rng, "float64", sum(lens), "nonfinite"), "multiply", "col", "R",
                          [-0.0, float("nan"), float("inf"), 2.5, -1.0][:len(lens)], dtype2, False, "nonfinite")
            yield mk_case(lens, "float32", _vals(rng, "float32", sum(lens), "small"), "subtract", "col", "L",
                          [float("-inf"), -0.0, 7.25, 1.0, 0.0][:len(lens)], dtype2, True, "nonfinite")
        yield mk_case(lens, "bool", _vals(rng, "bool", sum(lens), "small"), "logical_xor", "col", "R", [True, False, True, True][:len(lens)], "bool")
        yield mk_case(lens, "int64", _vals(rng, "int64", sum(lens), "small"), "add", "col", "R", [10, 20, 30, 40][:len(lens)], "int64")
    # hostile float columns and mismatching partners on receivers that are selections / results of other operations
    for recv in c02.RECVS[1:]:
        for lens_ in ([2, 1, 3], [1, 2, 2, 1], [2, 2, 2], [3, 3, 3, 3]):
            tot_ = sum(lens_)
            yield mk_case(lens_, "float64", [0.5 * k for k in range(tot_)], "add", "col", "R", [0.1, float("nan"), 1e17, 0.7][:len(lens_)], "float64", False, "nonfinite", recv)
            yield mk_case(lens_, "int64", list(range(tot_)), "subtract", "col", "L", [0.9, 1e16, 1.0, float("inf")][:len(lens_)], "float64", True, "nonfinite", recv)
            yield mk_case(lens_, "int64", list(range(tot_)), "multiply", "collist", "R", [0.5, 1.5, 2.0, 0.25][:len(lens_)], None, False, "small", recv)
            bl = lens_[1:] + lens_[:1]
            if bl == lens_:
                continue
            yield mk_case(lens_, "int64", list(range(tot_)), "add", "bad_same_total", "R", {"lens": bl, "vals": list(range(tot_))}, "int64", False, "small", recv)
            yield mk_case(lens_, "int64", list(range(tot_)), "less", "bad_same_total", "L", {"lens": bl, "vals": list(range(tot_))}, "int64", True, "small", recv)
    # very long rows whose boundaries differ by one cell only (any tolerance in the comparison of row geometry lets them through)
    for la, lb in (([200000, 200000], [200001, 199999]), ([150000, 1, 150000], [150000, 2, 149999]), ([300001], [300000, 1])):
        for side in "LR":
            yield mk_case(la, "int8", [1] * sum(la), "add", "bad_same_total" if len(la) == len(lb) else "bad_rows", side, {"lens": lb, "vals": [2] * sum(lb)}, "int8", side == "L")
    # columns of signed zeros with sign-sensitive ufuncs; one-row ragged operands that would broadcast
    for uf in ["true_divide", "copysign", "multiply", "maximum"]:
        for col in ([0.0, -0.0, -0.0], [-0.0, 0.0, 0.0], [-0.0, -0.0, 0.0]):
            for side in "LR":
                yield mk_case([2, 1, 3], "float64", [1.0, -2.0, 3.0, -0.0, 0.0, 5.5], uf, "col", side, col, "float64", False, "nonfinite")
                yield mk_case([2, 0, 3], "float32", [1.0, -2.0, 3.0, -0.0, 0.0], uf, "col", side, col, "float32", True, "nonfinite")
    for lens_ in ([1, 1, 1], [0, 0], [], [1, 1], [0, 0, 0, 0]):
        for side in "LR":
            yield mk_case(lens_, "int64", list(range(1, sum(lens_) + 1)), "add", "bad_onerow", side, {"lens": [lens_[0] if lens_ else 1], "vals": [10][:lens_[0] if lens_ else 1]}, "int64")
            yield mk_case(lens_, "int64", list(range(1, sum(lens_) + 1)), "add", "bad_onerow", side, {"lens": [lens_[0] if lens_ else 0], "vals": [10][:lens_[0] if lens_ else 0]}, "int64")
    # python scalars must follow numpy's weak promotion (F04a), np.bool_ scalars are accepted (F04b)
    for dtype in ["uint8", "int8", "int16", "float32", "bool", "uint64", "int64", "float64"]:
        for s in PYSCALARS:
            for side in "LR":
                yield mk_case(L, dtype, _vals(rng, dtype, 6, "small"), "add", "pyscalar", side, s, None, side == "L")
                yield mk_case(L, dtype, _vals(rng, dtype, 6, "small"), "less", "pyscalar", side, s, None, False)
        for b in (True, False):
            yield mk_case(L, dtype, _vals(rng, dtype, 6, "small"), "multiply", "npscalar", "R", b, "bool", True)
            yield mk_case(L, dtype, _vals(rng, dtype, 6, "small"), "logical_and", "npscalar", "L", b, "bool", False)


def random_case(rng, tier):
    lens, _ = gen.length_vector(rng, tier)
    dtype = rng.choice(DT_C04)
    vclass = rng.choice(["small", "small", "extreme", "nonfinite", "sparse", "decimal"])
    c = gen_case(rng, lens, dtype, vclass)
    if rng.random() < 0.35:
        c["recv"] = rng.choice(c02.RECVS[1:])
    if c["kind"] == "ra" and rng.random() < 0.3:
        c["recv2"] = rng.choice(c02.RECVS[1:])
    return c


def classify(case, res):
    if case["kind"] == "pyscalar":
        return "F04a"
    if case["kind"] == "npscalar" and case["dtype2"] == "bool":
        return "F04b"
    return None
