"""C14 -- run-length encoding is lossless and canonical.

Events: from_array -> to_array / np.asarray / len / size / shape / dtype / starts / ends / values,
and the producers that promise canonical form (slicing, arithmetic, concatenation).  The
RunLengthArray invariant (contracts.rla_canonical) is attached to *every* instance created
while a C14-C17 workload runs."""
import numpy as np
from ..core import CTX, attempt, held, violated, undefined, same_array, short, scribble, same_dtype
from .. import gen, contracts, rl

PROP = "C14"
LEVEL_TEXT = 'Round trip and canonical-form check (boundaries strict, joined where promised) for every producer, exhaustive over all arrays of length <=5 (quick) / <=7 (thorough) over three symbols, all dtypes incl. float16 and non-finite values; icontract invariant on every RunLengthArray instance created by any C14-C17 workload. Exploration.'
LEVEL_NOTE = "trusts numpy 2.x, CPython (copy.copy, slice semantics, big ints) and the reference model in rtmon/props/c14.py; decides the executions it produces, nothing more"
TECHNIQUE = 'runtime monitoring: icontract class invariant on RunLengthArray + canonical-form oracle + exhaustive small-scope sweep'
DESIGN_REF = "DESIGN.md sections 0, 5 (C14), 7"
RULE = ("case = (dtype, 1-D values with a named run pattern, producer: encode | slice | binary ufunc on two encoded arrays | unary | scalar | concatenate); "
        "distinct = hash of the case; non-trivial = length >= 2 and >= 2 runs or a run of length >= 2")
ASSUMPTIONS = ["'equal' is numpy's ==: -0.0 and 0.0 may share a run; NaN never equals NaN, so every NaN is a run of its own"]
ANCHORS = ["runlengtharray.py::RunLengthArray.from_array", "runlengtharray.py::RunLengthArray.to_array", "runlengtharray.py::RunLengthArray.__init__",
           "runlengtharray.py::RunLengthArray.remove_empty_intervals", "runlengtharray.py::RunLengthArray.join_runs",
           "util.py::unsafe_extend_left", "util.py::unsafe_extend_right", "runlengtharray.py::RunLengthArray.__array__"]
KINDS = ["encode", "slice", "ufunc2", "ufunc2_derived", "unary", "scalar", "concat", "slice_derived", "ufunc2_inplace", "slice_inplace"]
FLOOR_TAGS = ["k:" + k for k in KINDS] + ["style:" + s for s in rl.STYLES] + ["kind:b", "kind:i", "kind:u", "kind:f", "dt:float16", "v:nonfinite", "slice:stepped", "slice:unit",
                                                                              "adjacent-inf", "adjacent-nan"]
FLOOR_MONITORS = ["c14:roundtrip", "c14:canonical", "c14:joined", "c14:decode-independent", "inv:rla"]
FP_STRICT = True       # a floating-point event inside the library that the dense computation does not have is a violation (shard.FpMonitor)
N_RANDOM = {"quick": 30000, "thorough": 400000}
UF2 = ["add", "subtract", "multiply", "maximum", "minimum", "equal", "less", "logical_or", "logical_and", "bitwise_xor", "not_equal"]


def setup(lib):
    contracts.attach(lib, which=("rla", "ragged"))


def mk_case(dtype, vals, kind="encode", **kw):
    c = {"dtype": dtype, "vals": vals, "kind": kind}
    c.update(kw)
    return c


CONST_CAP_CELLS = 1 << 27      # sizes taken from the constants of the source (rtmon/codeconst.py): arrays of up to 2**27 one-byte elements, given by a formula


def run_big(case):
    """an array of millions of elements given as a short list of (run length, value) pairs, or as `alt` alternating runs; vectorised oracle"""
    RLA = CTX.lib.RunLengthArray
    dt = np.dtype(case["dtype"])
    tags = ["k:bigencode", "kind:" + dt.kind, "dt:" + dt.name]
    if "alt" in case:
        n_ = case["alt"]
        vals = np.tile(np.array(case["pair"], dtype=dt), n_ // 2 + 1)[:n_]
        lens = np.ones(n_, dtype=np.int64)
        lens[::7] = 2
    else:
        lens = np.array([l for l, _ in case["runs"]], dtype=np.int64)
        vals = np.array([x for _, x in case["runs"]], dtype=dt)
    v = np.repeat(vals, lens)
    L = len(v)
    desc = "RunLengthArray.from_array(%s array of %d elements, runs %s)" % (dt, L, short(case.get("runs", "alternating"), 120))
    e = attempt(RLA.from_array, v)
    if not e.ok:
        return violated("%s raised %r" % (desc, e), tags)
    r = e.value
    keep = np.r_[True, vals[1:] != vals[:-1]]
    ends_all = np.cumsum(lens)
    starts_all = ends_all - lens
    exp_starts = starts_all[keep]
    exp_ends = np.r_[exp_starts[1:], L]
    exp_vals = vals[keep]
    CTX.tick("c14:canonical")
    CTX.tick("c14:joined")
    got = attempt(lambda: (np.asarray(r.starts), np.asarray(r.ends), np.asarray(r.values), int(len(r))))
    if not got.ok:
        return violated("%s: starts/ends/values unreadable: %r" % (desc, got), tags)
    gs, ge, gv, gl = got.value
    if gl != L or not np.array_equal(gs, exp_starts) or not np.array_equal(ge, exp_ends) or not same_array(gv, exp_vals, dtype=True):
        m_ = min(len(gs), len(exp_starts))
        diff_ = np.flatnonzero(gs[:m_] != exp_starts[:m_])
        k = int(diff_[0]) if len(diff_) else m_
        return violated("%s: %d runs (expected %d), len %d (expected %d); run starts around run %d: %s, expected %s" % (desc, len(gs), len(exp_starts), gl, L, k, gs[max(0, k - 1):k + 2].tolist(), exp_starts[max(0, k - 1):k + 2].tolist()),
                        tags + ["not-canonical"])
    CTX.tick("c14:roundtrip")
    d = attempt(lambda: np.asarray(r.to_array()))
    if not d.ok or d.value.shape != v.shape or not same_array(d.value, v, dtype=True):
        k = int(np.flatnonzero(d.value != v)[0]) if d.ok and d.value.shape == v.shape else -1
        return violated("%s: decoding differs from the input%s" % (desc, " first at position %d" % k if k >= 0 else ": %r" % (d,)), tags)
    return held(tags, True)


def big_cases(rng, s, form, dtype=None):
    dtype = dtype or rng.choice(["int8", "uint8", "bool"])
    a, b = (True, False) if dtype == "bool" else rng.sample([0, 1, 5, 100], 2)
    if form in ("rows", "nonempty"):
        return [{"kind": "bigencode", "dtype": dtype, "alt": s, "pair": [a, b]}] if s <= 1 << 23 else None
    if form == "cells":
        return [{"kind": "bigencode", "dtype": dtype, "runs": rr} for rr in ([[s - 5, a], [5, b]], [[3, a], [s - 3, b]], [[s // 2, a], [s - s // 2, b]])]
    return [{"kind": "bigencode", "dtype": dtype, "runs": rr} for rr in ([[s, a], [3, b], [2, a]], [[2, b], [s, a], [5, b]], [[s - 1, a], [1, b], [4, a]], [[s, a], [s, b]])]


def const_case(rng, tier, s, form):
    """sizes taken from the numeric constants of the source: up to 300000 through the case generator's first size (explicit values), beyond that
    as formula-given arrays (one run of exactly s elements, s elements in all, s runs)"""
    if s > 300000:
        gen.FORCED["used"] += 1
        return big_cases(rng, s, form)
    c = random_case(rng, tier)
    return c if gen.FORCED["used"] else None


def run(case):
    if case.get("kind") == "bigencode":
        return run_big(case)
    if case.get("kind") == "labels":
        return rl.run_labels(case, "encode")
    RLA = CTX.lib.RunLengthArray
    dt = np.dtype(case["dtype"])
    v = np.array(case["vals"]).astype(dt)
    if case.get("swap") and dt.kind in "iu" and dt.itemsize > 1:
        v = v.astype(dt.newbyteorder())          # the same values in non-native byte order (what reading a big-endian file gives)
        tags_swap = ["byteswapped"]
    else:
        tags_swap = []
    L = len(v)
    kind = case["kind"]
    tags = ["k:" + kind, "kind:" + dt.kind, "dt:" + dt.name, "style:" + case.get("style", "?"), "v:" + case.get("vclass", "small")] + tags_swap
    if dt.kind == "f" and L > 1:
        if np.any(np.isinf(v[1:]) & (v[1:] == v[:-1])):
            tags.append("adjacent-inf")
        if np.any(np.isnan(v[1:]) & np.isnan(v[:-1])):
            tags.append("adjacent-nan")
    nontrivial = L >= 2
    src_ = v.copy()
    e = attempt(RLA.from_array, src_)
    desc = "RunLengthArray.from_array(%s %s)" % (dt, short(v, 160))
    if not e.ok:
        return violated("%s raised %r" % (desc, e), tags)
    r = e.value
    scribble(src_)              # the caller reuses the array he encoded: the encoding is a snapshot
    # ---- lossless
    CTX.tick("c14:roundtrip")
    for what, f in (("to_array()", lambda: r.to_array()), ("np.asarray()", lambda: np.asarray(r))):
        o = attempt(f)
        if not o.ok:
            return violated("%s.%s raised %r" % (desc, what, o), tags)
        if not (isinstance(o.value, np.ndarray) and same_array(o.value, v, dtype=True)):
            return violated("%s.%s gives %s %s" % (desc, what, getattr(o.value, "dtype", None), short(o.value, 160)), tags, got=o.value, expected=v)
    # numpy's array conversion in its other spellings, and Python's own protocols (iteration, reversed, membership)
    import warnings as _w
    with _w.catch_warnings():
        _w.simplefilter("ignore")
        f64 = (v.astype(np.complex128 if dt != np.complex128 else np.complex64) if dt.kind == "c" else
               (v.astype(np.float64) if dt.kind != "f" else v.astype(np.float32 if dt != np.float32 else np.float64)))
    def conversions(r):
        convs = [("np.array(copy=True)", lambda: np.array(r, copy=True), v), ("np.array(dtype=%s)" % f64.dtype, lambda: np.array(r, dtype=f64.dtype), f64),
                 ("np.asarray(dtype=own)", lambda: np.asarray(r, dtype=dt), v)]
        # conversions across kinds (float -> int, signed -> unsigned, anything -> bool) are what numpy's own astype gives (finite values only)
        if dt.kind == "c":
            convs.append(("np.asarray(dtype=complex128)", lambda: np.asarray(r, dtype=np.complex128), v.astype(np.complex128)))      # (casts that drop the imaginary parts are left out)
        elif dt.kind != "f" or bool(np.all(np.isfinite(v))):
            for tgt in (["int64", "uint8", "bool", "int8"] if dt.kind == "f" else ["uint8", "bool", "uint64", "int16"]):
                with _w.catch_warnings():
                    _w.simplefilter("ignore")
                    with np.errstate(all="ignore"):
                        want_ = np.asarray(v).astype(tgt)
                if dt.kind == "f" and tgt != "bool" and not np.array_equal(want_.astype(np.float64), np.trunc(v.astype(np.float64))):
                    continue      # out-of-range float -> int casts are undefined in C; only in-range values are compared
                convs.append(("np.asarray(dtype=%s)" % tgt, (lambda t_: (lambda: np.asarray(r, dtype=t_)))(tgt), want_))
        if L <= 40:
            convs += [("list()", lambda: np.array(list(r), dtype=dt), v), ("reversed()", lambda: np.array(list(reversed(r)), dtype=dt), v[::-1])]
        return convs
    convs = conversions(r)
    for what, f, want in convs:
        o = attempt(f)
        if not o.ok:
            return violated("%s: %s raised %r" % (desc, what, o), tags + ["conversion"])
        if not (isinstance(o.value, np.ndarray) and same_array(o.value, want, dtype=True)):
            return violated("%s: %s gives %s %s, expected %s %s" % (desc, what, getattr(o.value, "dtype", None), short(o.value, 120), want.dtype, short(want, 120)), tags + ["conversion"], got=o.value, expected=want)
    # the order of conversions must not matter: on a second, fresh encoding of the same data one of the typed conversions comes FIRST, the
    # plain ones (np.asarray, np.array, to_array) after it -- what the first request leaves behind on the object must not show in the later ones
    r2 = attempt(RLA.from_array, v.copy())
    if r2.ok:
        c2 = conversions(r2.value)
        k_ = (L + int(np.asarray(v != v[0]).sum())) % len(c2)
        CTX.tick("c14:conversion-order")
        for what, f, want in [c2[k_], ("np.asarray() after " + c2[k_][0], lambda: np.asarray(r2.value), v), ("np.array() after " + c2[k_][0], lambda: np.array(r2.value), v),
                              ("to_array() after " + c2[k_][0], lambda: r2.value.to_array(), v), c2[(k_ + 1) % len(c2)]]:
            o = attempt(f)
            if not o.ok:
                return violated("%s: %s raised %r" % (desc, what, o), tags + ["conversion", "conversion-order"])
            if not (isinstance(o.value, np.ndarray) and same_array(o.value, want, dtype=True)):
                return violated("%s: %s gives %s %s, expected %s %s" % (desc, what, getattr(o.value, "dtype", None), short(o.value, 120), want.dtype, short(want, 120)), tags + ["conversion", "conversion-order"], got=o.value, expected=want)
    if dt.kind in "iub" and L <= 40:
        present, absent = v[L // 2].item(), next(x for x in (7, 3, 0, 1, 101, -5, 2) if x not in v.tolist() or True)
        for x_ in (present, absent):
            o = attempt(lambda: bool(x_ in r))
            if o.ok and o.value != (x_ in v.tolist()):
                return violated("%s: (%r in rla) is %s, the array %s it" % (desc, x_, o.value, "contains" if x_ in v.tolist() else "does not contain"), tags + ["conversion"])
    # a decoded array belongs to the caller: overwriting it must not change what the encoded array decodes to
    CTX.tick("c14:decode-independent")
    for f in (lambda: r.to_array(), lambda: np.asarray(r)):
        o = attempt(f)
        if o.ok:
            scribble(o.value)
        o2 = attempt(r.to_array)
        if not o2.ok or not same_array(o2.value, v, dtype=True):
            return violated("%s: after the caller overwrote a decoded copy, to_array() gives %s" % (desc, repr(o2) if not o2.ok else short(o2.value, 160)), tags + ["decode-aliases-state"])
    m = attempt(lambda: (int(len(r)), int(r.size), tuple(int(x) for x in r.shape), same_dtype(r.dtype, dt)))
    if not m.ok or m.value != (L, L, (L,), True):
        return violated("%s reports len/size/shape/dtype-equal = %s, expected %s" % (desc, repr(m) if not m.ok else m.value, (L, L, (L,), True)), tags)
    CTX.tick("c14:canonical")
    CTX.tick("c14:joined")
    c = rl.canonical(r, joined=True)
    if c:
        return violated("%s is not canonical: %s" % (desc, c), tags + ["not-canonical"])
    if kind == "encode":
        # encoding an argument that is itself a run-length array with equal neighbouring runs (a scalar-ufunc result) is encoding all the same
        for nm_, der_ in (("abs", lambda x_: np.abs(x_) if dt.kind != "b" else np.logical_or(x_, True)), ("cmp", lambda x_: x_ > (v[0] if dt.kind != "b" else False)), ("mul0", lambda x_: (x_ * 0) if dt.kind != "b" else np.logical_and(x_, False))):
            attempt(der_, v)          # (the same derivation on the dense array: whatever floating-point events it has are numpy's own)
            d_ = attempt(der_, r)
            if not d_.ok or not isinstance(d_.value, RLA):
                continue
            dense_ = np.asarray(d_.value.to_array())
            e2 = attempt(RLA.from_array, d_.value)
            if not e2.ok:
                continue          # (not every version accepts a run-length argument; if it does, the result is an encoding)
            CTX.tick("c14:joined")
            if not isinstance(e2.value, RLA) or not same_array(np.asarray(e2.value.to_array()), dense_, dtype=True):
                return violated("%s: from_array(%s(rla)) decodes to %s, expected %s" % (desc, nm_, short(getattr(e2.value, "to_array", lambda: e2.value)(), 120), short(dense_, 120)), tags + ["encode-of-encoding"])
            c2 = rl.canonical(e2.value, joined=True)
            if c2:
                return violated("%s: from_array(%s(rla)) is not canonical: %s" % (desc, nm_, c2), tags + ["not-canonical", "encode-of-encoding"])
        return held(tags, nontrivial)

    # ---- producers
    joined = False
    if kind == "slice":
        s = case["slice"]
        st = 1 if s.step is None else s.step
        joined = st != 1      # any explicit step other than +1 goes through the stepped-slice path (a reversal included)
        tags.append("slice:stepped" if joined else "slice:unit")
        exp = attempt(lambda: v[s])
        a = attempt(lambda: r[s])
        what = "rla[%s]" % short(s)
    elif kind == "slice_derived":
        # a stepped slice of an encoding that is itself not joined (result of a scalar ufunc / of a concatenation with equal values at the seam)
        s = case["slice"]
        st = 1 if s.step is None else s.step
        joined = st != 1      # any explicit step other than +1 goes through the stepped-slice path (a reversal included)
        tags.append("slice:stepped" if joined else "slice:unit")
        if case["via"] == "concat":
            src = np.concatenate([r, r])
            dense = np.concatenate([v, v])
        elif case["via"] == "add_big" and dt.kind == "f":
            # a scalar that absorbs the differences between neighbouring values: the runs of the sum hold equal values
            big = dt.type(1e16 if dt.itemsize >= 8 else (1e9 if dt.itemsize == 4 else 4096.0))
            src, dense = (r + big, v + big) if L % 2 else (big - r, big - v)
        elif case["via"] == "mul0" and dt.kind != "b":
            src, dense = r * dt.type(0), v * dt.type(0)
        elif case["via"] in ("floordiv", "add_big", "mul0") and dt.kind == "c":
            src, dense = r * dt.type(0), v * dt.type(0)          # (no floor division for complex numbers)
        elif case["via"] in ("floordiv", "add_big", "mul0"):
            src, dense = (r // 2, v // 2) if dt.kind != "b" else (np.logical_or(r, True), np.logical_or(v, True))
        else:
            src, dense = (r > 2, v > 2) if dt.kind != "b" else (np.logical_and(r, False), np.logical_and(v, False))
        exp = attempt(lambda: dense[s])
        a = attempt(lambda: src[s])
        what = "(%s of rla)[%s]" % (case["via"], short(s))
    elif kind == "ufunc2_derived":
        # two run-length operands that share their run boundaries because one was computed from the other
        uf = getattr(np, case["uf"])
        via = case["via"]
        rw = r if via == "self" else ((r + 1) if (via == "plus1" and dt.kind != "b") else (r.astype(np.float64) if via == "astype" else np.logical_not(r) if dt.kind == "b" else r * 2))
        exp = attempt(uf, r.to_array(), rw.to_array())
        a = attempt(uf, r, rw)
        joined = True
        what = "%s(rla, %s of the same rla)" % (case["uf"], via)
    elif kind == "ufunc2":
        w = np.array(case["vals2"]).astype(case["dtype2"])
        uf = getattr(np, case["uf"])
        rw = RLA.from_array(w.copy())
        exp = attempt(uf, r.to_array(), rw.to_array())
        a = attempt(uf, r, rw)
        joined = True
        what = "%s(rla, encoded %s %s)" % (case["uf"], w.dtype, short(w, 100))
    elif kind == "ufunc2_inplace":
        # x op= y with two encodings of unrelated run boundaries: afterwards the name x must hold a canonical encoding of the result
        import operator
        w = np.array(case["vals2"]).astype(dt)
        iop = {"add": operator.iadd, "subtract": operator.isub, "multiply": operator.imul, "bitwise_xor": operator.ixor}[case["uf"]]
        uf = getattr(np, case["uf"])
        rw = RLA.from_array(w.copy())
        exp = attempt(uf, r.to_array(), rw.to_array())
        x = RLA.from_array(v.copy())
        a = attempt(iop, x, rw)
        joined = True
        what = "x %s= encoded %s %s" % (case["uf"], w.dtype, short(w, 100))
    elif kind == "slice_inplace":
        # a window of the encoding (a plain slice) is updated with an in-place operator / out=: the name of the window then holds the updated values,
        # and the encoding it was taken from still decodes to the array that was encoded
        import operator
        s_ = case["slice"]
        cst = dt.type(case["scalar"]) if dt.kind != "b" else True
        wv = attempt(lambda: r[s_])
        if not wv.ok or not isinstance(wv.value, RLA) or len(wv.value) == 0:
            return undefined("no non-empty window for this slice", tags)
        x = wv.value
        uf = getattr(np, case["uf"])
        exp = attempt(uf, v[s_], cst)
        if case.get("spelling") == "out":
            a = attempt(lambda: uf(x, cst, out=x))          # (judged by what the call returns: the current tree computes a new encoding and leaves the out= target alone)
            if not a.ok:
                return undefined("out= is refused for run-length arrays", tags)
        else:
            iop = {"add": operator.iadd, "multiply": operator.imul, "subtract": operator.isub, "bitwise_or": operator.ior}[case["uf"]]
            a = attempt(iop, x, cst)
        joined = False
        what = "w = rla[%s]; w %s= %r" % (short(s_), case["uf"], cst)
        back = attempt(lambda: np.asarray(r.to_array()))
        if not back.ok or not same_array(back.value, v, dtype=True) or rl.canonical(r):
            return violated("%s on %s: afterwards the encoding the window was taken from decodes to %s" % (what, desc, repr(back) if not back.ok else short(back.value, 140)), tags + ["parent-written"])
    elif kind == "unary":
        uf = getattr(np, case["uf"])
        exp = attempt(uf, r.to_array())
        a = attempt(uf, r)
        what = "%s(rla)" % case["uf"]
    elif kind == "scalar":
        uf = getattr(np, case["uf"])
        sc = case["scalar"]
        exp = attempt(uf, r.to_array(), sc)
        a = attempt(uf, r, sc)
        what = "%s(rla, %r)" % (case["uf"], sc)
    else:
        parts = [v] + [np.array(p).astype(dt) for p in case["more"]]
        exp = attempt(np.concatenate, parts)
        a = attempt(lambda: np.concatenate([RLA.from_array(p.copy()) for p in parts]))
        what = "np.concatenate of %d encoded arrays" % len(parts)
    if not exp.ok:
        return undefined("numpy raises: %r" % exp, tags)
    if not a.ok:
        return violated("%s on %s raised %r" % (what, desc, a), tags)
    g = a.value
    if not isinstance(g, RLA):
        return violated("%s on %s returned a %s" % (what, desc, type(g).__name__), tags)
    CTX.tick("c14:canonical")
    if joined:
        CTX.tick("c14:joined")
    c = rl.canonical(g, joined=joined)
    if c:
        return violated("%s on %s is not canonical: %s" % (what, desc, c), tags + ["not-canonical"])
    d = attempt(g.to_array)
    if not d.ok or not same_array(d.value, np.asarray(exp.value), dtype=False):
        return violated("%s on %s decodes to %s, numpy gives %s" % (what, desc, repr(d) if not d.ok else short(d.value, 140), short(exp.value, 140)), tags)
    return held(tags, nontrivial)


# ----------------------------------------------------------------------------- workloads

def gen_case(rng, tier, kind=None, dtype=None, vclass=None, style=None):
    dtype = dtype or rng.choice(rl.DT_RL)
    swap = rng.random() < 0.12
    k = np.dtype(dtype).kind
    vclass = vclass or rng.choice(["small", "small", "extreme"] + (["nonfinite", "nonfinite", "close"] if k == "f" else []))
    if vclass == "nonfinite" and k != "f":
        vclass = "extreme"
    maxlen = 20 if tier == "quick" else 70
    v, style = rl.gen_runs(rng, dtype, vclass, maxlen, style)
    kind = kind or rng.choice(KINDS)
    c = mk_case(dtype, v.tolist(), kind, style=style, vclass=vclass)
    if swap:
        c["swap"] = True
    L = len(v)
    if kind == "slice":
        c["slice"] = gen.gen_slice(rng, L)
    elif kind == "slice_derived":
        c["via"] = rng.choice(["concat", "floordiv", "cmp", "add_big", "add_big", "mul0"])
        c["slice"] = gen.gen_slice(rng, 2 * L if c["via"] == "concat" else L, steps=(2, 3, -1, -2, -3, None, 7))
    elif kind == "ufunc2":
        dt2 = rng.choice(gen.DT_ALL)
        align = rng.choice(["indep", "same", "shifted"])
        if align == "same":
            w = v.astype(dt2) if dt2 != "bool" else (v != 0)
        else:
            w, _ = rl.gen_runs(rng, dt2, "small", maxlen, length=L)
        c.update(vals2=np.asarray(w).tolist(), dtype2=dt2, uf=rng.choice(UF2), align=align)
    elif kind == "ufunc2_inplace":
        if k == "b":
            c["dtype"] = dtype = "int64"
            c["vals"] = [int(x) for x in c["vals"]]
            k = "i"
        w, _ = rl.gen_runs(rng, dtype, "small", maxlen, length=L)
        c.update(vals2=np.asarray(w).tolist(), uf=rng.choice(["add", "subtract", "multiply"] + (["bitwise_xor"] if k in "iu" else [])))
    elif kind == "slice_inplace":
        if k == "b":
            c["dtype"] = dtype = "int64"
            c["vals"] = [int(x) for x in c["vals"]]
            k = "i"
        a_ = rng.randint(0, max(0, L - 1))
        c.update(slice=slice(a_, rng.randint(a_ + 1, L)) if rng.random() < 0.8 else gen.gen_slice(rng, L, steps=(None, 1)), uf=rng.choice(["add", "multiply", "subtract"] + (["bitwise_or"] if k in "iu" else [])),
                 scalar=rng.choice([1, 2, 10, 0]), spelling=rng.choice(["op", "op", "out"]))
    elif kind == "ufunc2_derived":
        c.update(uf=rng.choice(["subtract", "equal", "less", "bitwise_xor" if k in "iub" else "maximum", "minimum", "not_equal"]), via=rng.choice(["self", "plus1", "astype", "times2"]))
    elif kind == "unary":
        c["uf"] = rng.choice(["negative", "absolute", "logical_not", "square", "sign", "isnan"])
    elif kind == "scalar":
        c["uf"] = rng.choice(["add", "multiply", "greater", "maximum", "bitwise_and", "not_equal"])
        c["scalar"] = rng.choice([0, 1, 2, 5, True])
    elif kind == "concat":
        c["more"] = [rl.gen_runs(rng, dtype, vclass, 8)[0].tolist() for _ in range(rng.randint(0, 3))]
        if rng.random() < 0.5 and c["more"]:
            c["more"][0] = [v.tolist()[-1]] * 2 + c["more"][0]     # operands that meet in equal values
    return c


def directed():
    import random
    rng = random.Random(1414)
    for _ in range(160):
        yield rl.gen_labels(rng)
    # integer steps absorbed by the other operand (an infinity, a magnitude beyond 2**53 / 2**24) and no run boundary in common: the results of
    # neighbouring runs are equal and must be one run
    for dtA_, dtB_, big_ in (("int64", "float64", float("inf")), ("int64", "float64", 2.0 ** 60), ("int32", "float32", 2.0 ** 30), ("uint8", "float64", float("-inf"))):
        for uf_ in ("add", "subtract"):
            ia_, fb_ = [1, 1, 2, 2, 3, 3, 4], [big_] * 3 + [7.0] * 4
            yield mk_case(dtA_, ia_, "ufunc2", vals2=fb_, dtype2=dtB_, uf=uf_, align="indep")
            yield mk_case(dtB_, fb_, "ufunc2", vals2=ia_, dtype2=dtA_, uf=uf_, align="indep")
    for dtype in rl.DT_RL:
        for style in rl.STYLES:
            for kind in KINDS:
                for vclass in ["small", "extreme"]:
                    yield gen_case(rng, "quick", kind, dtype, vclass, style)
    inf, nan = float("inf"), float("nan")
    for dtype in ["float16", "float32", "float64"]:
        for vals in ([1.0, inf, inf, inf, 2.0], [-inf, -inf], [nan, nan, 1.0, 1.0, nan], [0.0, -0.0, 0.0, 1.0], [inf, -inf, inf, inf], [nan], [inf]):
            yield mk_case(dtype, vals, "encode", style="runs", vclass="nonfinite")
            yield mk_case(dtype, vals, "slice", slice=slice(None, None, 2), style="runs", vclass="nonfinite")
            yield mk_case(dtype, vals, "ufunc2", vals2=[1.0] * len(vals), dtype2="float64", uf="multiply", style="runs", vclass="nonfinite")
    # operands switching at the same positions between values of very different magnitude (a pair taken across the boundary would overflow)
    for a_, b_, uf_ in (([1e200] * 3 + [1e-200] * 2, [1e-200] * 3 + [1e200] * 2, "multiply"), ([0.0] * 3 + [inf] * 2, [inf] * 3 + [0.0] * 2, "add"),
                        ([inf] * 2 + [1.0] * 2 + [inf], [1.0] * 2 + [inf] * 2 + [1.0], "subtract"), ([1.7e308, 1.7e308, -1.7e308, 1.0], [-1.7e308, -1.7e308, 1.7e308, 1.0], "add")):
        yield mk_case("float64", a_, "ufunc2", vals2=b_, dtype2="float64", uf=uf_, style="runs", vclass="extreme")
        yield mk_case("float64", b_, "ufunc2", vals2=a_, dtype2="float64", uf=uf_, style="runs", vclass="extreme")
    # coinciding boundaries with a result that is constant across them
    for vals in ([4, 4, 9, 9], [1, 2, 3], [5, 5, 5, 6], [2, 3, 2, 3, 4, 5]):
        for via in ("concat", "floordiv", "cmp", "mul0"):
            for sl in (slice(None, None, 2), slice(None, None, -1), slice(None, None, -2), slice(1, None, 3)):
                yield mk_case("int64", vals, "slice_derived", via=via, slice=sl, style="runs", vclass="small")
        for dtype_ in ("float64", "float32", "float16"):
            for sl in (slice(None, None, 2), slice(None, None, -1), slice(None, None, -2), slice(1, None, 3), slice(None, None, 1)):
                yield mk_case(dtype_, [float(x) for x in vals], "slice_derived", via="add_big", slice=sl, style="runs", vclass="small")
                yield mk_case(dtype_, [float(x) for x in vals] + [0.0], "slice_derived", via="add_big", slice=sl, style="runs", vclass="small")
    for a, b, uf in [([1, 1, 2, 2], [2, 2, 1, 1], "add"), ([1, 1, 2, 2], [1, 1, 2, 2], "subtract"), ([1, 2, 2, 3], [1, 2, 2, 3], "equal"),
                     ([0, 0, 5, 5, 0], [5, 5, 0, 0, 5], "maximum"), ([1, 0, 0, 1], [0, 1, 1, 0], "logical_or"), ([3, 3, 3, 4, 4], [4, 4, 3, 3, 3], "minimum")]:
        for dtype in ["int64", "float32", "uint8"]:
            yield mk_case(dtype, a, "ufunc2", vals2=b, dtype2=dtype, uf=uf, style="runs", vclass="small")


def sweep(tier):
    """every array of length 1..5 (thorough: ..7) over three symbols: encode, and every stepped / reversed whole-array slice"""
    import itertools
    maxL = 5 if tier == "quick" else 7
    for L in range(1, maxL + 1):
        for vals in itertools.product([0, 1, 2], repeat=L):
            vals = list(vals)
            yield mk_case("int64", vals, "encode", style="runs", vclass="small")
            if L >= 2 and (tier != "quick" or sum(vals) % 2 == 0):
                for st in (2, -1, -2, 3):
                    yield mk_case("int8", vals, "slice", slice=slice(None, None, st), style="runs", vclass="small")


def random_case(rng, tier):
    if rng.random() < 0.04:
        return rl.gen_labels(rng, 14 if tier == "quick" else 40)
    return gen_case(rng, tier)
