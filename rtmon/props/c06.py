"""C06 -- a derived array behaves exactly like a freshly built equal array.

Decided on programs.  A program is executed three ways: (L) on the library as written,
(F) on the library with every newly derived array replaced by a freshly built equal array
before it is used, (M) on the list model.  L = F is the property's own formulation;
M arbitrates and catches errors common to L and F.  During (L) a purity tap peeks every live
array around every read-only step."""
import numpy as np
from ..core import CTX, attempt, held, violated, undefined, short, deep_same
from .. import gen, contracts, prog
from . import c02

PROP = "C06"
LEVEL_TEXT = 'Programs (2-14 steps, int64 and hostile-float64) are executed on the library as written (L), with every derived array replaced by a freshly built equal array (F) and on a list model (M); L=F=M on final contents and 40 kinds of observations, purity tap around every read. Exploration over programs.'
LEVEL_NOTE = "trusts numpy 2.x, CPython (copy.copy, slice semantics, big ints) and the reference model in rtmon/props/c06.py; decides the executions it produces, nothing more"
TECHNIQUE = 'runtime monitoring: differential execution L/F + sequential list model over generated straight-line programs; purity tap'
DESIGN_REF = "DESIGN.md sections 0, 5 (C06), 7"
RULE = ("case = straight-line program (init, selections of selections, aliases, ufuncs with scalar / column / ragged operands, concatenate, sort, cumsum, diff, "
        "where, unique, zeros_like, assignments with scalar / flat / column / ragged / variable values, mask assignment, 40 kinds of observations); "
        "distinct = hash of the program; non-trivial = at least one observation or assignment applied to a derived array")
ASSUMPTIONS = ["int64 arrays; the generator avoids (and flags) writes into a buffer that an unmaterialised selection still shares -- that pattern is known finding F10",
               "repr/str are compared between the two library runs only (the model has no opinion on formatting)"]
ANCHORS = ["raggedarray/base.py::RaggedBase._change_view", "raggedarray/base.py::RaggedBase._flatten_myself", "raggedarray/base.py::RaggedBase.ravel",
           "raggedshape.py::RaggedView2.view_rows", "raggedshape.py::RaggedView2._pos_col_slice", "raggedshape.py::RaggedView2.col_slice", "raggedshape.py::RaggedView2.ends",
           "raggedarray/indexablearray.py::IndexableArray._get_row", "raggedshape.py::RaggedView.view_rows", "raggedshape.py::RaggedView.get_shape",
           "raggedshape.py::RaggedView.get_flat_indices", "raggedshape.py::RaggedView2._get_flat_indices"]
LAZY_OBS = ["row", "elem", "rowscol", "ell", "empty", "maskidx", "subset", "padded", "getcol", "colcounts", "sum0", "sum1", "nonzero", "tolist", "sel", "cumsum", "diff",
            "sort", "unique", "concatself", "where", "zeros", "astype", "equals", "save", "tonp", "argmax1", "rslice", "repr", "meta"]
FLOOR_TAGS = ["dtype:float64", "dtype:int64"] + ["lazy-recv:" + o for o in LAZY_OBS] + ["lazy-operand:assign:u", "lazy-operand:sel:u", "lazy-operand:ufra:u", "lazy-operand:concat:w",
                                                     "depth>=3", "class:A", "class:B"]
FLOOR_MONITORS = ["c06:L=M", "c06:F=M", "c06:L=F", "purity-tap", "kept-results"]
N_RANDOM = {"quick": 9000, "thorough": 200000}


def setup(lib):
    contracts.attach(lib, which=("ragged",))


def depth_of(steps):
    d = {}
    best = 0
    for st in steps:
        if st["op"] == "sel":
            d[st["v"]] = d.get(st["u"], 0) + 1
            best = max(best, d[st["v"]])
        elif st["op"] == "alias":
            d[st["v"]] = d.get(st["u"], 0)
    return best


def run(case):
    steps = case["steps"]
    tags = ["class:" + ("B" if case.get("hazard") else "A"), "dtype:" + steps[0].get("dtype", "int64")]
    if depth_of(steps) >= 3:
        tags.append("depth>=3")
    M = prog.run_model(steps)
    trace = []
    L = attempt(prog.run_lib, steps, "L", None, True, trace)
    for what, state, view in trace:
        if state == "lazy":
            tags.append(("lazy-recv:" if ":" not in what else "lazy-operand:") + what)
            if view:
                tags.append("view:" + view)
    tags = sorted(set(tags))
    derived_used = any(st["op"] in ("obs", "assign", "maskassign", "rowwrite", "ravelwrite") and st["u"] != "a0" for st in steps)
    pdesc = describe(steps)
    if not L.ok:
        return violated("the program raised %s: %s\n%s" % (type(L.exc).__name__, L.exc, pdesc), tags + ["raised"], got=L.tb)
    finalL, obsL, _, breaches, hazard_seen = L.value
    if hazard_seen and case.get("hazard"):
        tags.append("hazard-confirmed")
    CTX.tick("c06:L=M")
    finalM, obsM = M
    for v in finalM:
        if not deep_same(finalL.get(v), finalM[v]):
            return violated("variable %s ends as %s, a freshly built equal array would hold %s\n%s" % (v, short(finalL.get(v), 200), short(finalM[v], 200), pdesc),
                            tags + ["final-differs"], got=finalL.get(v), expected=finalM[v])
    isf = steps[0].get("dtype", "int64") == "float64"
    for (si, g), (_, e) in zip(obsL, obsM):
        if isf and steps[si]["what"] not in prog.FLOAT_OBS:
            continue        # order-dependent float arithmetic: the model has no opinion, the two library runs are still compared below
        if e is not None and not deep_same(norm(g), norm(e)):
            st = steps[si]
            return violated("step %d, %s(%s%s) gives %s, on a freshly built equal array it gives %s\n%s" % (si, st["what"], st["u"], "" if st["arg"] is None else ", %s" % short(st["arg"], 60),
                            short(g, 200), short(e, 200), pdesc), tags + ["obs-differs:" + st["what"]], got=g, expected=e)
    if breaches:
        si, what, changed = breaches[0]
        return violated("the read-only step %d (%s) changed the content of %s\n%s" % (si, what, changed, pdesc), tags + ["purity"])
    F = attempt(prog.run_lib, steps, "F")
    CTX.tick("c06:F=M")
    if not F.ok:
        return violated("with freshly built intermediates the program raised %s: %s\n%s" % (type(F.exc).__name__, F.exc, pdesc), tags + ["raised-F"], got=F.tb)
    finalF, obsF = F.value[0], F.value[1]
    CTX.tick("c06:L=F")
    if not deep_same(finalF, finalM):
        return violated("freshly built intermediates end as %s, the model says %s\n%s" % (short(finalF, 200), short(finalM, 200), pdesc), tags + ["F-differs"])
    for (si, g), (_, f) in zip(obsL, obsF):
        if not deep_same(norm(g), norm(f)):
            st = steps[si]
            return violated("step %d, %s(%s) gives %s on the derived array and %s on a freshly built equal array\n%s" % (si, st["what"], st["u"], short(g, 200), short(f, 200), pdesc),
                            tags + ["obs-differs:" + st["what"]], got=g, expected=f)
    return held(tags, derived_used)


def norm(x):
    if isinstance(x, tuple):
        return [norm(y) for y in x]
    if isinstance(x, list):
        return [norm(y) for y in x]
    if isinstance(x, (np.generic,)):
        return x.item()
    if isinstance(x, np.ndarray):
        return x.tolist()
    return x


def describe(steps):
    out = []
    for i, st in enumerate(steps):
        d = {k: v for k, v in st.items() if k != "op"}
        out.append("   %2d %s %s" % (i, st["op"], short(d, 170)))
    return "\n".join(out[:40])


# ----------------------------------------------------------------------------- workloads

BASE_ROWS = [[11, 12, 13], [21], [], [31, 32], [41, 42, 43, 44], [0, 5]]
RECV_SELS = {
    "rows-slice": [(slice(1, None, 2), None, False)],
    "rows-rev": [(slice(None, None, -1), None, False)],
    "rows-list": [([4, 0, 3, 3], None, False)],
    "rows-mask": [(np.array([True, False, True, True, False, True]), None, False)],
    "cols+1": [(slice(None), slice(1, None), True)],
    "cols+2": [(slice(None), slice(None, None, 2), True)],
    "cols-1": [(slice(None), slice(None, None, -1), True)],
    "cols-2": [([4, 0, 3], slice(None, None, -2), True)],
    "chain3": [(slice(None, None, -1), None, False), (slice(None), slice(None, None, 2), True), ([0, 2, 5], slice(None, None, -1), True)],
    "chain4": [(slice(0, 5), slice(None, None, -1), True), (slice(None, None, 2), None, False), (slice(None), slice(1, None, 2), True), (slice(None, None, -1), slice(None), True)],
    "only-empty": [([2, 2], None, False)],
    "no-rows": [(slice(0, 0), None, False)],
}


def directed():
    import random
    rng = random.Random(606)
    prog._CUR["dtype"] = "int64"
    for rname, chain in RECV_SELS.items():
        rows = BASE_ROWS
        steps0 = [{"op": "init", "v": "a0", "rows": [list(r) for r in rows]}]
        cur = rows
        for k, (rs, cs, h) in enumerate(chain):
            steps0.append({"op": "sel", "v": "a%d" % (k + 1), "u": "a%d" % k, "rs": rs, "cs": cs, "has_cs": h})
            cur = prog.m_sel(cur, rs, cs, h)[1]
        u = "a%d" % len(chain)
        for name in prog.READ_OPS:
            if not prog.obs_applicable(name, cur):
                continue
            for _ in range(2 if name in ("sel", "elem", "row", "rowscol", "getcol", "rslice") else 1):
                st = {"op": "obs", "u": u, "what": name, "arg": prog.obs_arg(rng, name, cur)}
                yield {"steps": steps0 + [st, {"op": "obs", "u": u, "what": "tolist", "arg": None}, {"op": "obs", "u": "a0", "what": "tolist", "arg": None}], "hazard": False}
        # operations with the derived array as operand, and assignments into it (the source must not change)
        n = len(cur)
        yield {"steps": steps0 + [{"op": "ufra", "v": "b", "u": u, "w": u}, {"op": "concat", "v": "c", "u": "a0", "w": u, "axis": 0},
                                  {"op": "assign", "u": u, "rs": Ellipsis, "cs": None, "has_cs": False, "vk": "scalar", "val": 777},
                                  {"op": "obs", "u": "a0", "what": "tolist", "arg": None}, {"op": "obs", "u": u, "what": "tolist", "arg": None}], "hazard": False}
        yield {"steps": steps0 + [{"op": "maskassign", "u": u, "c": 20, "val": 555}, {"op": "obs", "u": "a0", "what": "tolist", "arg": None}], "hazard": False}
        # the first thing that happens to the derived array is a numpy function the library does not implement (refused, but it has looked at
        # the array like any other read); then its source is overwritten; then it is read
        # (the selections in between are read first: what is still unread when its source is written is the open finding F10)
        between_ = [{"op": "obs", "u": "a%d" % k_, "what": "tolist", "arg": None} for k_ in range(1, len(chain))]
        # the first thing that happens to the derived array is a conversion to its own element type, whose result is then overwritten
        yield {"steps": steps0 + [{"op": "obs", "u": u, "what": "astypesame", "arg": None}, {"op": "obs", "u": u, "what": "tolist", "arg": None},
                                  {"op": "obs", "u": "a0", "what": "tolist", "arg": None}], "hazard": False}
        for what_, arg_ in [("unimpl", k_) for k_ in range(4)]:
            yield {"steps": steps0 + between_ + [{"op": "obs", "u": u, "what": what_, "arg": arg_},
                                      {"op": "assign", "u": "a0", "rs": Ellipsis, "cs": None, "has_cs": False, "vk": "scalar", "val": 777},
                                      {"op": "obs", "u": u, "what": "tolist", "arg": None}, {"op": "obs", "u": "a0", "what": "tolist", "arg": None}], "hazard": False}
        if n:
            yield {"steps": steps0 + [{"op": "assign", "u": u, "rs": 0, "cs": None, "has_cs": False, "vk": "scalar", "val": 888},
                                      {"op": "obs", "u": "a0", "what": "ravel", "arg": None}, {"op": "obs", "u": u, "what": "tolist", "arg": None}], "hazard": False}
    # an unread row-and-column selection is asked one column of all its rows, then a column of SOME of its rows that only those rows are long enough for
    for cs0_ in (slice(0, None), slice(None, None, 1), slice(None, None, -1)):
        for first_ in ([slice(None), 1, True], [slice(None), -2, True], [Ellipsis, 0, True]):
            for second_ in ([[0, 2], 2, True], [[2], 3, True], [np.array([True, False, True, False]), 2, True], [[2, 0], -3, True], [slice(0, 3, 2), 2, True]):
                yield {"steps": [{"op": "init", "v": "a0", "rows": [list(r) for r in BASE_ROWS]},
                                 {"op": "sel", "v": "a1", "u": "a0", "rs": [0, 3, 4, 5], "cs": cs0_, "has_cs": True},
                                 {"op": "obs", "u": "a1", "what": "sel", "arg": first_}, {"op": "obs", "u": "a1", "what": "sel", "arg": second_},
                                 {"op": "obs", "u": "a1", "what": "getcol", "arg": 2}, {"op": "obs", "u": "a1", "what": "tolist", "arg": None}], "hazard": False}
    # the first thing asked of an unread row-and-column selection with equally long rows is its matrix form (or its padded matrix form)
    for rows_, (rs_, cs_) in (([[1, 2, 3], [4, 5, 6, 7], [8, 9], [10, 11, 12]], (slice(None), slice(0, 2))), ([[1, 2, 3], [4, 5, 6], [7, 8, 9], [10, 11, 12]], ([0, 1, 3, 3], slice(None))),
                              ([[1, 2], [3, 4, 5], [6, 7], [8, 9, 10, 11], [12, 13]], ([4, 0, 2], slice(None, None, -1))), ([[1, 2, 3], [4], [5, 6, 7], [8, 9, 10]], ([3, 0, 2], slice(0, 3)))):
        for what_ in ("tonp", "padded"):
            yield {"steps": [{"op": "init", "v": "a0", "rows": [list(r) for r in rows_]}, {"op": "sel", "v": "a1", "u": "a0", "rs": rs_, "cs": cs_, "has_cs": True},
                             {"op": "obs", "u": "a1", "what": what_, "arg": None}, {"op": "obs", "u": "a1", "what": "tolist", "arg": None}, {"op": "obs", "u": "a0", "what": "tolist", "arg": None}], "hazard": False}
    # pieces of one array, cut out with different column steps and not yet looked at, joined in one call
    for (sa_, sb_) in ((((slice(None), slice(None, None, 2)), (slice(None), slice(None, None, -1)))), ((slice(None), slice(1, None)), (slice(1, 3), slice(None, None, 2))),
                       ((slice(None), slice(None, None, -2)), (slice(None), slice(None, None, 2))), ((slice(0, 2), slice(None, None, 3)), (slice(2, None), slice(None, None, -1)))):
        for order_ in (0, 1):
            pa_, pb_ = (sa_, sb_) if order_ == 0 else (sb_, sa_)
            yield {"steps": [{"op": "init", "v": "a0", "rows": [list(r) for r in BASE_ROWS]},
                             {"op": "sel", "v": "a1", "u": "a0", "rs": pa_[0], "cs": pa_[1], "has_cs": True}, {"op": "sel", "v": "a2", "u": "a0", "rs": pb_[0], "cs": pb_[1], "has_cs": True},
                             {"op": "concat", "v": "a3", "u": "a1", "w": "a2", "axis": 0}, {"op": "obs", "u": "a3", "what": "tolist", "arg": None},
                             {"op": "obs", "u": "a1", "what": "tolist", "arg": None}, {"op": "obs", "u": "a2", "what": "tolist", "arg": None}], "hazard": False}
    # the same chains of selections on rows of thousands of cells (mean row length beyond 5000), read and written through
    long_rows = [[(7 * i + 3 * j) % 1000 + 1000 * i for j in range(L)] for i, L in enumerate([21001, 18000, 0, 24003, 15002, 18001])]
    for rname, chain in RECV_SELS.items():
        steps0 = [{"op": "init", "v": "a0", "rows": long_rows}]
        cur = long_rows
        for k, (rs, cs, h) in enumerate(chain):
            steps0.append({"op": "sel", "v": "a%d" % (k + 1), "u": "a%d" % k, "rs": rs, "cs": cs, "has_cs": h})
            cur = prog.m_sel(cur, rs, cs, h)[1]
        u = "a%d" % len(chain)
        yield {"steps": steps0 + [{"op": "obs", "u": u, "what": "sum1", "arg": None}, {"op": "obs", "u": u, "what": "tolist", "arg": None},
                                  {"op": "assign", "u": u, "rs": Ellipsis, "cs": None, "has_cs": False, "vk": "scalar", "val": 777},
                                  {"op": "obs", "u": "a0", "what": "sum1", "arg": None}, {"op": "obs", "u": u, "what": "meta", "arg": None}], "hazard": False}
        for cs2 in (slice(None, None, -2), slice(-2, None, -3), slice(1, None, 2)):
            yield {"steps": steps0 + [{"op": "sel", "v": "z", "u": u, "rs": slice(None), "cs": cs2, "has_cs": True}, {"op": "obs", "u": "z", "what": "tolist", "arg": None},
                                      {"op": "obs", "u": "z", "what": "sum1", "arg": None}], "hazard": False}
    # column selections of column selections whose steps multiply to more than 2**31 (on a row of 100003 cells): one cell per row is left, the right one
    wide = [list(range(100003)), [7, 8, 9, 10, 11]]
    for s1, s2 in ((50000, 50000), (-50000, -50000), (46341, 46341), (-65536, -32768), (3, -1000000), (70000, -40000), (-70000, 40000), (2 ** 31, 2), (-3, 2 ** 40)):
        steps_ = [{"op": "init", "v": "a0", "rows": wide}, {"op": "sel", "v": "a1", "u": "a0", "rs": slice(None), "cs": slice(None, None, s1), "has_cs": True},
                  {"op": "sel", "v": "a2", "u": "a1", "rs": slice(None), "cs": slice(None, None, s2), "has_cs": True}, {"op": "obs", "u": "a2", "what": "tolist", "arg": None},
                  {"op": "obs", "u": "a2", "what": "sum1", "arg": None}, {"op": "obs", "u": "a1", "what": "meta", "arg": None}]
        yield {"steps": steps_, "hazard": False}
    # hundreds of equally long rows (a buffer of several kilobytes) selected through row lists that are sorted and repeat rows, keep the first and the last
    # row, are permuted blocks, ...: the derived array must hold exactly the selected rows
    many = [[100 * i + j for j in range(3)] for i in range(700)]
    for q in range(24):
        n_ = len(many)
        kind_ = q % 4
        if kind_ == 0:
            rs = sorted([0, n_ - 1] + [rng.randrange(n_) for _ in range(n_ - 2)])                  # sorted, with repeats, as long as the array, first and last row kept
        elif kind_ == 1:
            rs = sorted([0, n_ - 1] + [rng.randrange(n_) for _ in range(rng.randint(50, 900))])
        elif kind_ == 2:
            blk = list(range(100, 600))
            rng.shuffle(blk)
            rs = list(range(100)) + blk + list(range(600, n_))                                       # a permutation that keeps the ends
        else:
            rs = np.array(sorted(rng.sample(range(n_), 650)), dtype=np.int64)                        # sorted with gaps
        yield {"steps": [{"op": "init", "v": "a0", "rows": many}, {"op": "sel", "v": "a1", "u": "a0", "rs": rs, "cs": None if q % 3 else slice(None, None, -1), "has_cs": not (q % 3)},
                         {"op": "obs", "u": "a1", "what": "sum1", "arg": None}, {"op": "obs", "u": "a1", "what": "tolist", "arg": None}, {"op": "obs", "u": "a0", "what": "meta", "arg": None}], "hazard": False}
    # the known finding F10: a selection stays an alias of its source until first read (class B)
    yield {"steps": [{"op": "init", "v": "a0", "rows": [[1, 2], [3], [4, 5, 6]]}, {"op": "sel", "v": "a1", "u": "a0", "rs": slice(1, 3), "cs": None, "has_cs": False},
                     {"op": "assign", "u": "a0", "rs": 1, "cs": None, "has_cs": False, "vk": "scalar", "val": 99}, {"op": "obs", "u": "a1", "what": "tolist", "arg": None}], "hazard": True}
    for _ in range(300):
        yield prog.gen_program(rng, "quick")
    for _ in range(200):
        yield prog.gen_program(rng, "quick", dtype="float64")
    # a derived array combined with a hostile float column must equal the same operation on a freshly built equal array
    F = [[0.1, 0.7], [1e17, 1.0, 0.3], [float("inf"), 2.0], [0.3, 0.1, 0.7, 1.0]]
    for sel in [(slice(None, None, -1), None, False), ([2, 0, 1, 3], None, False), (slice(None), slice(None, None, 2), True), (slice(1, None), None, False)]:
        base = [{"op": "init", "v": "a0", "rows": F, "dtype": "float64"}, {"op": "sel", "v": "a1", "u": "a0", "rs": sel[0], "cs": sel[1], "has_cs": sel[2]}]
        n1 = len(prog.m_sel(F, *sel)[1])
        col = [0.1, float("nan"), 1e17, 0.7][:n1]
        for pre in (None, "sum1", "tolist", "any1"):
            st = list(base) + ([{"op": "obs", "u": "a1", "what": pre, "arg": None}] if pre and pre in prog.OBS else [])
            st += [{"op": "neg", "v": "a2", "u": "a1"}, {"op": "ufcol", "v": "a3", "u": "a2", "col": col, "side": "R"}, {"op": "ufcol", "v": "a4", "u": "a1", "col": col, "side": "L"},
                   {"op": "obs", "u": "a3", "what": "tolist", "arg": None}, {"op": "obs", "u": "a4", "what": "tolist", "arg": None}]
            yield {"steps": st, "hazard": False}
    # writes through the views an array hands out (row view, flat buffer, whole-array alias) and a second look at arrays computed from it before
    base = [{"op": "init", "v": "a0", "rows": [[5, 1, 3], [2, 9], [], [4]]}]
    for mk in ("sort", "cumsum", "unique", "zeros"):
        for wr in ({"op": "rowwrite", "u": "a1", "i": 0, "j": 0, "val": 777}, {"op": "ravelwrite", "u": "a1", "k": 1, "val": 888},
                   {"op": "assign", "u": "a2", "rs": 1, "cs": None, "has_cs": False, "vk": "scalar", "val": 999}):
            yield {"steps": base + [{"op": mk, "v": "a1", "u": "a0"}, {"op": "alias", "v": "a2", "u": "a1", "form": "ell"}, wr,
                                    {"op": "obs", "u": "a1", "what": "sort", "arg": None}, {"op": "obs", "u": "a1", "what": "unique", "arg": None},
                                    {"op": "obs", "u": "a0", "what": "tolist", "arg": None}, {"op": "obs", "u": "a2", "what": "tolist", "arg": None}], "hazard": False}
    for sel in [(slice(1, None), None, False), ([2, 0, 1], None, False), (slice(None, None, -1), None, False), (slice(None), slice(None, None, -1), True)]:
        rows1 = prog.m_sel(base[0]["rows"], *sel)[1]
        i1 = next(i for i, r in enumerate(rows1) if r)
        yield {"steps": base + [{"op": "sel", "v": "a1", "u": "a0", "rs": sel[0], "cs": sel[1], "has_cs": sel[2]}, {"op": "rowwrite", "u": "a1", "i": i1, "j": 0, "val": 777},
                                {"op": "obs", "u": "a0", "what": "tolist", "arg": None}, {"op": "obs", "u": "a1", "what": "tolist", "arg": None}], "hazard": False}
        yield {"steps": base + [{"op": "sel", "v": "a1", "u": "a0", "rs": sel[0], "cs": sel[1], "has_cs": sel[2]}, {"op": "ravelwrite", "u": "a1", "k": 0, "val": 888},
                                {"op": "obs", "u": "a0", "what": "ravel", "arg": None}, {"op": "obs", "u": "a1", "what": "tolist", "arg": None}], "hazard": False}
    # np.diff with n = 0, 1, 2 followed by a write into the result: the source must not change
    for nn in (0, 1, 2):
        yield {"steps": [{"op": "init", "v": "a0", "rows": [[1, 4, 9], [2], [], [5, 5]]}, {"op": "diff", "v": "a1", "u": "a0", "n": nn},
                         {"op": "assign", "u": "a1", "rs": Ellipsis, "cs": None, "has_cs": False, "vk": "scalar", "val": 777},
                         {"op": "obs", "u": "a0", "what": "tolist", "arg": None}, {"op": "obs", "u": "a1", "what": "tolist", "arg": None}], "hazard": False}
    for _ in range(40):
        c = prog.gen_program(rng, "quick", allow_hazard=True)
        yield c


def random_case(rng, tier):
    return prog.gen_program(rng, tier, allow_hazard=rng.random() < 0.05, dtype="float64" if rng.random() < 0.3 else "int64", big=rng.random() < 0.06)


def classify(case, res):
    # class B programs (a write hits a buffer that an unmaterialised selection may still share): any divergence from the model is F10's
    if case.get("hazard") and any(t in ("final-differs", "raised", "hazard-confirmed") or t.startswith("obs-differs") for t in res["tags"]):
        return "F10"
    return None
