"""C07 -- row-wise scans and reorderings equal numpy applied to each row."""
import copy
import warnings
import numpy as np
from ..core import CTX, attempt, quiet_filters, held, violated, undefined, same_array, peek, short, lists_same, same_dtype
from .. import gen, contracts
from . import c02

PROP = "C07"
LEVEL_TEXT = 'Per-row numpy oracle for cumsum / accumulate / sort / unique / diff, exhaustive small row-length vectors, lazy receivers, and op -> in-place write -> op again on the same object. Exploration.'
LEVEL_NOTE = "trusts numpy 2.x, CPython (copy.copy, slice semantics, big ints) and the reference model in rtmon/props/c07.py; decides the executions it produces, nothing more"
TECHNIQUE = 'runtime monitoring: reference-model oracle (numpy per row) + op-write-op stale-state monitor'
DESIGN_REF = "DESIGN.md sections 0, 5 (C07), 7"
RULE = ("case = (row lengths, dtype, flat values, operation in cumsum / add|subtract|xor.accumulate / sort / unique[+counts] / diff n, receiver kind); "
        "oracle = numpy on each row; distinct = hash of the case; non-trivial = >= 2 rows and >= 2 cells")
ASSUMPTIONS = ["cumsum on integer dtypes only (other dtypes are rejected by the library by design)", "unique without NaN",
               "floats are dyadic so that exact results do not depend on the order of additions; accumulate on non-finite / huge floats is known finding F07b"]
ANCHORS = [
    "raggedarray/__init__.py::RaggedArray.cumsum", "raggedarray/__init__.py::RaggedArray._accumulate",
    "raggedarray/__init__.py::RaggedArray._row_accumulate", "raggedarray/__init__.py::RaggedArray.sort",
    "raggedshape.py::ViewBase.index_array", "arrayfunctions.py::unique", "arrayfunctions.py::diff",
]
OPS = ["cumsum", "np.cumsum", "add.acc", "subtract.acc", "xor.acc", "sort", "unique", "unique_counts", "diff"]
FLOOR_TAGS = ["op:" + o for o in OPS] + ["kind:b", "kind:i", "kind:u", "kind:f", "norows", "allempty", "e-first", "e-last", "e-mid", "e-consec", "e-none",
                                         "recv:fresh", "recv:lazyrows", "recv:lazycols+2", "diff-n>len", "v:extreme", "v:dups", "op-write-op", "ntype:uint8", "ntype:int64", "many-empty-rows", "cumsum-dtype=", "op:chain", "chain-step:astype", "chain-step:unique", "chain-step:sort", "chain-step:write"]
FLOOR_MONITORS = ["c07:compare"]
N_RANDOM = {"quick": 36000, "thorough": 400000}


def setup(lib):
    contracts.attach(lib, which=("ragged",))


def mk_case(lens, dtype, vals, op, n=1, vclass="small", recv="fresh", rewrite=None):
    return {"lens": list(lens), "dtype": np.dtype(dtype).name, "vals": vals, "op": op, "n": n, "vclass": vclass, "recv": recv, "rewrite": rewrite}


CHAIN_OPS = ["sort", "unique", "astype", "neg", "rev", "cumsum", "diff", "abs", "rowsel", "write"]


def chain_step(st, x, rows, lib):
    """-> (new library value, new list of numpy rows); x / rows are not replaced for 'write' (in place)"""
    op = st[0]
    if op == "sort":
        return x.sort(axis=-1), [np.sort(r) for r in rows]
    if op == "unique":
        return np.unique(x, axis=-1), [np.unique(r) for r in rows]
    if op == "astype":
        with warnings.catch_warnings():
            quiet_filters()
            return x.astype(st[1]), [r.astype(st[1]) for r in rows]
    if op == "neg":
        return np.negative(x), [np.negative(r) for r in rows]
    if op == "abs":
        return np.absolute(x), [np.absolute(r) for r in rows]
    if op == "rev":
        return x[:, ::-1], [r[::-1] for r in rows]
    if op == "cumsum":
        return np.cumsum(x, axis=-1), [np.cumsum(r) for r in rows]
    if op == "diff":
        return np.diff(x, n=st[1], axis=-1), [np.diff(r, n=st[1]) for r in rows]
    if op == "rowsel":
        idx = list(st[1])
        return x[idx], [rows[i] for i in idx]
    if op == "write":
        nz = [i for i, r in enumerate(rows) if len(r)]
        if not nz:
            return x, rows
        i = nz[st[1] % len(nz)]
        j = st[2] % len(rows[i])
        v = np.array(st[3]).astype(rows[i].dtype)
        x[i, j] = v
        rows = [r.copy() for r in rows]
        rows[i][j] = v
        return x, rows
    raise ValueError(op)


def run_chain(case):
    """several operations in a row, each applied to the result of the previous one; numpy on each row after every step"""
    lib = CTX.lib
    RA = lib.RaggedArray
    lens = case["lens"]
    dt = np.dtype(case["dtype"])
    flat = np.array(case["vals"], dtype=dt)
    rows = gen.split_rows(flat, lens)
    recv = case.get("recv", "fresh")
    x, parent = c02.build_receiver(recv, flat, lens)
    tags = ["op:chain", "kind:" + dt.kind, "recv:" + recv, "chain:%d" % len(case["steps"])] + gen.empty_placement(lens)
    probe = flat[:0]
    for k, st in enumerate(case["steps"]):
        st = tuple(st)
        tags.append("chain-step:" + st[0])
        try:
            exp_rows = chain_step_rows(st, rows)
            if st[0] not in ("rowsel", "write"):
                probe = chain_step_rows(st, [probe])[0]        # numpy's verdict on an empty row of the current element type (decides also when there are no rows)
        except Exception as e:
            return undefined("numpy raises at step %d: %r" % (k, e), tags)
        CTX.tick("c07:compare", sum(lens) > 0)
        a = attempt(lambda: chain_step(st, x, rows, lib)[0])
        desc = "chain %s on %s rows %s [%s receiver]" % (short(case["steps"][:k + 1], 200), dt, short([r.tolist() for r in gen.split_rows(flat, lens)], 160), recv)
        if not a.ok:
            return violated("%s: step %d raised %s: %s" % (desc, k, type(a.exc).__name__, a.exc), tags)
        x = a.value
        if not isinstance(x, RA):
            return violated("%s: step %d returned a %s" % (desc, k, type(x).__name__), tags)
        got = attempt(lambda: [np.asarray(r) for r in copy.copy(x)])
        if not got.ok or len(got.value) != len(exp_rows) or not all(same_array(g, e, dtype=False) for g, e in zip(got.value, exp_rows)):
            return violated("%s: after step %d the rows are %s, numpy row by row gives %s" % (desc, k, repr(got) if not got.ok else short([g.tolist() for g in got.value], 200), short([e.tolist() for e in exp_rows], 200)),
                            tags + ["chain-diverged"])
        if sum(len(e) for e in exp_rows) and not same_dtype(x.dtype, np.concatenate(exp_rows).dtype):
            return violated("%s: after step %d the element type is %s, numpy gives %s" % (desc, k, x.dtype, np.concatenate(exp_rows).dtype), tags + ["dtype-differs"])
        rows = exp_rows
    return held(tags, len(lens) >= 2 and sum(lens) >= 2)


def chain_step_rows(st, rows):
    class _Dummy:
        pass
    op = st[0]
    if op == "write":
        nz = [i for i, r in enumerate(rows) if len(r)]
        if not nz:
            return rows
        i = nz[st[1] % len(nz)]
        j = st[2] % len(rows[i])
        out = [r.copy() for r in rows]
        out[i][j] = np.array(st[3]).astype(rows[i].dtype)
        return out
    with warnings.catch_warnings():
        quiet_filters()
        return {"sort": lambda: [np.sort(r) for r in rows], "unique": lambda: [np.unique(r) for r in rows], "astype": lambda: [r.astype(st[1]) for r in rows],
                "neg": lambda: [np.negative(r) for r in rows], "abs": lambda: [np.absolute(r) for r in rows], "rev": lambda: [r[::-1] for r in rows],
                "cumsum": lambda: [np.cumsum(r) for r in rows], "diff": lambda: [np.diff(r, n=st[1]) for r in rows], "rowsel": lambda: [rows[i] for i in st[1]]}[op]()


def gen_chain(rng, tier, recv="fresh"):
    lens, _ = gen.length_vector(rng, tier)
    dtype = rng.choice(["int64", "int64", "int32", "int16", "uint8", "int8", "uint16"])
    vals = gen.values(rng, dtype, sum(lens), rng.choice(["small", "extreme", "dups" if False else "small"])).tolist()
    steps = []
    n = len(lens)
    cur_int = True
    for _ in range(rng.randint(2, 5)):
        op = rng.choice(CHAIN_OPS)
        if op == "astype":
            steps.append(["astype", rng.choice(["uint8", "int8", "bool", "int64", "uint16", "int16", "float64"])])
            cur_int = steps[-1][1] not in ("bool", "float64")
        elif op == "diff":
            steps.append(["diff", rng.choice([1, 1, 2])])
        elif op == "rowsel":
            if n == 0:
                continue
            steps.append(["rowsel", [rng.randrange(n) for _ in range(rng.randint(1, n + 1))]])
            n = len(steps[-1][1])
        elif op == "write":
            steps.append(["write", rng.randrange(100), rng.randrange(100), rng.choice([0, 1, 200, 255, 3])])
        elif op == "cumsum":
            if not cur_int:
                continue
            steps.append(["cumsum"])
        else:
            steps.append([op])
    return {"op": "chain", "lens": lens, "dtype": dtype, "vals": vals, "steps": steps, "recv": recv, "n": 1, "vclass": "small"}


def run(case):
    if case.get("op") == "chain":
        return run_chain(case)
    r = run_once(case, None)
    if r["verdict"] != "held" or not case.get("rewrite") or sum(case["lens"]) == 0 or case.get("recv") == "readonly":
        return r
    # the same object is written to in place and the operation is applied again: results must follow the new content
    # (stale caches keyed on the object or on its buffer show up here)
    r2 = run_once(case, case["rewrite"])
    r2["tags"] = sorted(set(r2["tags"] + ["op-write-op"]))
    return r2


def run_once(case, rewrite):
    RA = CTX.lib.RaggedArray
    lens, op, nn = case["lens"], case["op"], case["n"]
    dt = np.dtype(case["dtype"])
    n, tot = len(lens), sum(lens)
    flat = np.array(case["vals"], dtype=dt)
    rows = gen.split_rows(flat, lens)
    recv = case.get("recv", "fresh")
    ra, parent = c02.build_receiver(recv, flat, lens)
    if rewrite is not None:
        first = attempt(apply_op, ra, op, nn, case.get("ntype"))        # first application (judged by the first pass); its result is dropped
        pos = rewrite["pos"] % tot
        newv = np.array([rewrite["val"]]).astype(dt)[0]
        i = int(np.searchsorted(np.cumsum(lens), pos, side="right"))
        j = pos - (int(np.cumsum(lens)[i - 1]) if i else 0)
        if rewrite["how"] in ("ravel", "rowview") and recv != "readonly":
            # a write through a view the array hands out (its flat view / one of its rows), not through ra[...] = v
            if rewrite["how"] == "ravel":
                ra.ravel()[pos] = newv
            else:
                ra[i][j] = newv
            flat = flat.copy()
            flat[pos] = newv
        elif rewrite["how"] in ("cell", "ravel", "rowview"):
            ra[i, j] = newv
            flat = flat.copy()
            flat[pos] = newv
        elif rewrite["how"] == "row":
            ra[i] = newv
            flat = flat.copy()
            off = int(np.cumsum(lens)[i - 1]) if i else 0
            flat[off:off + lens[i]] = newv
        else:
            ra.fill(newv)
            flat = np.full_like(flat, newv)
        rows = gen.split_rows(flat, lens)
    parent_before = peek(parent) if parent is not None else None
    tags = ["op:" + op, "kind:" + dt.kind, "v:" + case["vclass"], "recv:" + recv] + gen.empty_placement(lens)
    if op == "diff" and lens and nn > max(lens):
        tags.append("diff-n>len")
    if len(lens) > 126 and max((sum(1 for _ in g) for k_, g in __import__("itertools").groupby(lens) if k_ == 0), default=0) >= 126:
        tags.append("many-empty-rows")
    if op in ("cumsum", "np.cumsum"):
        if dt.kind not in "iu":
            return undefined("cumsum on %s is rejected by design" % dt, tags)
        ad = case.get("accdtype")        # numpy's dtype= argument: the type the sums are accumulated and returned in (integer types only)
        if ad:
            tags.append("cumsum-dtype=")
            o = attempt(lambda: [np.cumsum(r, dtype=ad) for r in rows])
            a = attempt(lambda: ra.cumsum(axis=-1, dtype=np.dtype(ad)) if op == "cumsum" else np.cumsum(ra, axis=-1, dtype=ad))
        else:
            o = attempt(lambda: [np.cumsum(r) for r in rows])
            a = attempt(lambda: ra.cumsum(axis=-1) if op == "cumsum" else np.cumsum(ra, axis=-1))
    elif op.endswith(".acc"):
        uf = {"add.acc": np.add, "subtract.acc": np.subtract, "xor.acc": np.bitwise_xor}[op]
        o = attempt(lambda: [uf.accumulate(r) for r in rows] + [uf.accumulate(flat[:0])][:0])
        a = attempt(lambda: uf.accumulate(ra, axis=-1))
    elif op == "sort":
        o = attempt(lambda: [np.sort(r) for r in rows])
        a = attempt(lambda: ra.sort(axis=-1))
    elif op == "unique":
        o = attempt(lambda: [np.unique(r) for r in rows])
        a = attempt(lambda: np.unique(ra, axis=-1))
    elif op == "unique_counts":
        o = attempt(lambda: [np.unique(r, return_counts=True) for r in rows])
        rc_ = [True, np.True_, 1, np.bool_(True)][(tot + n) % 4]       # any true value asks for the counts, as in numpy
        a = attempt(lambda: np.unique(ra, axis=-1, return_counts=rc_))
    elif op == "diff":
        o = attempt(lambda: [np.diff(r, n=nn) for r in rows] + [np.diff(flat[:0], n=nn)][:0])
        a = attempt(lambda: np.diff(ra, n=as_n(nn, case.get("ntype")), axis=-1))
        tags.append("ntype:" + str(case.get("ntype") or "int"))
    else:
        raise ValueError(op)
    if not o.ok:
        return undefined("numpy raises for a row: %r" % o, tags)
    opdesc = "%s(dtype=%s)" % (op, case["accdtype"]) if (case.get("accdtype") and op in ("cumsum", "np.cumsum")) else op
    desc = "%s%s on %s rows %s [%s receiver]" % (opdesc, "(n=%d)" % nn if op == "diff" else "", dt, short([r.tolist() for r in rows], 200), recv)
    CTX.tick("c07:compare", tot > 0)
    nontrivial = n >= 2 and tot >= 2
    if not a.ok:
        return violated("%s raised %s: %s" % (desc, type(a.exc).__name__, a.exc), tags, got=repr(a))
    if op == "unique_counts":
        if not (isinstance(a.value, tuple) and len(a.value) == 2):
            return violated("%s returned %s" % (desc, short(a.value)), tags)
        pairs = [(a.value[0], [x[0] for x in o.value], "values"), (a.value[1], [x[1] for x in o.value], "counts")]
    else:
        pairs = [(a.value, o.value, "result")]
    for got, exp, what in pairs:
        if not isinstance(got, RA):
            return violated("%s: %s is a %s, not a RaggedArray" % (desc, what, type(got).__name__), tags)
        grows = [np.asarray(r) for r in got]
        if len(grows) != n:
            return violated("%s: %s has %d rows, expected %d" % (desc, what, len(grows), n), tags)
        if [len(r) for r in grows] != [len(e) for e in exp]:
            return violated("%s: %s has row lengths %s, numpy per row gives %s" % (desc, what, [len(r) for r in grows], [len(e) for e in exp]), tags,
                            got=[r.tolist() for r in grows], expected=[np.asarray(e).tolist() for e in exp])
        for i, (g, e) in enumerate(zip(grows, exp)):
            if not same_array(g, e, dtype=False):
                return violated("%s: %s row %d is %s, numpy gives %s" % (desc, what, i, short(g, 160), short(e, 160)), tags,
                                got=[r.tolist() for r in grows], expected=[np.asarray(x).tolist() for x in exp])
        if tot > 0 and what != "counts":
            ed = np.concatenate([np.asarray(e) for e in exp]).dtype if exp else dt
            if not same_dtype(got.dtype, ed) and sum(len(e) for e in exp) > 0:
                return violated("%s: %s has dtype %s, numpy gives %s" % (desc, what, got.dtype, ed), tags + ["dtype-differs"])
    if not lists_same(peek(ra), [r.tolist() for r in rows]):
        return violated("%s modified its operand" % desc, tags + ["operand-mutated"])
    if parent is not None and not lists_same(peek(parent), parent_before):
        return violated("%s modified the array its operand was selected from" % desc, tags + ["operand-mutated"])
    return held(tags, nontrivial)


def apply_op(ra, op, nn, ntype=None):
    if op == "cumsum":
        return ra.cumsum(axis=-1)
    if op == "np.cumsum":
        return np.cumsum(ra, axis=-1)
    if op.endswith(".acc"):
        return {"add.acc": np.add, "subtract.acc": np.subtract, "xor.acc": np.bitwise_xor}[op].accumulate(ra, axis=-1)
    if op == "sort":
        return ra.sort(axis=-1)
    if op == "unique":
        return np.unique(ra, axis=-1)
    if op == "unique_counts":
        return np.unique(ra, axis=-1, return_counts=True)
    return np.diff(ra, n=as_n(nn, ntype), axis=-1)


def as_n(nn, ntype):
    """the order of np.diff as a python int, a numpy integer (signed / unsigned) or a 0-d array"""
    if ntype in (None, "int"):
        return nn
    if ntype == "0d":
        return np.array(nn, dtype=np.uint8 if nn < 256 else (np.uint16 if nn < 65536 else np.uint32))
    if not (np.iinfo(ntype).min <= nn <= np.iinfo(ntype).max):
        return nn
    return np.dtype(ntype).type(nn)


# ----------------------------------------------------------------------------- workloads

def _vals(rng, dtype, n, vclass, op):
    k = np.dtype(dtype).kind
    if vclass == "dups":
        pool = gen.values(rng, dtype, 3, "small").tolist()
        return [rng.choice(pool) for _ in range(n)]
    if k == "f":
        if op in ("unique", "unique_counts") and vclass == "nonfinite":
            return [x for x in [rng.choice([0.0, -0.0, 1.5, float("inf"), float("-inf"), -2.25]) for _ in range(n)]]
        return gen.values(rng, dtype, n, vclass).tolist()
    return gen.values(rng, dtype, n, "extreme" if vclass in ("nonfinite", "extreme") else ("pow2" if vclass == "pow2" else "small")).tolist()


def gen_case(rng, lens, dtype, vclass, op=None, recv="fresh"):
    op = op or rng.choice(OPS)
    maxl = max(lens) if lens else 0
    nn = rng.choice([1, 1, 2, 3, maxl, maxl + 1]) if op == "diff" else 1
    nn = max(1, nn)
    rewrite = None
    if rng.random() < 0.3 and sum(lens) and vclass in ("small", "dups"):
        rewrite = {"how": rng.choice(["cell", "cell", "row", "fill", "ravel", "rowview"]), "pos": rng.randrange(10 ** 6), "val": rng.choice([0, 1, 3, 7])}
    c = mk_case(lens, dtype, _vals(rng, dtype, sum(lens), vclass, op), op, nn, vclass, recv, rewrite)
    if op == "diff":
        c["ntype"] = rng.choice(["int", "int", "int64", "uint8", "uint64", "int8", "0d"])
    if op in ("cumsum", "np.cumsum") and rng.random() < 0.25:
        c["accdtype"] = rng.choice(gen.DT_INT)
    return c


def directed():
    import random
    rng = random.Random(707)
    shapes = [[], [0], [0, 0, 0], [1], [4], [0, 2, 3], [2, 3, 0], [2, 0, 3], [2, 0, 0, 3], [1, 0, 0], [3, 2, 0, 0, 0], [1, 1, 1], [0, 12, 1], [5, 1, 4]]
    for lens in shapes:
        for dtype in ["int64", "uint8", "int8", "bool", "float64", "float32", "uint64"]:
            for op in OPS:
                for vclass in ["small", "dups"]:
                    yield gen_case(rng, lens, dtype, vclass, op)
            for nn in range(1, (max(lens) if lens else 0) + 2):
                yield mk_case(lens, dtype, _vals(rng, dtype, sum(lens), "small", "diff"), "diff", nn, "small")
    # complex cells that carry a NaN in one part or in both: numpy orders them behind every ordinary cell, by the part that is a number
    nan_ = float("nan")
    pool_ = [complex(2, 1), complex(nan_, 1), complex(1, 5), complex(1, 2), complex(2, nan_), complex(0, 0), complex(nan_, nan_), complex(3, nan_), complex(nan_, 0), complex(1, 1), complex(-1, 0), complex(nan_, 7)]
    for lens in ([4, 2, 5], [3, 3, 3, 3], [5, 1, 4, 2], [2, 0, 6, 4]):
        for k_ in range(4):
            vals_ = [pool_[(i * (k_ + 1) + k_ * 5) % len(pool_)] for i in range(sum(lens))]
            for dtype_ in ("complex128", "complex64"):
                yield mk_case(lens, dtype_, vals_, "sort", 1, "nonfinite")
    nans_ = [complex(1, nan_), complex(nan_, 2), complex(nan_, nan_), complex(9, nan_), complex(nan_, -3)]
    # extended-precision cells that differ only below the resolution of a double
    ld_ = np.longdouble
    tiny_ = [ld_(1) + ld_(2) ** -60, ld_(1), ld_(1) + ld_(2) ** -61, ld_(3), ld_(1) - ld_(2) ** -62, ld_(1) + ld_(2) ** -59]
    for lens in ([3, 1], [4, 2], [6], [2, 0, 4]):
        for k_ in range(3):
            vals_ = [tiny_[(i * (k_ + 1) + k_) % len(tiny_)] for i in range(sum(lens))]
            for op_ in ("sort", "unique"):
                yield mk_case(lens, "longdouble", vals_, op_, 1, "small")
    for a_ in nans_:
        for b_ in nans_:
            for rows_ in ([[a_, 5, complex(3, 2)], [b_, complex(4, 1)]], [[5, a_, complex(3, 2), 1], [2, b_], [b_, a_, 7]], [[b_, 1], [complex(0, 1), a_, 2, 3]]):
                for dtype_ in ("complex128", "complex64"):
                    yield mk_case([len(r_) for r_ in rows_], dtype_, [complex(x_) for r_ in rows_ for x_ in r_], "sort", 1, "nonfinite")
    for op in OPS:
        for how in ("cell", "row", "fill"):
            for dtype in ("int64", "uint8", "float64", "bool"):
                c = gen_case(rng, [3, 0, 4, 2], dtype, "dups", op)
                c["rewrite"] = {"how": how, "pos": 5, "val": 1}
                yield c
    for run in (126, 127, 128, 255, 256, 300):
        for op in ("sort", "unique_counts", "cumsum", "diff", "add.acc"):
            yield gen_case(rng, [2] + [0] * run + [3, 1, 2], "int64", "dups", op)
            yield gen_case(rng, [0] * run + [3, 2], "int16", "dups", op)
    # durations and dates (NaT in some rows): sorting, distinct values with counts, differences -- what numpy defines for them and the current tree does in
    # their own type (NaT sorts last); cumulative sums are left out (a NaT would leak into later rows, F07b's mechanism)
    for dtype in ("m8[s]", "M8[D]"):
        for lens in ([3, 0, 4, 2], [5], [1, 1, 2]):
            tot_ = sum(lens)
            for k_ in range(4):
                vals_ = [rng.choice([1, 2, 5, 5, 86400, -7, 10 ** 4]) for _ in range(tot_)]
                offs_ = [sum(lens[:i_]) for i_ in range(len(lens))]
                for i_ in rng.sample([i_ for i_ in range(len(lens)) if lens[i_]], min(k_, sum(1 for l_ in lens if l_))):
                    vals_[offs_[i_] + rng.randrange(lens[i_])] = -2 ** 63      # NaT, at most one per row (several NaT in one row are to "distinct values" what several NaN are: left out)
                for op in ("sort", "unique", "unique_counts", "diff"):
                    yield mk_case(lens, dtype, vals_, op, 1, "small")
    # value ranges that are a power of two (or a hair above) at every magnitude: integer keys / offsets computed from the range must hold the largest value
    for dtype in ("int64", "uint64", "int32", "int16"):
        for _ in range(12):
            for op in ("sort", "unique", "unique_counts", "cumsum", "diff"):
                yield gen_case(rng, rng.choice([[4], [3, 0, 5], [2, 6, 1, 0]]), dtype, "pow2", op)
    for k_ in (49, 50, 53, 60, 62):
        for vals_ in ([7, 2 ** k_, 3, 0], [2 ** k_ + 1, 1, 5, 2 ** k_], [0, 2 ** k_ - 1, 2 ** k_, 1]):
            for op in ("sort", "unique", "unique_counts"):
                yield mk_case([4], "int64", vals_, op, 1, "pow2")
                yield mk_case([1, 3], "uint64", vals_, op, 1, "pow2")
                yield mk_case([2, 0, 2], "int64", [v - 2 ** (k_ - 1) for v in vals_], op, 1, "pow2")
    # (number of rows) x (value range) next to the capacity of a 64-bit / 32-bit word -- from just below to just above 2**63, 2**64, 2**31, 2**32 divided by
    # the number of rows -- with the largest value in the last row and the smallest in the first (a combined row-and-value key must still hold it)
    for n_ in (3, 5, 6, 7, 10, 11, 12, 100):
        for cap_, dtype in ((2 ** 63, "int64"), (2 ** 64, "uint64"), (2 ** 31, "int32"), (2 ** 32, "uint32"), (2 ** 63, "uint64"), (2 ** 32, "int64")):
            for d_ in (-2, 0, 1, 3, 64, 100, 1025):
                top = cap_ // n_ + d_
                if top > np.iinfo(dtype).max:
                    continue
                lens_ = [2] + [1] * (n_ - 2) + [3]
                vals_ = [0, 5] + [7 + i for i in range(n_ - 2)] + [3, top, top - 1]
                for op in ("sort", "unique_counts"):
                    yield mk_case(lens_, dtype, vals_, op, 1, "pow2")
                if np.iinfo(dtype).min < 0 and d_ in (0, 1, 100):
                    yield mk_case(lens_, dtype, [v - top // 2 for v in vals_], "sort", 1, "pow2")
    # long rows (thousands of cells per row on average) of narrow integer types over their whole value range
    for dtype, lens_ in (("int8", [5000, 3000, 0, 4000]), ("uint8", [3000, 3001]), ("int16", [5000, 0, 7000]), ("bool", [4000, 100]), ("int16", [300000, 280000])):
        ii_ = None if dtype == "bool" else np.iinfo(dtype)
        tot_ = sum(lens_)
        vals_ = [bool((i * 7 + i // 13) % 3 == 0) for i in range(tot_)] if ii_ is None else [int(ii_.min) + (i * 7919 + i // 5) % (int(ii_.max) - int(ii_.min) + 1) for i in range(tot_)]
        for op in (OPS if tot_ < 100000 else ["unique_counts", "sort"]):
            yield mk_case(lens_, dtype, vals_, op, 1, "extreme")
    # differences of a very high order (hundreds / thousands): defined like any other order (rows shorter than the order become empty)
    for nn_ in (300, 1200, 4000):
        lens_ = [1210, 5, 0, 1300, 4100]
        yield mk_case(lens_, "int64", [(i * 7 + i // 3) % 11 for i in range(sum(lens_))], "diff", nn_, "small")
        yield mk_case([nn_ + 2, 1], "int16", [(i * 5) % 7 for i in range(nn_ + 3)], "diff", nn_, "small")
    for ntype in ("uint8", "uint64", "int8", "0d", "int64"):
        for nn in (1, 2, 3):
            c = mk_case([3, 0, 4, 2, 1], "int64", [5, 1, 8, 2, 2, 7, 9, 4, 4, 6], "diff", nn, "small")
            c["ntype"] = ntype
            yield c
    L = [3, 0, 4, 2, 0]
    for dtype in gen.DT_INT:
        for op in ["cumsum", "add.acc", "subtract.acc", "xor.acc", "sort", "unique_counts", "diff"]:
            yield gen_case(rng, L, dtype, "extreme", op)
    for dtype in gen.DT_FLOAT:
        for op in ["sort", "unique", "unique_counts", "diff", "add.acc", "subtract.acc"]:
            yield gen_case(rng, L, dtype, "nonfinite", op)      # add/subtract.accumulate here: the F07b witness
        yield gen_case(rng, L, dtype, "extreme", "add.acc")
    for dtype, ad in (("int64", "int8"), ("int64", "uint16"), ("int8", "int64"), ("uint8", "int8"), ("int16", "uint64"), ("uint64", "int32")):
        for op in ("cumsum", "np.cumsum"):
            c = gen_case(rng, [3, 0, 2, 1], dtype, "extreme", op)
            c["accdtype"] = ad
            yield c
            c = mk_case([3, 0, 2, 1], dtype, [100, 100, 3, 5, 7, 120] if dtype != "int64" else [100, 100, 3, -5, 7, 120], op, 1, "small")
            c["accdtype"] = ad
            yield c
    # rectangular contents built from 2-D numpy arrays (C- and Fortran-ordered), written to before the operation
    for recv in ("fromnumpy", "fromnumpy-F", "tonumpy-called"):
        for lens in ([3, 3], [2, 2, 2], [4], [1, 1, 1]):
            for op in OPS:
                for how in ("cell", "row", "fill"):
                    c = gen_case(rng, lens, "int64", "dups", op, recv)
                    c["rewrite"] = {"how": how, "pos": 3, "val": 1}
                    yield c
    for recv in c02.RECVS[1:]:
        for op in OPS:
            yield gen_case(rng, [2, 0, 3, 1], "int64", "small", op, recv)
            yield gen_case(rng, [0, 3, 0, 0], "int16", "dups", op, recv)


def sweep(tier):
    """every vector of row lengths with <= 4 rows of length 0..2 x every operation"""
    import itertools
    import random
    rng = random.Random(77)
    dts = ["int64"] if tier == "quick" else ["int64", "bool", "uint8", "float64"]
    for n in range(0, 5):
        for lens in itertools.product(range(3), repeat=n):
            for dtype in dts:
                for op in OPS:
                    yield gen_case(rng, list(lens), dtype, "dups", op)


def random_case(rng, tier):
    if rng.random() < 0.1:
        return gen_chain(rng, tier, rng.choice([r_ for r_ in c02.RECVS if r_ != "readonly"]) if rng.random() < 0.3 else "fresh")
    lens, _ = gen.length_vector(rng, tier)
    dtype = rng.choice(gen.DT_ALL)
    vclass = rng.choice(["small", "small", "dups", "extreme", "nonfinite", "pow2"])
    recv = rng.choice(c02.RECVS) if rng.random() < 0.3 else "fresh"
    return gen_case(rng, lens, dtype, vclass, recv=recv)


def classify(case, res):
    if case.get("op") == "chain":
        return None
    dt = np.dtype(case["dtype"])
    if case["op"] in ("add.acc", "subtract.acc") and dt.kind == "f" and case["vclass"] in ("nonfinite", "extreme"):
        return "F07b"
    if case["op"].endswith(".acc") and case["lens"] and case["lens"][-1] == 0:
        return "F07a"
    return None
