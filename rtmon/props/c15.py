"""C15 -- indexing a run-length array equals indexing the dense array."""
import itertools
import numpy as np
from ..core import CTX, attempt, held, violated, undefined, same_array, short
from .. import gen, contracts, rl

PROP = "C15"
LEVEL_TEXT = 'numpy-on-decoded oracle for int / list / array / bool (array, list) / run-length-mask (encoded or produced by comparison) / slice / window indexing; systematic slice sweep over lengths 1..6 x bounds -8..8 x steps ±1..3. Exploration.'
LEVEL_NOTE = "trusts numpy 2.x, CPython (copy.copy, slice semantics, big ints) and the reference model in rtmon/props/c15.py; decides the executions it produces, nothing more"
TECHNIQUE = 'runtime monitoring: reference-model oracle (numpy on the decoded array) + systematic slice sweep'
DESIGN_REF = "DESIGN.md sections 0, 5 (C15), 7"
RULE = ("case = (dtype, values with a named run pattern, index: int | list | int array | bool array | run-length mask (encoded or produced by a comparison) | "
        "slice | start/stop vectors); systematic sweep of slices over lengths 1..6 with bounds in {None, -8..8} and steps {None, +-1, +-2, +-3}; "
        "oracle = numpy on the decoded array; distinct = hash of the case; non-trivial = length >= 2")
ASSUMPTIONS = ["integer positions are in range (the statement does not promise refusal of out-of-range positions)", "windows are non-empty"]
ANCHORS = ["runlengtharray.py::RunLengthArray._get_position", "runlengtharray.py::RunLengthArray._get_slice", "runlengtharray.py::RunLengthArray._start_to_end",
           "runlengtharray.py::RunLengthArray._step_subset", "runlengtharray.py::RunLengthArray._getitem_bool", "runlengtharray.py::RunLengthArray._ragged_slice",
           "runlengtharray.py::RunLengthArray.__getitem__", "mixin.py::NPSIndexable.__getitem__"]
KINDS = ["int", "list", "array", "boolarray", "boollist", "rlmask", "cmpmask", "slice", "windows"]
FLOOR_TAGS = ["k:" + k for k in KINDS] + ["step:+1", "step:+k", "step:-1", "step:-k", "bounds:oob", "bounds:in", "result:empty", "mask:allfalse", "mask:alltrue", "int:negative",
                                          "kind:b", "kind:i", "kind:u", "kind:f", "index:readonly", "k:virtual", "virtual:2**53", "virtual:2**31", "receiver:subclass", "step:huge", "windows:narrow-dtype", "windows:len-exceeds-dtype", "index:2d", "rlmask:astype", "rlmask:invert", "rlmask:used-before", "index:not-C-contiguous", "rlmask:concat"]
FLOOR_MONITORS = ["c15:compare", "c15:canonical", "inv:rla", "c15:arguments-unchanged"]
FP_STRICT = True       # a floating-point event inside the library that the dense computation does not have is a violation (shard.FpMonitor)
N_RANDOM = {"quick": 24000, "thorough": 300000}


def setup(lib):
    contracts.attach(lib, which=("rla", "ragged"))


_SUB = []


def _subclass():
    if not _SUB:
        class UserRunLengthArray(CTX.lib.RunLengthArray):
            """a user subclass: one extra method, nothing overridden"""

            def n_runs(self):
                return len(self.values)
        _SUB.append(UserRunLengthArray)
    return _SUB[0]


def mk_case(dtype, vals, kind, idx, **kw):
    c = {"dtype": dtype, "vals": vals, "kind": kind, "idx": idx}
    c.update(kw)
    return c


def run_virtual(case):
    """an array far too long to exist densely (up to 2**62 elements), 0 everywhere except 1 on [lo, hi): run-length encoded it is three runs.
    Slices (and slices of slices) are probed element by element against python's own range arithmetic."""
    lib = CTX.lib
    L, lo, hi = case["L"], case["lo"], case["hi"]
    tags = ["k:virtual", "kind:i", "virtual:2**%d" % (L.bit_length() - 1)]
    b = attempt(lambda: lib.RunLength2dArray.from_intervals(np.array([lo]), np.array([hi]), L)[0])
    if not b.ok or not isinstance(b.value, lib.RunLengthArray):
        return undefined("cannot build the virtual array: %r" % (b,), tags)
    r = b.value
    dense = lambda p: 1 if lo <= p < hi else 0
    CTX.tick("c15:compare")
    if len(r) != L:
        return violated("virtual array of length %d reports len %d" % (L, len(r)), tags)
    positions = range(L)
    desc = "array of %d elements (1 on [%d, %d))" % (L, lo, hi)
    for sl in case["slices"]:
        sub = attempt(lambda: r[sl])
        positions = positions[sl]
        desc += "[%s]" % short(sl)
        st = 1 if sl.step is None else sl.step
        tags.append("step:+1" if st == 1 else ("step:+k" if st > 0 else ("step:-1" if st == -1 else "step:-k")))
        if abs(st) >= 2 ** 31:
            tags.append("step:huge")
        if not sub.ok:
            return violated("%s raised %s: %s" % (desc, type(sub.exc).__name__, sub.exc), tags)
        r = sub.value
        if not isinstance(r, lib.RunLengthArray):
            return violated("%s returned a %s" % (desc, type(r).__name__), tags)
        if len(r) != len(positions):
            return violated("%s has %d elements, python's range arithmetic says %d" % (desc, len(r), len(positions)), tags)
        if len(positions) == 0:
            tags.append("result:empty")
            return held(tags, True)
        c = rl.canonical(r, joined=False) if len(positions) <= 5000 else None
        if c:
            return violated("%s is not canonical: %s" % (desc, c), tags + ["not-canonical"])
        # probe both ends and around every place where the value changes
        ks = {0, len(positions) - 1, len(positions) // 2}
        for edge in (lo, hi):
            if positions.step > 0:
                k0 = (edge - positions.start) // positions.step
            else:
                k0 = (positions.start - edge) // (-positions.step)
            ks.update(k for k in range(k0 - 3, k0 + 4) if 0 <= k < len(positions))
        for k in sorted(ks):
            for kk in (k, k - len(positions)):
                g = attempt(lambda: int(r[kk]))
                if not g.ok or g.value != dense(positions[k]):
                    return violated("%s[%d] gives %s, the dense array has %d at position %d" % (desc, kk, repr(g) if not g.ok else g.value, dense(positions[k]), positions[k]), tags + ["virtual-probe"])
    return held(tags, True)


def gen_virtual(rng):
    L = rng.choice([2 ** 31 - 1, 2 ** 31, 2 ** 31 + 5, 2 ** 32 + 7, 2 ** 40, 2 ** 53 + 1000, 2 ** 53 + 1000, 2 ** 62, 10 ** 6 + 3])
    near = [0, 5, L - 1, L - 7, L // 2] + [x for x in (2 ** 31 - 1, 2 ** 31, 2 ** 32, 2 ** 53, 2 ** 53 + 1) if x < L]
    lo = rng.choice(near)
    hi = rng.choice([x for x in near + [L, lo + 1, lo + 2 ** 20] if lo < x <= L])

    def sl(n):
        b = lambda: rng.choice([None, None, rng.randint(-n - 2, n + 2), rng.choice([0, 1, 7, n - 3, -3, n // 2])])
        return slice(b(), b(), rng.choice([None, 1, 2, 3, -1, -2, -3, 7, 10, 2 ** 31, -(2 ** 31), 2 ** 20 + 1]))
    s1 = sl(L)
    n1 = len(range(L)[s1])
    slices = [s1] + ([sl(n1)] if n1 and rng.random() < 0.4 else [])
    return {"kind": "virtual", "dtype": "int64", "vals": [], "idx": None, "L": L, "lo": lo, "hi": hi, "slices": slices}


def run(case):
    if case["kind"] == "virtual":
        return run_virtual(case)
    if case["kind"] == "labels":
        return rl.run_labels(case, "index")
    lib = CTX.lib
    RLA = lib.RunLengthArray
    dt = np.dtype(case["dtype"])
    v = np.array(case["vals"]).astype(dt)
    if case.get("swap") and dt.kind in "iu" and dt.itemsize > 1:
        v = v.astype(dt.newbyteorder())          # the same values in non-native byte order (what reading a big-endian file gives)
        tags_swap = ["byteswapped"]
    else:
        tags_swap = []
    L = len(v)
    kind, idx = case["kind"], case["idx"]
    tags = ["k:" + kind, "kind:" + dt.kind] + tags_swap
    if case.get("subclass"):
        r = _subclass().from_array(v.copy())           # an instance of a user subclass (masks stay plain run-length arrays)
        tags.append("receiver:subclass")
    else:
        r = RLA.from_array(v.copy())
    joined = None
    args = []          # the caller's index arrays: (array, copy taken before the call)

    def mine(x):
        """register a caller-owned index array (optionally read-only: a read must not need to write into it)"""
        if case.get("readonly"):
            x.setflags(write=False)
            tags.append("index:readonly")
        args.append((x, x.copy()))
        return x
    if kind == "int":
        if idx < 0:
            tags.append("int:negative")
        i = idx if case.get("np") is None else (np.int64(idx) if case["np"] is True else np.dtype(case["np"]).type(idx))
        exp = v[idx]
        a = attempt(lambda: r[i])
        dec = lambda x: np.asarray(x)
        want = "scalar"
    elif kind in ("list", "array"):
        idt_ = case.get("idtype", "int64")
        if len(idx) and not (np.iinfo(idt_).min <= min(idx) and max(idx) <= np.iinfo(idt_).max):
            idt_ = "int64"          # (a forced large array: the drawn index type cannot hold its positions)
        q = list(idx) if kind == "list" else mine(np.array(idx, dtype=idt_))
        exp = v[np.array(idx, dtype=np.int64)]
        if kind == "array" and case.get("ishape"):
            # an index array with more than one dimension: the result has the shape of the index, as for the dense array
            q = np.array(idx, dtype=idt_).reshape(case["ishape"])
            if (len(idx) + L) % 3 == 0 and q.size > 1:
                q = np.asfortranarray(q)          # the same table of positions laid out column by column in memory (a transposed view, a Fortran-ordered file)
                tags.append("index:not-C-contiguous")
            elif (len(idx) + L) % 3 == 1 and q.ndim == 2:
                q = np.ascontiguousarray(q.T).T
                tags.append("index:not-C-contiguous")
            q = mine(q)
            exp = v[np.array(idx, dtype=np.int64).reshape(case["ishape"])]
            tags.append("index:%dd" % len(case["ishape"]))
        a = attempt(lambda: r[q])
        dec = np.asarray
        want = "dense"
    elif kind in ("boolarray", "boollist"):
        m = np.array(idx, dtype=bool)
        exp = v[m]
        mm = mine(m.copy()) if kind == "boolarray" else [bool(b) for b in idx]
        a = attempt(lambda: r[mm])
        dec = np.asarray
        want = "dense"
    elif kind in ("rlmask", "cmpmask"):
        if kind == "rlmask":
            m = np.array(idx, dtype=bool)
            via = case.get("via", "from_array")
            tags.append("rlmask:" + via)
            if via == "astype":
                # the mask is the boolean form of an encoded vector of codes: neighbouring runs with different non-zero codes become equal neighbours
                codes = np.where(m, 1 + (np.arange(L) // 2) % 3, 0).astype(case.get("codetype", "int64"))
                mask = RLA.from_array(codes).astype(bool)
            elif via == "invert":
                mask = ~RLA.from_array(~m)
            elif via == "and":
                alt = np.arange(L) % 2 == 0
                mask = RLA.from_array(m | alt) & RLA.from_array(m | ~alt)
            elif via == "concat" and L >= 2:
                # two masks joined end to end: the seam may lie inside a stretch of equal values (neighbouring runs with the same truth value)
                k_ = 1 + (int(m.sum()) + L) % (L - 1)
                mask = np.concatenate([RLA.from_array(m[:k_].copy()), RLA.from_array(m[k_:].copy())])
            elif via == "slice":
                mask = RLA.from_array(np.concatenate([~m[:2], m, m[:1]]))[len(m[:2]):len(m[:2]) + L]
            else:
                mask = RLA.from_array(m.copy())
        else:
            thr = idx
            mask = r > thr if case.get("op", "gt") == "gt" else r != thr     # keeps the runs of r: adjacent runs may have the same truth value
            m = (v > thr) if case.get("op", "gt") == "gt" else (v != thr)
        if not m.any():
            tags.append("mask:allfalse")
        if m.all():
            tags.append("mask:alltrue")
        exp = v[m]
        if case.get("prior") and L:
            # the same mask object has answered for another array first -- same length, same number of runs, other run boundaries (the mirror image)
            tags.append("rlmask:used-before")
            CTX.tick("c15:mask-used-before")
            v0 = v[::-1].copy()
            p0 = attempt(lambda: rl.decode(RLA.from_array(v0.copy())[mask]))
            if not p0.ok or not same_array(np.asarray(p0.value), v0[m], dtype=True):
                return violated("rla[mask] on encoded %s %s with run-length mask %s gives %s, numpy gives %s" % (dt, short(v0, 120), short(m, 100), short(p0.value, 120) if p0.ok else repr(p0), short(v0[m], 120)), tags)
        a = attempt(lambda: r[mask])
        dec = rl.decode
        want = "rla"
    elif kind == "slice":
        s = idx
        st = 1 if s.step is None else s.step
        tags.append("step:+1" if st == 1 else ("step:+k" if st > 0 else ("step:-1" if st == -1 else "step:-k")))
        oob = lambda x: x is not None and (x > L or x < -L)
        tags.append("bounds:oob" if (oob(s.start) or oob(s.stop)) else "bounds:in")
        exp = v[s]
        a = attempt(lambda: r[s])
        dec = rl.decode
        want = "rla"
        joined = st != 1
        if abs(st) >= 2 ** 31:
            tags.append("step:huge")
    else:
        vd = case.get("vdtype", "int64")        # the start / stop vectors in any integer type that holds the bounds
        starts = mine(np.array(idx[0], dtype=vd))
        stops = mine(np.array(idx[1], dtype=vd))
        if vd != "int64":
            tags.append("windows:narrow-dtype")
            if L > np.iinfo(vd).max:
                tags.append("windows:len-exceeds-dtype")
        exp = [v[s:e] for s, e in zip(starts.tolist(), stops.tolist())]
        a = attempt(lambda: r[starts:stops])
        want = "windows"
    desc = "rla[%s] (%s) on encoded %s %s" % (short(idx, 120), kind, dt, short(v, 140))
    CTX.tick("c15:compare")
    for x, b4 in args:
        CTX.tick("c15:arguments-unchanged")
        if not np.array_equal(x, b4):
            return violated("%s modified the caller's index array: %s -> %s" % (desc, short(b4, 100), short(x, 100)), tags + ["argument-mutated"])
    if not a.ok:
        return violated("%s raised %s: %s" % (desc, type(a.exc).__name__, a.exc), tags, got=repr(a))
    g = a.value
    if want == "windows":
        rows = attempt(lambda: [np.asarray(row.to_array()) for row in g])
        if not rows.ok:
            return violated("%s: windows cannot be decoded: %r" % (desc, rows), tags)
        if len(rows.value) != len(exp) or not all(same_array(x, y, dtype=True) for x, y in zip(rows.value, exp)):
            return violated("%s gives windows %s, expected %s" % (desc, short([x.tolist() for x in rows.value], 160), short([y.tolist() for y in exp], 160)), tags)
        if not isinstance(g, lib.RunLengthRaggedArray):
            return violated("%s returned a %s, not a ragged run-length array" % (desc, type(g).__name__), tags)
        return held(tags, L >= 2)
    if want == "rla" and not isinstance(g, RLA):
        return violated("%s returned a %s, not a RunLengthArray" % (desc, type(g).__name__), tags, got=short(g))
    if want == "dense" and not isinstance(g, np.ndarray):
        return violated("%s returned a %s, not a dense array" % (desc, type(g).__name__), tags, got=short(g))
    if want == "scalar" and not (isinstance(g, np.generic) or (isinstance(g, np.ndarray) and g.ndim == 0)):
        return violated("%s returned a %s, not a scalar" % (desc, type(g).__name__), tags, got=short(g))
    d = attempt(dec, g)
    if not d.ok:
        return violated("%s: result cannot be decoded: %r" % (desc, d), tags)
    d = np.asarray(d.value)
    exp = np.asarray(exp)
    if len(np.atleast_1d(exp)) == 0:
        tags.append("result:empty")
    if not same_array(d, exp, dtype=True):
        return violated("%s gives %s %s, numpy gives %s %s" % (desc, d.dtype, short(d, 160), exp.dtype, short(exp, 160)), tags, got=d, expected=exp)
    if want == "rla":
        CTX.tick("c15:canonical")
        c = rl.canonical(g, joined=bool(joined))
        if c:
            return violated("%s is not canonical: %s" % (desc, c), tags + ["not-canonical"])
        # the result is a run-length array like any other -- also when it has no element at all: questions that are legal on a dense array of
        # that length (no position, an all-false mask of its length, its first and last element, the whole of it) get the dense answers
        n2 = len(exp)
        CTX.tick("c15:result-indexed-again", n2 == 0)
        follow = [("[]", lambda x: x[[]], exp[[]]), ("empty integer array", lambda x: x[np.array([], dtype=np.int64)], exp[np.array([], dtype=np.int64)]),
                  ("all-false mask", lambda x: x[np.zeros(n2, dtype=bool)], exp[np.zeros(n2, dtype=bool)]), ("[:]", lambda x: x[:], exp[:])]
        if n2:
            follow += [("[0, -1]", lambda x: x[[0, -1]], exp[[0, -1]]), ("[::-1]", lambda x: x[::-1], exp[::-1])]
        for nm_, f_, e_ in follow:
            o_ = attempt(lambda: np.asarray(rl.decode(f_(g))) if isinstance(f_(g), RLA) else np.asarray(f_(g)))
            if not o_.ok or not same_array(o_.value, np.asarray(e_), dtype=True):
                return violated("%s, then %s on the result (%d elements): %s, numpy gives %s" % (desc, nm_, n2, repr(o_) if not o_.ok else "%s %s" % (o_.value.dtype, short(o_.value, 100)), short(e_, 100)),
                                tags + ["result-indexed-again"])
    if not same_array(r.to_array(), v):
        return violated("%s modified the indexed array" % desc, tags)
    return held(tags, L >= 2)


# ----------------------------------------------------------------------------- workloads

def gen_case(rng, tier, kind=None, dtype=None):
    dtype = dtype or (rng.choice(gen.DT_ALL) if rng.random() < 0.92 else rng.choice(gen.DT_EXOTIC))
    maxlen = 12 if tier == "quick" else 50
    isf = np.dtype(dtype).kind == "f"
    v, style = rl.gen_runs(rng, dtype, rng.choice(["close", "nonfinite", "extreme"]) if (isf and rng.random() < 0.45) else ("extreme" if rng.random() < 0.1 else "small"), maxlen)
    L = len(v)
    kind = kind or rng.choice(KINDS)
    vals = v.tolist()
    if kind == "int":
        if rng.random() < 0.2:
            Lm = rng.randint(65, 127)
            vals = (vals * (Lm // L + 1))[:Lm]
            L = Lm
        c = mk_case(dtype, vals, kind, rng.randint(-L, L - 1))
        if rng.random() < 0.6:
            fits = [d for d in gen.NP_INTS if np.iinfo(d).min <= c["idx"] <= np.iinfo(d).max]
            c["np"] = rng.choice(fits)          # a numpy integer of any type that holds the position (possibly not position + length)
        return c
    if kind in ("list", "array"):
        u_ = rng.random()
        if kind == "array" and u_ < 0.25:
            # a mid-length array indexed through a NARROW index type that can hold every position but not position + length
            Lm, it_ = rng.choice([(rng.randint(65, 127), "int8"), (rng.randint(129, 255), "uint8"), (rng.randint(65, 127), "int8"), (rng.randint(200, 255), "int16")])
            vals = (vals * (Lm // L + 1))[:Lm]
            L = Lm
            lo_ = 0 if it_ == "uint8" else -L
            c = mk_case(dtype, vals, kind, [rng.randint(lo_, L - 1) for _ in range(rng.randint(1, 9))] + ([-1, -L] if lo_ else [L - 1]))
            c["idtype"] = it_
            return c
        if u_ > 0.92:
            # more look-ups than the array has elements (at least 1024 of them), negative positions among them
            m_ = rng.randint(1024, 1500)
            c = mk_case(dtype, vals, kind, [rng.randint(-L, L - 1) for _ in range(m_)])
            if kind == "array":
                c["idtype"] = rng.choice(["int64", "int32"])
            return c
        c = mk_case(dtype, vals, kind, [rng.randint(-L, L - 1) for _ in range(rng.randint(1, 7))])
        if kind == "array" and rng.random() < 0.25:
            a_, b_ = rng.randint(1, 4), rng.randint(1, 4)
            c["idx"] = [rng.randint(-L, L - 1) for _ in range(a_ * b_ * (2 if rng.random() < 0.3 else 1))]
            c["ishape"] = [a_, b_] if len(c["idx"]) == a_ * b_ else [a_, 2, b_]
        if kind == "array":
            c["readonly"] = rng.random() < 0.3
            c["idtype"] = rng.choice(["int64", "int64", "int32", "intp", "int16", ">i8", ">i4"])
            if rng.random() < 0.25 and "ishape" not in c:
                # many more positions than the array has runs, in no particular order, carried by an unsigned type (differences of neighbours wrap)
                c["idx"] = [rng.randint(0, L - 1) for _ in range(rng.randint(8, 40))]
                c["idtype"] = rng.choice(["uint8", "uint16", "uint32", "uint64"])
        return c
    if kind in ("boolarray", "boollist", "rlmask"):
        p = rng.choice([0.0, 0.5, 0.5, 1.0])
        if kind == "rlmask" and rng.random() < 0.6:
            m = np.resize(rl.gen_runs(rng, "bool", "small", L)[0], L).astype(bool).tolist()
        else:
            m = [rng.random() < p for _ in range(L)]
        c = mk_case(dtype, vals, kind, m, readonly=(kind == "boolarray" and rng.random() < 0.3))
        if kind == "rlmask" and rng.random() < 0.5:
            c["via"] = rng.choice(["astype", "astype", "invert", "and", "slice", "concat", "concat"])      # masks that are themselves results of run-length operations
            c["codetype"] = rng.choice(["int64", "uint8", "int8", "float64"])
        if kind == "rlmask" and rng.random() < 0.4:
            c["prior"] = True
        return c
    if kind == "cmpmask":
        if np.dtype(dtype).kind == "b":
            return mk_case(dtype, vals, kind, False, op="ne")
        return mk_case(dtype, vals, kind, rng.choice(vals + [0]), op=rng.choice(["gt", "ne"]))
    if kind == "slice":
        s = gen.gen_slice(rng, L)
        if rng.random() < 0.08:      # steps / bounds far beyond any array length (python clamps them)
            big = rng.choice([2 ** 31, -2 ** 31, 2 ** 31 - 2, -(2 ** 31 - 2), 2 ** 40, -2 ** 40, 2 ** 62, -2 ** 62, 2 ** 31 - L])
            s = slice(s.start, s.stop, big) if rng.random() < 0.7 else slice(rng.choice([s.start, 2 ** 40, -2 ** 40]), rng.choice([s.stop, 2 ** 40, -2 ** 40]), s.step)
        return mk_case(dtype, vals, kind, s)
    if rng.random() < 0.25:
        # a long array, windows near its start: the bounds fit a narrow integer type although the array length does not
        reps = rng.choice([130, 260, 300])
        vals = (vals * (reps // L + 1))[:reps]
        L = len(vals)
    k = rng.randint(1, 5)
    hi = L if L < 100 else rng.choice([100, min(120, L), L])
    st = [rng.randint(0, hi - 1) for _ in range(k)]
    en = [rng.randint(s_ + 1, hi) for s_ in st]
    if rng.random() < 0.15 and hi >= 2:
        # consecutive, non-empty windows given by one offsets vector (offsets[:-1], offsets[1:]); inner bounds often coincide with run boundaries.
        # (Empty windows are left out: a ragged run-length array cannot hold an empty row -- the current tree refuses to decode one -- so there is
        # no behaviour to hold a changed tree against.)
        offs = sorted(set([0] * (rng.random() < 0.7) + [rng.randint(0, hi) for _ in range(k)] + [hi] * (rng.random() < 0.7)))
        if len(offs) >= 2:
            st, en = offs[:-1], offs[1:]
    fits = [d for d in gen.NP_INTS if max(en) <= np.iinfo(d).max]
    return mk_case(dtype, vals, "windows", [st, en], vdtype=rng.choice(fits + ["int64"]), readonly=rng.random() < 0.2)


def directed():
    import random
    rng = random.Random(1515)
    for _ in range(160):
        yield rl.gen_labels(rng)
    for dtype in gen.DT_ALL:
        for kind in KINDS:
            for _ in range(6):
                yield gen_case(rng, "quick", kind, dtype)
    v = [3, 3, 3, 7, 7, 1, 1, 1, 1, 9]
    for s in [slice(None, None, -2), slice(20, -20, -4), slice(7, 1, -3), slice(None, 40), slice(-40, None), slice(40, None), slice(None, -40), slice(40, None, -1),
              slice(-1, None, -1), slice(3, 3), slice(5, 2), slice(2, 5, -1), slice(None, None, 3), slice(1, None, 7), slice(-3, None, 2), slice(None, None, -7)]:
        for dtype in ["int64", "float32", "bool"]:
            yield mk_case(dtype, v, "slice", s)
    for vals in ([1.7e9, 1.7e9 + 1, 1.7e9 + 1, 1.7e9 + 2, 1.7e9], [1e-9, 2e-9, 2e-9, 0.0, 1e-9, 3e-9]):
        for st in (2, -1, -2, 3):
            yield mk_case("float64", vals, "slice", slice(None, None, st))
    yield mk_case("float32", [1000.0, 1000.001, 1000.001, 1000.002, 1000.0], "slice", slice(None, None, -1))
    # many distinct runs, negative steps of a few hundred (a multiple of the mean run length), steps of exactly +-len, +-(len-1), +-(len+1)
    for L_ in (200, 1201):
        vals_ = [(i * 37) % 101 + (i % 2) * 1000 for i in range(L_)]
        for st_ in (-300, -250, -65, -64, 65, 130, -L_, L_, -(L_ - 1), L_ - 1, -(L_ + 1), -199, -7):
            for a_, b_ in ((None, None), (L_ - 2, 3), (None, 10), (L_ // 2, None)):
                yield mk_case("int32", vals_, "slice", slice(a_, b_, st_))
    # tens of thousands of look-ups in one unsorted position vector
    big_idx = [((i * 7919) % 600) - 300 for i in range(60000)]
    yield mk_case("int64", [(i * 5) % 17 for i in range(300)], "array", big_idx, idtype="int64")
    yield mk_case("float64", [float((i * 5) % 17) for i in range(300)], "list", big_idx[:52000])
    # infinities / huge values of opposite sign that become neighbours only after striding
    inf = float("inf")
    for dtype, vals in (("float64", [inf, 1.0, inf, 2.0, inf]), ("float64", [-inf, 0.0, -inf, -inf, 5.0, -inf]), ("float32", [3e38, 1.0, -3e38, 1.0, 3e38]), ("float64", [1.7e308, 0.5, -1.7e308, 0.5, 1.7e308]),
                        ("float32", [inf, -inf, inf, -inf]), ("float64", [float("nan"), 1.0, float("nan"), 1.0, inf, 1.0, inf])):
        for s in (slice(None, None, 2), slice(None, None, -2), slice(1, None, 2), slice(None, None, 3), slice(None, None, -1), slice(4, None, -2)):
            yield mk_case(dtype, vals, "slice", s)
        yield mk_case(dtype, vals, "boolarray", [i % 2 == 0 for i in range(len(vals))])
        yield mk_case(dtype, vals, "rlmask", [i % 2 == 0 for i in range(len(vals))])
        yield mk_case(dtype, vals, "array", [0, 2, 4 % len(vals), 0])
    yield mk_case("int64", v, "cmpmask", 0, op="gt")
    yield mk_case("int64", v, "cmpmask", 1, op="ne")
    yield mk_case("int64", v, "cmpmask", 100, op="gt")
    yield mk_case("int64", [5], "rlmask", [True])
    yield mk_case("int64", [5], "rlmask", [False])
    yield mk_case("int64", [5, 5, 6], "windows", [[0, 0, 2, 1], [3, 1, 3, 2]])
    import random as _random
    vr = _random.Random(1553)
    for _ in range(300):
        yield gen_virtual(vr)


def sweep(tier):
    """every length 1..6 x start, stop in {None, -8..8} x step in {None, +-1, +-2, +-3} x two run patterns"""
    bounds = [None] + list(range(-8, 9)) if tier != "quick" else [None, -8, -5, -3, -2, -1, 0, 1, 2, 3, 5, 8]
    steps = [None, 1, -1, 2, -2, 3, -3]
    lengths = range(1, 7) if tier != "quick" else [1, 2, 3, 5]
    for L in lengths:
        pats = [[(i * 7) % 5 for i in range(L)], [i // 2 for i in range(L)]] + ([[1] * L] if tier != "quick" else [])
        for vals in pats:
            for a, b, st in itertools.product(bounds, bounds, steps):
                yield mk_case("int64", vals, "slice", slice(a, b, st))


def _with_swap(rng, c):
    """one case in eight with integer elements gets them in non-native byte order"""
    if isinstance(c, dict) and "dtype" in c and np.dtype(c["dtype"]).kind in "iu" and rng.random() < 0.12:
        c["swap"] = True
    return c


def const_case(rng, tier, s, form):
    """a number taken from the library source (+-1) as the length of the array / its number of runs / the length of one run (through the forced first size of
    the case's generator), or -- forms "nonempty", "emptyrun" -- as the number of positions in one look-up (1-d, and 2-d when it factors)"""
    if form in ("nonempty", "emptyrun") and s <= 300000:
        gen.FORCED["used"] += 1        # (this case does not draw its size from the run generator)
        dtype = rng.choice(gen.DT_ALL) if rng.random() < 0.9 else rng.choice(gen.DT_EXOTIC)
        v, _ = rl.gen_runs(rng, dtype, "small", 40 if form == "nonempty" else 400)
        L = len(v)
        idx = np.random.RandomState(rng.randrange(2 ** 32)).randint(-L, L, size=s).tolist()
        c = mk_case(dtype, v.tolist(), "array", idx)
        c["idtype"] = rng.choice(["int64", "int64", "int32"])
        f = [k for k in (2, 3, 4, 5, 7, 10, 11, 13, 16, 100, 256) if s % k == 0 and s // k > 1]
        if f:
            k = rng.choice(f)
            return [c, dict(c, ishape=[k, s // k] if rng.random() < 0.5 else [s // k, k])]        # the same positions as a vector and as a table
        return c
    c = random_case(rng, tier)
    return c if gen.FORCED["used"] else None


def random_case(rng, tier):
    if rng.random() < 0.04:
        return rl.gen_labels(rng, 14 if tier == "quick" else 40)
    if rng.random() < 0.06:
        return gen_virtual(rng)
    c = _with_swap(rng, gen_case(rng, tier))
    if rng.random() < 0.1:
        c["subclass"] = True
    return c


def classify(case, res):
    if case["kind"] in ("virtual", "labels"):
        return None
    if case["kind"] == "slice":
        s, L = case["idx"], len(case["vals"])
        oob = lambda x: x is not None and (x >= L or x < -L)
        if oob(s.start) or oob(s.stop):
            return "F15a"
    return None
