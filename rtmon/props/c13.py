"""C13 -- bit-packing is lossless and position-addressable.

Oracle: Python integer arithmetic, sum(a[i+j] << (b*j)).  All observations of one case are
made on the *same* packed object, in a case-given order, and unpack() is re-checked at the
end, so state left behind by one observer shows up in the next."""
import numpy as np
from ..core import CTX, attempt, held, violated, short, scribble

PROP = "C13"
LEVEL_TEXT = 'Python big-int oracle sum(a[i+j] << b*j); sweep over (b, lengths around register multiples, every w); all observations on the same packed object in a case-given order with unpack() re-checked at the end; results of list indexing exercised as packed arrays. Exploration.'
LEVEL_NOTE = "trusts numpy 2.x, CPython (copy.copy, slice semantics, big ints) and the reference model in rtmon/props/c13.py; decides the executions it produces, nothing more"
TECHNIQUE = 'runtime monitoring: reference-model oracle (Python integer arithmetic) + same-object observation sequences'
DESIGN_REF = "DESIGN.md sections 0, 5 (C13), 7"
RULE = ("case = (bits b, length, input dtype, values, window w, positions, order of observations); systematic sweep over "
        "(b, length around multiples of 64/b, w) + seeded random; distinct = hash of the case; non-trivial = length > 64/b (more than one register) or w > 1")
ASSUMPTIONS = ["values fit in b bits and are non-negative; window sizes satisfy w*b <= 64 and w <= length"]
ANCHORS = ["bitarray.py::BitArray.pack", "bitarray.py::BitArray.unpack", "bitarray.py::BitArray.__getitem__", "bitarray.py::BitArray.sliding_window"]
BITS = [1, 2, 4, 8, 16, 32, 64]
DTS = ["int8", "int16", "int32", "int64", "uint8", "uint16", "uint32", "uint64", ">i8", ">u8", ">i4", ">u2"]      # also non-native byte order
FLOOR_TAGS = ["b:%d" % b for b in BITS] + ["len:multiple", "len:multiple+1", "len:multiple-1", "len:<register", "w:1", "w:full", "w:mid", "style:rand", "style:ones", "style:alt", "style:sparse", "style:burst",
                                           "straddle", "twin", "receiver:decoding-subclass", "wtype:numpy", "w*b:54..63", "huge", "window-sizes-vary"]
FLOOR_MONITORS = ["c13:unpack", "c13:getint", "c13:getlist", "c13:window", "c13:unpack-again"]
FP_STRICT = True       # a floating-point event inside the library that the dense computation does not have is a violation (shard.FpMonitor)
N_RANDOM = {"quick": 24000, "thorough": 200000}
CONST_CAP = 2 ** 25      # sizes taken from the constants of the source (rtmon/codeconst.py): millions of packed values are cheap (vectorised oracle)


def mk_case(b, dtype, vals, w, pos, order="uiwlw"):
    return {"b": b, "dtype": dtype, "vals": vals, "w": w, "pos": pos, "order": order}


def run_huge(case):
    """millions of packed values (beyond any internal block size), formula-generated; vectorised oracle"""
    BA = CTX.lib.BitArray
    b, n, w = case["b"], case["n"], case["w"]
    tags = ["b:%d" % b, "huge", "w:mid"]
    small = np.uint8 if b <= 8 else (np.uint16 if b <= 16 else np.uint32)
    vals = (((np.arange(n, dtype=np.uint32) * np.uint32(40503)) >> np.uint32(5)) % np.uint32(2 ** b if b < 32 else 2 ** 31)).astype(small)      # (memory: the narrowest type that holds b bits)
    arr = vals if case.get("dtype") is None else vals.astype(case["dtype"])
    p = attempt(BA.pack, arr, b)
    if not p.ok:
        return violated("BitArray.pack of %d values (b=%d) raised %r" % (n, b, p), tags)
    ba = p.value
    CTX.tick("c13:unpack")
    u = attempt(lambda: np.asarray(ba.unpack()))
    if not u.ok or u.value.shape != (n,) or not np.array_equal(u.value, vals):
        k = int(np.flatnonzero(u.value != vals)[0]) if u.ok and u.value.shape == (n,) else -1
        return violated("unpack() of %d packed values (b=%d) differs from the input%s" % (n, b, " first at position %d" % k if k >= 0 else ": %r" % (u,)), tags + ["obs:u"])
    CTX.tick("c13:window", True)
    u = None
    o = attempt(lambda: np.asarray(ba.sliding_window(w)))
    k = -1
    if o.ok and o.value.shape == (n - w + 1,):
        # compared block by block (a few million windows at a time keep the oracle's memory small)
        B = 1 << 21
        for s0 in range(0, n - w + 1, B):
            e0 = min(n - w + 1, s0 + B)
            exp = np.zeros(e0 - s0, dtype=np.uint64)
            for j in range(w):
                exp |= vals[s0 + j:e0 + j].astype(np.uint64) << np.uint64(b * j)
            bad_ = np.flatnonzero(o.value[s0:e0].astype(np.uint64) != exp)
            if len(bad_):
                k = s0 + int(bad_[0])
                exp = {k: int(exp[bad_[0]])}
                break
    if not o.ok or o.value.shape != (n - w + 1,) or k >= 0:
        return violated("sliding_window(%d) over %d packed values (b=%d): %s" % (w, n, b, ("first wrong window at position %d: %#x, expected %#x" % (k, int(o.value[k]), int(exp[k]))) if k >= 0 else repr(o)[:200]),
                        tags + ["obs:w"])
    CTX.tick("c13:getint")
    o = None
    for q in (0, n - 1, 2 ** 22 - 1, 2 ** 22, 2 ** 22 + 1, n // 2, 2 ** 24 - 1, 2 ** 24, 12500000, 12500031):
        if q < n:
            g = attempt(lambda: int(ba[q]))
            if not g.ok or g.value != int(vals[q]):
                return violated("packed[%d] of %d values gives %s, expected %d" % (q, n, repr(g) if not g.ok else g.value, int(vals[q])), tags + ["obs:i"])
    CTX.tick("c13:getlist", True)
    pos = [2 ** 22 - 2, n - 3, 2 ** 22 - 1, 17, 2 ** 22, n // 2, 2 ** 22 + 1, 42, 5, n // 3, n - 1, 2 ** 24 + 3, 12500001]      # (not sorted, and its sorting permutation is not its own inverse)
    pos = [q for q in pos if q < n]
    g = attempt(lambda: np.asarray(ba[pos].unpack()).tolist())
    if not g.ok or g.value != [int(vals[q]) for q in pos]:
        return violated("packed[%s].unpack() of %d values gives %s" % (pos, n, repr(g) if not g.ok else g.value), tags + ["obs:l"])
    CTX.tick("c13:unpack-again")
    return held(tags, True)


_SUBS = {}


def _decoding_subclass(BA):
    if BA not in _SUBS:
        class Decoding(BA):
            def unpack(self):
                return np.asarray(super().unpack()).astype(np.int64) + 100000
        _SUBS[BA] = Decoding
    return _SUBS[BA]


def run(case):
    if case.get("huge"):
        return run_huge(case)
    BA = CTX.lib.BitArray
    unp = lambda x: np.asarray(x).tolist()
    if case.get("subclass") and case["b"] <= 32:
        # a user subclass that decodes to something of its own (letters for 2-bit codes, here: the numbers moved by a constant): what the packed
        # array answers -- elements, windows -- is a matter of the stored digits, not of the decoded form
        BA = _decoding_subclass(BA)
        unp = lambda x: [int(v) - 100000 for v in np.asarray(x).tolist()]
    b, vals, w, pos = case["b"], case["vals"], case["w"], case["pos"]
    dt = np.dtype(case["dtype"])
    per = 64 // b
    L = len(vals)
    arr = np.array(vals, dtype=dt)
    style = case.get("style", "rand")
    tags = ["b:%d" % b, "dt:" + dt.str, "style:" + style,
            "len:multiple" if L % per == 0 else ("len:multiple+1" if L % per == 1 and L > per else ("len:multiple-1" if L % per == per - 1 else ("len:<register" if L < per else "len:other"))),
            "w:1" if w == 1 else ("w:full" if w == per else "w:mid")] + (["wtype:numpy"] if case.get("wtype") else []) + (["w*b:54..63"] if 54 <= w * b <= 63 else [])
    if L > per and w > 1:
        tags.append("straddle")
    if case.get("subclass") and b <= 32:
        tags.append("receiver:decoding-subclass")
    p = attempt(BA.pack, arr, b)
    desc = "BitArray.pack(%s %s, %d)" % (dt, short(vals, 100), b)
    if not p.ok:
        return violated("%s raised %r" % (desc, p), tags)
    ba = p.value
    if arr.flags.writeable and L:
        arr[...] = arr[::-1].copy() if len(set(vals)) > 1 else np.array([(x + 1) % (2 ** b) for x in vals]).astype(arr.dtype)       # the caller reuses his input buffer: the packed array is a snapshot
        tags.append("input-reused")

    def obs_u():
        CTX.tick("c13:unpack")
        o = attempt(lambda: ba.unpack())
        if not o.ok or unp(o.value) != vals:
            return "unpack() gives %s" % (repr(o) if not o.ok else short(o.value, 160))
        scribble(o.value)      # the unpacked array belongs to the caller

    def obs_i():
        for q in pos[:4]:
            CTX.tick("c13:getint")
            o = attempt(lambda: int(ba[q]))
            if not o.ok or o.value != vals[q]:
                return "packed[%d] gives %s, expected %d" % (q, repr(o) if not o.ok else o.value, vals[q])
            o = attempt(lambda: int(ba[np.int64(q)]))
            if not o.ok or o.value != vals[q]:
                return "packed[np.int64(%d)] gives %s, expected %d" % (q, repr(o) if not o.ok else o.value, vals[q])

    def obs_l():
        CTX.tick("c13:getlist", len(pos) > 0)
        e = [vals[q] for q in pos]
        o = attempt(lambda: unp(ba[list(pos)].unpack()))
        if not o.ok or o.value != e:
            return "packed[%s].unpack() gives %s, expected %s" % (pos, repr(o) if not o.ok else short(o.value, 120), short(e, 120))
        pdt = ["int64", "int32", "intp", "uint16", ">i8", ">i4", "uint64"][len(pos) % 7]        # position vectors of several integer types, byte-swapped ones too
        o = attempt(lambda: unp(ba[np.array(pos, dtype=pdt)].unpack()))
        if not o.ok or o.value != e:
            return "packed[array(%s)].unpack() gives %s, expected %s" % (pos, repr(o) if not o.ok else short(o.value, 120), short(e, 120))
        # positions read back from another packed array (numpy's unsigned 64-bit integers) next to plain python ints in one list (numpy reads such a list as doubles)
        if len(pos) >= 2:
            mixed_ = [q if i_ % 2 else np.uint64(q) for i_, q in enumerate(pos)]
            CTX.tick("c13:getlist-mixed")
            o = attempt(lambda: unp(ba[mixed_].unpack()))
            if not o.ok or o.value != e:
                return "packed[a list mixing python ints and numpy uint64: %s].unpack() gives %s, expected %s" % (short(pos, 80), repr(o) if not o.ok else short(o.value, 120), short(e, 120))
        # "returns a packed array of those elements": it must answer like any packed array (element access, windows)
        w2 = min(w, len(e))
        if w2 >= 1:
            ew = [sum(e[i + j] << (b * j) for j in range(w2)) for i in range(len(e) - w2 + 1)]
            o = attempt(lambda: [int(x) for x in np.asarray(ba[list(pos)].sliding_window(w2)).tolist()])
            if not o.ok or o.value != ew:
                return "packed[%s].sliding_window(%d) gives %s, expected %s" % (short(pos, 80), w2, repr(o) if not o.ok else short(o.value, 100), short(ew, 100))
            k = len(e) // 2
            o = attempt(lambda: int(ba[list(pos)][k]))
            if not o.ok or o.value != e[k]:
                return "packed[%s][%d] gives %s, expected %d" % (short(pos, 80), k, repr(o) if not o.ok else o.value, e[k])
            # ... and can be indexed with a list again: a run of consecutive positions that does not start at its beginning, and a scattered list
            if len(e) >= 3:
                a2 = 1 + (len(e) + L) % max(1, min(per, len(e) - 2))
                for sub in (list(range(a2, len(e))), list(range(len(e) - 1, -1, -2))):
                    o = attempt(lambda: unp(ba[list(pos)][sub].unpack()))
                    if not o.ok or o.value != [e[q] for q in sub]:
                        return "packed[%s][%s].unpack() gives %s, expected %s" % (short(pos, 60), short(sub, 60), repr(o) if not o.ok else short(o.value, 100), short([e[q] for q in sub], 100))

        # runs of consecutive positions, selected from selections of selections: each level starts off a register boundary, the second where the
        # first two offsets together reach into the next register
        if per >= 2 and per + 4 <= L <= 3000:
            for a1, a2, a3 in ((1, per - 1, 1), (per - 1, 1, 0), (per - 1, per - 1, 2), (1, 1, per)):
                if a1 + a2 + a3 + 1 >= L:
                    continue
                e3 = vals[a1 + a2 + a3:]
                CTX.tick("c13:nested-runs")
                o = attempt(lambda: (lambda x1: (lambda x2: (lambda x3: (unp(x3.unpack()), int(x3[len(e3) - 1]), int(x3[0])))(x2[list(range(a3, L - a1 - a2))]))(x1[list(range(a2, L - a1))]))(ba[list(range(a1, L))]))
                if not o.ok or o.value != (e3, e3[-1], e3[0]):
                    return "packed[%d:][%d:][%d:] (three runs of consecutive positions) gives %s, expected %s" % (a1, a2, a3, repr(o) if not o.ok else short(o.value, 120), short(e3, 100))

    wcalls = [0]

    def obs_w():
        # successive window observations on the same packed object use different window sizes (case["wseq"]: the first one is w): what one
        # call leaves behind on the object must not show in the next
        w0 = case["w"]
        wseq = [x for x in case.get("wseq", [w0]) if 1 <= x <= min(per, L)] or [w0]
        w = wseq[wcalls[0] % len(wseq)]
        wcalls[0] += 1
        if wcalls[0] > 1 and w != wseq[0]:
            tags.append("window-sizes-vary")
        exp_win = [sum(vals[i + j] << (b * j) for j in range(w)) for i in range(L - w + 1)]
        CTX.tick("c13:window", w > 1)
        wt = case.get("wtype")
        if wt and L > np.iinfo(wt).max:
            wt = None           # (a type that cannot hold the array length: numpy's own scalar arithmetic overflows, nothing to hold the library to)
        w_ = w if not wt else np.dtype(wt).type(w)      # the window size as a numpy integer (what np.arange / rng.integers / a shape hand out)
        o = attempt(lambda: ba.sliding_window(w_))
        if o.ok:
            wv = [int(x) for x in np.asarray(o.value).tolist()]
            scribble(o.value)
            o.value = wv
        if not o.ok or o.value != exp_win:
            bad = ""
            if o.ok and len(o.value) == len(exp_win):
                k = next(i for i in range(len(exp_win)) if o.value[i] != exp_win[i])
                bad = "; first wrong window at position %d: %#x, expected %#x" % (k, o.value[k], exp_win[k])
            return "sliding_window(%d) gives %s%s" % (w, repr(o) if not o.ok else "%d windows" % len(o.value), bad)

    obs = {"u": obs_u, "i": obs_i, "l": obs_l, "w": obs_w}
    done = ""
    twin = None
    if case.get("twin"):
        # a second packed array with another bit width is created and used in between: objects must not share state
        tb, tvals = case["twin"]["b"], case["twin"]["vals"]
        twin = CTX.lib.BitArray.pack(np.array(tvals, dtype=case["twin"].get("dtype", "uint64")), tb)
        tags.append("twin")
    for ch in case["order"]:
        done += ch
        if twin is not None:
            tu = attempt(lambda: np.asarray(twin.unpack()).tolist())
            tw = attempt(lambda: twin.sliding_window(min(2, len(tvals), 64 // tb)))       # (w * b <= 64)
            if not tu.ok or tu.value != tvals:
                return violated("%s: a second BitArray (b=%d) used in between unpacks to %s, expected %s" % (desc, tb, repr(tu) if not tu.ok else short(tu.value, 100), short(tvals, 100)), tags + ["twin-broken"])
        msg = obs[ch]()
        if msg:
            return violated("%s: %s (after observations '%s')" % (desc, msg, done), tags + ["obs:" + ch], expected=short(vals, 160))
    CTX.tick("c13:unpack-again")
    msg = obs_u()
    if msg:
        return violated("%s: after the observations '%s', %s" % (desc, done, msg), tags + ["state-left-behind"])
    return held(tags, L > per or w > 1)


# ----------------------------------------------------------------------------- workloads

def values(rng, b, L, style):
    if style == "ones":
        return [2 ** b - 1] * L
    if style == "alt":
        return [(2 ** b - 1) if i % 2 == 0 else 0 for i in range(L)]
    if style == "zero":
        return [0] * L
    if style in ("sparse", "burst"):
        # almost everything zero (far fewer than one entry in 64 set): a few isolated entries, pairs that share a 64-bit register, a burst of
        # consecutive non-zero entries that crosses a register boundary (two neighbouring registers occupied, all others empty)
        out = [0] * L
        per = 64 // b
        top = 2 ** b - 1
        val = lambda: rng.choice([top, 1, rng.randint(1, top)])
        if style == "sparse":
            for _ in range(rng.randint(1, 3)):
                i = rng.randrange(L)
                out[i] = val()
                if rng.random() < 0.7:
                    j = min(L - 1, i + rng.randint(1, max(1, per - 1)))       # a second entry nearby, usually in the same register
                    out[j] = val()
        else:
            k = rng.randrange(max(1, L // per)) * per if L > per else 0      # a register boundary
            a = max(0, k - rng.randint(1, max(1, per // 2)))
            for i in range(a, min(L, k + rng.randint(1, max(1, per // 2)))):
                out[i] = val()
        return out
    return [rng.randrange(2 ** b) for _ in range(L)]


def gen_case(rng, b, L, w=None, style=None, dtype=None):
    per = 64 // b
    style = style or rng.choice(["rand", "rand", "ones", "alt", "zero", "sparse", "burst"])
    dts = [d for d in DTS if np.iinfo(d).max >= 2 ** b - 1]
    dtype = dtype or rng.choice(dts)
    w = w or (rng.randint(1, min(per, L)) if rng.random() < 0.75 else max(1, per - rng.randint(0, min(10, per - 1))))     # windows of nearly a whole register too
    w = min(w, L, per)
    pos = [rng.randrange(L) for _ in range(rng.randint(1, min(2 * per + 3, 40)))]
    if rng.random() < 0.35 and L >= 2:
        # a run of consecutive positions, often longer than one register and not starting on a register boundary
        a = rng.randrange(L)
        ln = rng.randint(1, min(L - a, 2 * per + 5))
        pos = list(range(a, a + ln))
    order = "".join(rng.sample("uiwl", 4)) + rng.choice(["w", "u", "l", ""])
    c = mk_case(b, dtype, values(rng, b, L, style), w, pos, order)
    c["style"] = style
    if order.count("w") > 1 or rng.random() < 0.3:
        # the same object is asked for windows of several sizes, smaller and larger ones after one another
        top = min(per, L)
        c["wseq"] = [w] + [rng.choice([top, max(1, w - 1), min(top, w + 1), rng.randint(1, top)]) for _ in range(2)]
        c["order"] = order + "w" * rng.randint(1, 2)
    if rng.random() < 0.15:
        c["subclass"] = True
    if rng.random() < 0.3:
        c["wtype"] = rng.choice(["int64", "int32", "intp", "uint64", "int16"])      # types that hold the array length (numpy scalar arithmetic with a narrower type overflows by numpy's own rules)
    if rng.random() < 0.25:
        b2 = rng.choice([x for x in BITS if x != b] + [b])
        c["twin"] = {"b": b2, "vals": values(rng, b2, rng.randint(1, 2 * (64 // b2) + 1), "rand"),
                     "dtype": rng.choice([d for d in DTS if np.iinfo(d).max >= 2 ** b2 - 1])}
    return c


def directed():
    import random
    rng = random.Random(1313)
    for c in huge_cases():
        yield c
    for c in sparse_cases():
        yield c
    for b in BITS:
        per = 64 // b
        for L in [1, 2, per - 1, per, per + 1, 2 * per, 2 * per + 1, 3 * per + 1]:
            if L < 1:
                continue
            for style in ["rand", "ones", "alt"]:
                for w in sorted({1, 2, per // 2, per - 1, per}):
                    if 1 <= w <= min(L, per):
                        yield gen_case(rng, b, L, w, style)


def sparse_cases():
    """hundreds of registers, nearly all of them empty"""
    import random
    rng = random.Random(1314)
    for b in BITS:
        per = 64 // b
        for nreg in (130, 200, 300):
            for style in ("sparse", "burst"):
                for _ in range(2):
                    L = nreg * per + rng.choice([0, 1, per // 2])
                    c = gen_case(rng, b, L, style=style)
                    nz = [i for i, v in enumerate(c["vals"]) if v]
                    if nz:
                        c["pos"] = sorted(set(nz + [max(0, nz[0] - 1), min(L - 1, nz[-1] + 1), 0, L - 1]))[:40] + [nz[0], nz[0]]      # look-ups that name the occupied positions (also twice)
                    yield c


def sweep(tier):
    import random
    rng = random.Random(131313)
    for b in BITS:
        per = 64 // b
        if tier == "quick":
            lengths = sorted({1, 2, 3, per - 1, per, per + 1, 2 * per - 1, 2 * per, 2 * per + 1, 3 * per, 3 * per + 1})
        else:
            lengths = list(range(1, 3 * per + 2)) + [5 * per + 3, 11 * per - 1]
        for L in lengths:
            if L < 1:
                continue
            for w in range(1, min(per, L) + 1):
                if tier == "quick" and per > 16 and w not in (1, 2, 3, per // 2, per - 2, per - 1, per) and (w + L) % 5:
                    continue
                yield gen_case(rng, b, L, w, rng.choice(["rand", "rand", "alt", "ones"]))


def huge_cases():
    for b, w, n in ((8, 3, 2 ** 22 + 100), (2, 5, 2 ** 22 + 37), (16, 4, 2 ** 22 + 3), (8, 8, 2 ** 23 + 9), (8, 5, 2 ** 24 + 40), (32, 2, 9000000), (1, 33, 13000001), (4, 9, 2 ** 24 + 2 ** 22 + 5)):
        yield {"huge": True, "b": b, "w": w, "n": n}


def const_case(rng, tier, s, form):
    """a number taken from the library source (+-1) as the number of packed values / of 64-bit registers / of positions in one list look-up"""
    b = rng.choice(BITS)
    per = 64 // b
    if form in ("rows", "nonempty", "cells"):
        n = s if form != "cells" else s * per + rng.choice([-1, 0, 1, per // 2])
        if n < 1:
            return None
        if n > 60000:
            # formula-generated values, vectorised oracle: one case per bit width, the widest window and a random one
            if form == "cells":
                return None if s * 64 > 2 ** 25 else [{"huge": True, "b": b_, "w": rng.choice([64 // b_, rng.randint(1, 64 // b_)]), "n": s * (64 // b_) + d_}
                                                       for b_ in BITS if b_ != 64 for d_ in (0, 1)]
            return None if n > 2 ** 25 else [{"huge": True, "b": b_, "w": w_, "n": n} for b_ in BITS if b_ != 64 for w_ in sorted({64 // b_, rng.randint(1, 64 // b_)})]
        return gen_case(rng, b, n)
    L = rng.choice([s + 3, 2 * s + 1, s + per]) if form == "emptyrun" else rng.choice([7, s, s + 1, 3 * per + 2])
    if L > 60000 or s > 60000:
        return None
    c = gen_case(rng, b, L)
    if form == "emptyrun":
        a = rng.randrange(L - s + 1)
        c["pos"] = list(range(a, a + s))        # a run of exactly s consecutive positions
    else:
        c["pos"] = [rng.randrange(L) for _ in range(s)]      # one list look-up with exactly s positions
    return c


def random_case(rng, tier):
    b = rng.choice(BITS)
    per = 64 // b
    L = rng.choice([rng.randint(1, per), rng.randint(per, 3 * per + 2), rng.randint(1, 200 if tier == "quick" else 700)])
    return gen_case(rng, b, L)
