"""C02 -- indexing reads exactly the addressed cells, or refuses.

Monitor: every cell of the workload array carries a unique id encoding (row, col); the
result of ra[index] is compared with the same selectors applied to the plain list of rows
(kind, cells, order, grouping) and foreign ids are decoded for the witness."""
import itertools
import numpy as np
from ..core import CTX, attempt, held, violated, undefined, peek, short
from .. import gen, model, contracts

PROP = "C02"
LEVEL_TEXT = 'Address-sanitizer analogue for ragged indexing: unique cell ids, list-model oracle (Python slice semantics), systematic sweep of all column slices with bounds in -5..5 and steps ±1..3 over all shapes with <=2 (quick) / <=3 (thorough) rows of length 0..3, plus seeded index grammar on fresh, unmaterialised (4 kinds), ufunc-result and astype-result receivers, incl. 130001-row arrays. Exploration.'
LEVEL_NOTE = "trusts numpy 2.x, CPython (copy.copy, slice semantics, big ints) and the reference model in rtmon/props/c02.py; decides the executions it produces, nothing more"
TECHNIQUE = 'runtime monitoring: unique-id monitor + list-model oracle; systematic small-scope sweep + seeded random index grammar'
DESIGN_REF = "DESIGN.md sections 0, 5 (C02), 7"
RULE = ("case = (row lengths, row selector[, column selector]) on an int64 array of unique cell ids; "
        "directed list + systematic sweep of column slices over all shapes with rows of length 0..3 + seeded random index "
        "grammar; distinct = hash of the case; non-trivial = array has >= 2 rows and >= 1 non-empty row and the "
        "index addresses >= 1 cell or must be refused")
ASSUMPTIONS = ["receivers: freshly built arrays and four kinds of unmaterialised selections with the same content (program-level laziness is C06)",
               "boolean row masks have exactly n_rows entries (the statement's grammar)"]
ANCHORS = [
    "raggedarray/indexablearray.py::IndexableArray.__getitem__",
    "raggedarray/indexablearray.py::IndexableArray._get_row_subset",
    "raggedarray/indexablearray.py::IndexableArray._get_row_col_subset",
    "raggedarray/indexablearray.py::IndexableArray._get_element",
    "raggedshape.py::ViewBase._index_rows",
    "raggedshape.py::RaggedShape.view",
    "raggedshape.py::RaggedShape.view_rows",
    "raggedshape.py::RaggedView2.col_slice",
    "raggedshape.py::RaggedView2._pos_col_slice",
    "raggedshape.py::RaggedView2._calculate_lengths",
    "raggedshape.py::build_indices",
]
RECVS = ["fresh", "lazyrows", "lazycols+2", "lazycols-1", "lazychain", "ufunc", "astype", "deepcopy", "pickle", "copy-of-lazy", "readonly", "saveload", "concat", "fromnumpy", "fromnumpy-F", "tonumpy-called", "subclass", "was-argument", "byteswapped", "unsafe", "ctype-alias", "own-shape", "lazytail-parent-used", "lens-refilled", "rslice-result", "buffer-subclass", "fromnumpy-copied"]
FLOOR_TAGS = ["recv:" + r_ for r_ in RECVS] + ["mask-as-list", "r:int", "r:slice+1", "r:slice+k", "r:slice-", "r:list", "r:array", "r:mask", "r:ell",
              "c:none", "c:int+", "c:int-", "c:slice+1", "c:slice+k", "c:slice-",
              "must-refuse", "sel-has-empty-row", "ellipsis-padded", "pairs:1d", "pairs:outer", "pairs:2d", "pairs:row-int", "e-first", "e-last", "e-mid", "e-consec", "allempty", "norows"]
FLOOR_MONITORS = ["c02:model-compare", "c02:refusal", "c02:arguments-unchanged", "c02:after-refusal", "c02:index-object-reused", "c02:refusal-on-derived", "c02:ask-again-after-read", "c02:second-question", "c02:pairs"]
FP_STRICT = True       # a floating-point event inside the library that the dense computation does not have is a violation (shard.FpMonitor)
N_RANDOM = {"quick": 12000, "thorough": 400000}


def setup(lib):
    contracts.attach(lib, which=("ragged",))




def mk_case(lens, rs, cs=None, has_cs=False, recv="fresh"):
    return {"lens": list(lens), "rs": rs, "cs": cs, "has_cs": bool(has_cs), "recv": recv}


def build_receiver(recv, flat, lens):
    """-> (array whose content is the rows flat/lens, parent or None).  The non-fresh receivers are
    unmaterialised selections of a larger parent in which the wanted cells are interleaved with junk."""
    RA = CTX.lib.RaggedArray
    if recv == "fresh" or recv is None:
        return RA(flat.copy(), list(lens)), None
    if recv == "ufunc":      # the direct result of a ufunc (built internally, possibly with other construction flags)
        base = RA(flat.copy(), list(lens))
        return np.positive(base) if flat.dtype.kind != "b" else np.logical_or(base, False), None      # (x + 0 would turn -0.0 into 0.0)
    if recv == "astype":
        return RA(flat.copy(), list(lens)).astype(flat.dtype), None
    if recv == "deepcopy":
        import copy
        return copy.deepcopy(RA(flat.copy(), list(lens))), None
    if recv == "pickle":
        import pickle
        return pickle.loads(pickle.dumps(RA(flat.copy(), list(lens)))), None
    if recv == "fromnumpy-copied":
        # built from a 2-D numpy array (when the rows are equally long), then copied by pickle / deepcopy: whatever the original kept about its
        # source matrix, the copy is an array of its own
        import pickle
        import copy
        n_ = len(lens)
        if n_ and lens[0] > 0 and len(set(lens)) == 1:
            x_ = RA.from_numpy_array(flat.copy().reshape(n_, lens[0]))
        else:
            x_ = RA(flat.copy(), list(lens))
        return (pickle.loads(pickle.dumps(x_)) if (n_ + sum(lens)) % 2 else copy.deepcopy(x_)), None
    if recv == "copy-of-lazy":      # a deep copy taken of an unmaterialised selection
        import copy
        lazy, parent = build_receiver("lazycols+2", flat, lens)
        return copy.deepcopy(lazy), None
    if recv in ("fromnumpy", "fromnumpy-F", "tonumpy-called"):
        # rectangular contents only (all rows equally long, at least one row): built from a 2-D numpy array / converted to one before use
        if len(lens) and len(set(lens)) == 1:
            if recv == "fromnumpy":
                return RA.from_numpy_array(flat.copy().reshape(len(lens), lens[0])), None
            if recv == "fromnumpy-F":       # the source matrix is Fortran-ordered (its flattening is a copy, not a view)
                return RA.from_numpy_array(np.asfortranarray(flat.copy().reshape(len(lens), lens[0]))), None
            x = RA(flat.copy(), list(lens))
            x.to_numpy_array()
            return x, None
        return RA(flat.copy(), list(lens)), None
    if recv == "own-shape":
        # the caller builds the RaggedShape himself, reads its derived vectors and reuses them for his own arithmetic (they are his), then builds the array
        shape = CTX.lib.RaggedShape(list(lens))
        for nm in ("ends",):
            v_ = getattr(shape, nm)
            if isinstance(v_, np.ndarray) and v_.flags.writeable and len(v_):
                v_ -= 1
        return RA(flat.copy(), shape), None
    if recv == "unsafe":            # built with the public safe_mode=False switch: refusals are off by design, everything legal must still be right
        return RA(flat.copy(), list(lens), safe_mode=False), None
    if recv == "ctype-alias":       # the same element type under its other C name (np.longlong is 64-bit like np.int64, but a different type object)
        alias = {"int64": "longlong", "uint64": "ulonglong", "int32": "intc", "uint32": "uintc"}.get(flat.dtype.name)
        if alias and np.dtype(alias).itemsize == flat.dtype.itemsize and np.dtype(alias).char != flat.dtype.char:
            return RA(flat.astype(alias), list(lens)), None
        return RA(flat.copy(), list(lens)), None
    if recv == "subclass":          # an instance of a user subclass
        return _subclass()(flat.copy(), list(lens)), None
    if recv == "was-argument":      # the array has been handed to other parts of the library before (kept by a HashTable as its values, used as an operand / mask / part)
        x = RA(flat.copy(), list(lens))
        n = len(lens)
        if n:
            keys = RA(np.array([i + n * j for i, l in enumerate(lens) for j in range(l)], dtype=np.int64), list(lens))
            x._rtmon_keepalive = CTX.lib.HashTable(keys, x, mod=n)
        np.concatenate([x, x])
        CTX.lib.ragged_slice(x, np.zeros(n, dtype=np.int64), np.array(lens, dtype=np.int64))
        np.maximum(x, x)        # (an operand of a binary ufunc; add / multiply could overflow on extreme values, which is not the point here)
        x == x
        return x, None
    if recv == "byteswapped":       # the flat buffer has non-native byte order
        if flat.dtype.itemsize > 1:
            return RA(flat.astype(flat.dtype.newbyteorder()), list(lens)), None
        return RA(flat.copy(), list(lens)), None
    if recv == "saveload":          # written to disk and read back
        import tempfile, os
        with tempfile.TemporaryDirectory(prefix="rtmon-recv-") as d:
            RA(flat.copy(), list(lens)).save(os.path.join(d, "x.npz"))
            return RA.load(os.path.join(d, "x.npz")), None
    if recv == "concat":            # the result of joining two arrays row-wise
        k = len(lens) // 2
        off = int(sum(lens[:k]))
        return np.concatenate([RA(flat[:off].copy(), list(lens[:k])), RA(flat[off:].copy(), list(lens[k:]))]), None
    if recv == "readonly":          # the flat buffer handed to the constructor is not writable (reads must not need to write)
        buf = flat.copy()
        buf.setflags(write=False)
        return RA(buf, list(lens)), None
    rows = gen.split_rows(flat, lens)
    jv = np.array([-7]).astype(flat.dtype)[0]   # wraps for unsigned, True for bool
    junk = lambda k: np.full(k, jv, dtype=flat.dtype)
    if recv == "lazyrows":
        prow = [junk(2)]
        for r in rows:
            prow += [r, junk(1)]
        parent = RA(np.concatenate(prow), [len(r) for r in prow])
        return parent[1::2], parent
    if recv == "lazycols+2":
        prow = []
        for r in rows:
            q = np.full(2 * len(r), jv, dtype=flat.dtype)
            q[::2] = r
            prow.append(q)
        parent = RA(np.concatenate(prow) if prow else flat[:0], [len(r) for r in prow])
        return parent[:, ::2], parent
    if recv == "lazycols-1":
        prow = [r[::-1] for r in rows]
        parent = RA(np.concatenate(prow) if prow else flat[:0], [len(r) for r in prow])
        return parent[:, ::-1], parent
    if recv == "buffer-subclass":
        # the flat buffer is an instance of a subclass of numpy's array type (a memory-mapped file, a unit-carrying array that adds nothing)
        return RA(flat.copy().view(_BufferSubclass), list(lens)), None
    if recv == "lens-refilled":
        # the row lengths are handed over as the caller's own int64 vector, which he refills for his next batch right after the construction
        L_ = np.array(list(lens), dtype=np.int64)
        x = RA(flat.copy(), L_)
        if len(L_):
            L_[...] = L_[::-1] + 1
            L_[0] = 0
        return x, None
    if recv == "rslice-result":
        # the result of the public ragged_slice: every wanted row is cut out of a longer row with junk on both sides
        prow = [np.concatenate([junk(2), r, junk(1)]) for r in rows]
        parent = RA(np.concatenate(prow) if prow else flat[:0], [len(r) for r in prow])
        if not len(prow):
            return RA(flat.copy(), list(lens)), None
        return CTX.lib.ragged_slice(parent, np.full(len(prow), 2, dtype=np.int64), np.array([2 + len(r) for r in rows], dtype=np.int64)), None
    if recv == "lazytail-parent-used":
        # every parent row is one junk cell followed by the wanted row (so the parent has no empty row at all); the parent is reduced, read and compared
        # BEFORE the selection parent[:, 1:] is taken -- whatever the parent learnt about itself must not be taken for a fact about the selection
        prow = [np.concatenate([junk(1), r]) for r in rows]
        parent = RA(np.concatenate(prow) if prow else flat[:0], [len(r) for r in prow])
        if len(prow):
          with np.errstate(all="ignore"):          # (the events of these warm-up calls on hostile values have no dense counterpart to be weighed against)
            attempt(lambda: parent.sum(axis=-1))
            attempt(lambda: parent.any(axis=-1))
            attempt(lambda: np.bitwise_or.reduce(parent, axis=-1))
            attempt(lambda: parent.mean(axis=0))
            attempt(lambda: parent.col_counts())
            attempt(lambda: parent == parent)
            attempt(lambda: parent.sort(axis=-1))
        return parent[:, 1:], parent
    if recv == "lazychain":
        prow = [junk(1)]
        for r in rows[::-1]:
            q = np.full(2 * len(r) + 1, jv, dtype=flat.dtype)
            q[1::2] = r[::-1]
            prow += [q, junk(3)]
        parent = RA(np.concatenate(prow), [len(r) for r in prow])
        return parent[1::2][::-1, 1::2][:, ::-1], parent   # view of view of view, column step -2
    raise ValueError(recv)


_SUB = []


class _BufferSubclass(np.ndarray):
    """a subclass of numpy's array that changes nothing (what np.memmap is to code that only reads and writes cells)"""


def _subclass():
    if not _SUB:
        class UserRaggedArray(CTX.lib.RaggedArray):
            """what a user subclass looks like: an extra method, nothing overridden"""

            def total(self):
                return self.ravel().sum()
        _SUB.append(UserRaggedArray)
    return _SUB[0]


PRODUCERS = [
    ("sort()", lambda x: x.sort(axis=-1)),
    ("np.where(column mask, x, x)", lambda x: np.where(np.ones((len(x), 1), dtype=bool), x, x)),
    ("np.zeros_like", lambda x: np.zeros_like(x)),
    ("np.negative", lambda x: np.negative(x)),
    ("astype(float64)", lambda x: x.astype(np.float64)),
    ("np.cumsum", lambda x: np.cumsum(x, axis=-1)),
    ("x[...]", lambda x: x[...]),
    ("np.concatenate([x])", lambda x: np.concatenate([x])),
]


def decode(v):
    v = int(v) - 1
    return (v // 1000, v % 1000)


def observe(x):
    """(kind, python value) of a library result"""
    RA = CTX.lib.RaggedArray
    if isinstance(x, RA):
        return "RA", peek(x)
    if isinstance(x, np.ndarray):
        if x.ndim == 0:
            return "SC", x.item()
        return "ND", x.tolist()
    if isinstance(x, np.generic):
        return "SC", x.item()
    return "??" + type(x).__name__, x


def pairs_model(lens, R, C):
    """numpy's rule for two integer index arrays: they are broadcast against each other, entry k of the result is cell (R[k], C[k]);
    -> (result shape, list of (row, col) with non-negative numbers) or model.Refused"""
    n = len(lens)
    b = np.broadcast(np.asarray(R), np.asarray(C))
    cells = []
    for r, c in b:
        r, c = int(r), int(c)
        if not -n <= r < n:
            raise model.Refused("row %d of %d" % (r, n))
        r %= n
        if not -lens[r] <= c < lens[r]:
            raise model.Refused("column %d of a row with %d" % (c, lens[r]))
        cells.append((r, c % lens[r]))
    return tuple(b.shape), cells


def gen_pairs(rng, lens, refuse=False):
    """(R, C, form): element pairs / an outer product of rows and columns / two matrices of equal shape, in any integer type, negative numbers included"""
    n = len(lens)
    cand = [i for i in range(n) if lens[i]]
    if not cand:
        return None
    form = rng.choice(["1d", "1d", "outer", "outer", "2d", "row-int"])
    idt = rng.choice(["int64", "int64", "int32", "intp", "int16", "uint8"])
    if max(n, max(lens)) > np.iinfo(idt).max:
        idt = "int64"
    neg = lambda i, m: i if (rng.random() < 0.6 or idt == "uint8") else i - m
    if form == "outer":
        rows = rng.sample(cand, rng.randint(1, min(4, len(cand))))
        ml = min(lens[i] for i in rows)
        allneg = rng.random() < 0.3 and idt != "uint8"
        cols = rng.sample(range(ml), rng.randint(1, min(3, ml)))
        R = np.array([[neg(i, n)] for i in rows], dtype=idt)
        C = np.array([c - ml if allneg and all(lens[i] == ml for i in rows) else c for c in cols], dtype=idt)
        if rng.random() < 0.3:
            C = C[None, :]
    elif form == "row-int":
        i = rng.choice(cand)
        R = neg(i, n) if rng.random() < 0.5 else np.array(neg(i, n), dtype=idt)
        C = np.array([neg(rng.randrange(lens[i]), lens[i]) for _ in range(rng.randint(1, 4))], dtype=idt)
    else:
        k = rng.randint(1, 6)
        rr = [rng.choice(cand) for _ in range(k)]
        cc = [rng.randrange(lens[i]) for i in rr]
        R = np.array([neg(i, n) for i in rr], dtype=idt)
        C = np.array([neg(c, lens[i]) for i, c in zip(rr, cc)], dtype=idt)
        if form == "2d" and k % 2 == 0:
            R, C = R.reshape(2, -1), C.reshape(2, -1)
        elif form == "2d":
            R, C = R.reshape(-1, 1), C.reshape(-1, 1)
    if refuse:
        # one entry names a column (or row) that does not exist: one past the end of its row -- for every row but the last the flat position still lies inside the buffer
        Cw = np.array(C, dtype=np.int64, copy=True)
        Rw = np.broadcast_to(np.asarray(R, dtype=np.int64), np.broadcast(np.asarray(R), Cw).shape)
        Cb = np.broadcast_to(Cw, Rw.shape).copy()
        pos = tuple(rng.randrange(d) for d in Cb.shape) if Cb.ndim else ()
        r_ = int(Rw[pos]) % n
        Cb[pos] = lens[r_] if rng.random() < 0.5 else -lens[r_] - 1
        R, C = np.array(Rw, dtype=np.int64), Cb
    return R, C, form


def run_pairs(case):
    """ra[R, C] with two integer index arrays (broadcast against each other, as in numpy)"""
    lens, R, C = case["lens"], case["R"], case["C"]
    recv = case.get("recv", "fresh")
    pyrows = gen.id_rows(lens)
    flat = np.array([v for r in pyrows for v in r], dtype=np.int64)
    tags = ["pairs:" + case.get("form", "1d"), "recv:" + recv, "r:array", "c:array"] + gen.empty_placement(lens)
    try:
        shape, cells = pairs_model(lens, R, C)
        exp = np.array([pyrows[i][j] for i, j in cells], dtype=np.int64).reshape(shape)
        refused = False
    except model.Refused:
        exp, refused = None, True
        tags.append("must-refuse")
    ra, parent = build_receiver(recv, flat, lens)
    before = [np.array(x, copy=True) if isinstance(x, np.ndarray) else None for x in (R, C)]
    out = attempt(lambda: ra[R, C])
    CTX.tick("c02:pairs", not refused)
    CTX.tick("c02:arguments-unchanged")
    for x, b4 in zip((R, C), before):
        if b4 is not None and not (x.shape == b4.shape and np.array_equal(x, b4)):
            return violated("ra[R, C] modified the caller's index array: %s -> %s" % (short(b4), short(x)), tags + ["argument-mutated"])
    desc = "ra[%s, %s] on rows of lengths %s" % (short(R, 80), short(C, 80), lens)
    if refused:
        if recv == "unsafe":
            return undefined("refusals are switched off for this receiver (safe_mode=False)", tags)
        CTX.tick("c02:refusal")
        if out.ok:
            return violated("%s names a cell that does not exist and must be refused, but returned %s" % (desc, short(out.value)), tags, got=short(out.value), expected="refusal")
        if peek(ra) != pyrows:
            return violated("after the refused %s the array reads %s" % (desc, short(peek(ra), 200)), tags + ["changed-by-refused-index"])
        return held(tags, len(lens) >= 2)
    CTX.tick("c02:model-compare")
    if not out.ok:
        return violated("%s raised %s: %s" % (desc, type(out.exc).__name__, out.exc), tags, got=repr(out), expected=exp.tolist())
    g = out.value
    if not isinstance(g, (np.ndarray, np.generic)) or np.asarray(g).shape != exp.shape or not np.array_equal(np.asarray(g), exp):
        return violated("%s gave %s, cell by cell it is %s" % (desc, short(g), short(exp)), tags, got=short(g), expected=exp.tolist())
    if peek(ra) != pyrows or (parent is not None and False):
        return violated("reading %s changed the array" % desc, tags + ["read-mutates"])
    return held(tags, len(lens) >= 2 and exp.size >= 2)


def run(case):
    if case.get("kind") == "pairs":
        return run_pairs(case)
    lens, rs, cs, has_cs = case["lens"], case["rs"], case["cs"], case["has_cs"]
    recv = case.get("recv", "fresh")
    pyrows = gen.id_rows(lens)
    flat = np.array([v for r in pyrows for v in r], dtype=np.int64)
    tags = [model.describe_selector(rs), model.describe_cols(cs, has_cs), "recv:" + recv] + gen.empty_placement(lens)
    if isinstance(rs, list) and rs and isinstance(rs[0], bool):
        tags.append("mask-as-list")
    # the model's answer
    try:
        kind, cells = model.select_cells(lens, rs, cs, has_cs)
        exp = (kind, model.cells_to_values(kind, cells, pyrows))
        refused = False
        ncell = len(model.flat_cells(kind, cells))
        if kind == "RA" and any(len(r) == 0 for r in cells) or (kind != "SC" and has_cs and not model.is_int(cs) and ncell == 0):
            tags.append("sel-has-empty-row")
    except model.Refused as e:
        exp, refused, ncell = None, True, 0
        tags.append("must-refuse")
    nontrivial = len(lens) >= 2 and sum(lens) > 0 and (refused or ncell > 0)

    ra, parent = build_receiver(recv, flat, lens)
    parent_before = peek(parent) if parent is not None else None
    ellpad = case.get("ellpad", 0) if (has_cs and rs is not Ellipsis) else 0
    idx = model.make_index(rs, cs, has_cs, ellpad=ellpad)
    if ellpad:
        tags.append("ellipsis-padded")
    arg_before = [np.array(x, copy=True) if isinstance(x, np.ndarray) else None for x in (rs, cs)]
    out = attempt(lambda: ra[idx])
    if out.ok:
        got = attempt(observe, out.value)
        if not got.ok:
            return violated("result of ra[%s] cannot be read back: %r" % (short(idx), got), tags, got=repr(got))
        got = got.value
    CTX.tick("c02:arguments-unchanged")
    for x, b4 in zip((rs, cs), arg_before):
        if b4 is not None and not (x.shape == b4.shape and np.array_equal(x, b4)):
            return violated("indexing with %s modified the caller's index array: it now reads %s" % (short(b4), short(x)), tags + ["argument-mutated"])
    if refused and recv == "unsafe":
        return undefined("refusals are switched off for this receiver (safe_mode=False)", tags)
    if refused:
        CTX.tick("c02:refusal")
        if out.ok:
            return violated("index %s addresses a non-existing row/column and must be refused, but returned %s" % (short(idx), short(got)),
                            tags, got=got, expected="refusal")
        # arrays of the same shape that come out of the library's own producers refuse the same index (no producer hands out an array with its checks off)
        if recv != "unsafe" and len(lens):
            CTX.tick("c02:refusal-on-derived")
            for pname, prod in PRODUCERS:
                d_ = attempt(prod, ra)
                if not d_.ok or not isinstance(d_.value, CTX.lib.RaggedArray) or np.asarray(d_.value.lengths).tolist() != list(lens):
                    continue
                o_ = attempt(lambda: observe(d_.value[idx]))
                if o_.ok:
                    return violated("index %s must be refused (it addresses a non-existing row/column of rows with lengths %s) and is refused on the array itself, but %s of that array answers %s" % (
                        short(idx), lens, pname, short(o_.value[1])), tags + ["refusal-lost-on-derived"], got=o_.value, expected="refusal")
        # a refusal leaves no trace: the array reads as before and answers a legal index right afterwards
        CTX.tick("c02:after-refusal")
        after = attempt(peek, ra)
        if not after.ok or after.value != pyrows:
            return violated("after the refused index %s the array reads %s, was %s" % (short(idx), repr(after) if not after.ok else short(after.value, 200), short(pyrows, 200)), tags + ["changed-by-refused-index"])
        if len(lens):
            r0 = attempt(lambda: np.asarray(ra[0]).tolist())
            if not r0.ok or r0.value != pyrows[0]:
                return violated("after the refused index %s, ra[0] gives %s, expected %s" % (short(idx), repr(r0) if not r0.ok else r0.value, pyrows[0]), tags + ["unusable-after-refusal"])
        return held(tags, nontrivial)
    CTX.tick("c02:model-compare", ncell > 0)
    if not out.ok:
        return violated("ra[%s] raised %s: %s" % (short(idx), type(out.exc).__name__, out.exc), tags, got=repr(out), expected=exp)
    if got != exp:
        extra = ""
        try:
            gv = got[1] if got[0] != "SC" else [got[1]]
            gflat = [v for r in gv for v in (r if isinstance(r, list) else [r])]
            addressed = set(model.flat_cells(kind, cells))
            foreign = [decode(v) for v in gflat if decode(v) not in addressed]
            if foreign:
                extra = "; cells outside the addressed rows/columns were returned: %s" % foreign[:6]
        except Exception:
            pass
        return violated("ra[%s] on rows of lengths %s gave %s %s, the list of rows gives %s %s%s" % (
            short(idx), lens, got[0], short(got[1]), exp[0], short(exp[1]), extra), tags, got=got, expected=exp)
    # the receiver must be unchanged by a read
    if peek(ra) != pyrows:
        return violated("reading ra[%s] changed the array" % short(idx), tags + ["read-mutates"])
    if parent is not None and peek(parent) != parent_before:
        return violated("reading ra[%s] changed the array it was derived from" % short(idx), tags + ["read-mutates"])
    # a second, different question to the same object, asked while an unmaterialised receiver is still unmaterialised (what the first answer
    # remembered about the object -- a shortest row, a view -- must not decide the second)
    if case.get("then") is not None:
        rs2, cs2, has2 = case["then"]
        idx2 = model.make_index(rs2, cs2, has2)
        CTX.tick("c02:second-question")
        try:
            k2, cells2 = model.select_cells(lens, rs2, cs2, has2)
            exp2 = (k2, model.cells_to_values(k2, cells2, pyrows))
        except model.Refused:
            exp2 = None
        o2 = attempt(lambda: observe(ra[idx2]))
        if exp2 is None:
            if o2.ok and recv != "unsafe":
                return violated("after ra[%s], ra[%s] was accepted although the index does not exist: %s" % (short(idx), short(idx2), short(o2.value[1])), tags + ["second-question"])
        elif not o2.ok or o2.value != exp2:
            return violated("after ra[%s], ra[%s] on the same object gave %s, the list of rows gives %s" % (short(idx), short(idx2), repr(o2) if not o2.ok else short(o2.value[1]), short(exp2[1])),
                            tags + ["second-question"], got=repr(o2) if not o2.ok else o2.value, expected=exp2)
    # a three-step history: after the question(s) above, a selection w is DERIVED from the same (possibly still unread) object, and a question is put
    # to w. What the earlier answers remembered about the object (a shortest row, a view object handed on unchanged) must not travel into w.
    if case.get("derive") is not None:
        rsd, csd, hasd, rs3, cs3, has3 = case["derive"]
        try:
            kd, cellsd = model.select_cells(lens, rsd, csd, hasd)
        except model.Refused:
            kd = None
        if kd == "RA":
            rows_w = model.cells_to_values(kd, cellsd, pyrows)
            lens_w = [len(r) for r in rows_w]
            idxd, idx3 = model.make_index(rsd, csd, hasd), model.make_index(rs3, cs3, has3)
            CTX.tick("c02:derived-then-asked", any(lens_w))
            w = attempt(lambda: ra[idxd])
            if not w.ok or not isinstance(w.value, CTX.lib.RaggedArray):
                return violated("after ra[%s], the selection ra[%s] of the same object gave %s, the list of rows gives %s" % (short(idx), short(idxd), repr(w), short(rows_w)), tags + ["derived-question"])
            try:
                k3, cells3 = model.select_cells(lens_w, rs3, cs3, has3)
                exp3 = (k3, model.cells_to_values(k3, cells3, rows_w))
            except model.Refused:
                exp3 = None
            o3 = attempt(lambda: observe(w.value[idx3]))
            if exp3 is None:
                CTX.tick("c02:derived-refusal")
                if o3.ok and recv != "unsafe":
                    return violated("after ra[%s], w = ra[%s] has the rows %s; w[%s] does not exist there but was answered: %s" % (
                        short(idx), short(idxd), short(rows_w), short(idx3), short(o3.value[1])), tags + ["derived-question"], got=o3.value, expected="refusal")
            elif not o3.ok or o3.value != exp3:
                return violated("after ra[%s], w = ra[%s] has the rows %s; w[%s] gave %s, the list of rows gives %s" % (
                    short(idx), short(idxd), short(rows_w), short(idx3), repr(o3) if not o3.ok else short(o3.value[1]), short(exp3[1])),
                    tags + ["derived-question"], got=repr(o3) if not o3.ok else o3.value, expected=exp3)
            wr = attempt(peek, w.value)
            if not wr.ok or wr.value != rows_w:
                return violated("after ra[%s] and a question to w = ra[%s], w reads %s, the list of rows gives %s" % (short(idx), short(idxd), repr(wr) if not wr.ok else short(wr.value), short(rows_w)), tags + ["derived-question"])
    # the same question again after the array has been read in full (which materialises an unmaterialised receiver in place): what the first
    # answer left behind on the object (a remembered view, offsets into the old buffer) must not show
    if sum(lens) <= 5000:
        CTX.tick("c02:ask-again-after-read", parent is not None)
        attempt(lambda: ra.tolist())
        o3 = attempt(lambda: observe(ra[idx]))
        if not o3.ok or o3.value != exp:
            return violated("ra[%s] asked again after the array had been read in full gave %s, the list of rows gives %s" % (short(idx), repr(o3) if not o3.ok else short(o3.value[1]), short(exp[1])),
                            tags + ["stale-after-materialisation"], got=repr(o3) if not o3.ok else o3.value, expected=exp)
    # the caller refills his index array in place (a reused buffer, a mask updated in place) and asks again with the SAME object
    if isinstance(rs, np.ndarray) and rs.ndim == 1 and len(rs) >= 2 and rs.flags.writeable:
        new_rs = np.roll(rs, 1) if rs.dtype != bool else np.logical_not(rs)
        if not np.array_equal(new_rs, rs):
            try:
                kind2, cells2 = model.select_cells(lens, new_rs.copy(), cs, has_cs)
                exp2 = (kind2, model.cells_to_values(kind2, cells2, pyrows))
            except model.Refused:
                exp2 = None
            if exp2 is not None:
                saved = rs.copy()
                rs[...] = new_rs
                CTX.tick("c02:index-object-reused")
                o2 = attempt(lambda: observe(ra[idx]))
                rs[...] = saved
                if not o2.ok or o2.value != exp2:
                    return violated("ra[%s] asked a second time with the same index object after the caller refilled it in place (now %s) gave %s, the list of rows gives %s" % (
                        short(saved), short(new_rs), repr(o2) if not o2.ok else short(o2.value[1]), short(exp2[1])), tags + ["stale-index-object"])
    return held(tags, nontrivial)


# ----------------------------------------------------------------------------- workloads

def directed():
    for k, c in enumerate(_directed()):
        yield c
        for j, recv in enumerate(RECVS[1:]):
            if j < 4 or (k + j) % 3 == 0:
                yield dict(c, recv=recv)
    for c in pairs_directed():
        yield c
    for c in narrow_rowlist_cases():
        yield c
    for c in longrow_cases():
        yield c
    for c in tall_narrow_cases():
        yield c
    # two questions to one (possibly still unmaterialised) object: a column of all rows first -- which only exists as far as the shortest row goes -- then a
    # column of some of the LONGER rows that the shortest row does not have
    for lens in ([1, 5, 4, 6], [2, 6, 6, 3, 7], [4, 1, 5, 5]):
        short_ = min(lens)
        longer = [i for i, l in enumerate(lens) if l > short_]
        for recv in ("fresh", "lazycols+2", "lazycols-1", "lazychain", "lazyrows", "lazytail-parent-used", "ufunc"):
            for first in ((slice(None), 0, True), (Ellipsis, short_ - 1, True), (slice(None), -1, True)):
                for rs2 in (list(longer), np.array([i in longer for i in range(len(lens))]), slice(min(longer), max(longer) + 1) if longer == list(range(min(longer), max(longer) + 1)) else list(longer[::-1])):
                    for j in (short_, short_ + 1, -short_ - 1, min(lens[i] for i in longer) - 1):
                        yield dict(mk_case(lens, first[0], first[1], first[2], recv), then=[rs2, j, True])
    # three steps: a column of all rows, then a selection derived from the same object (a column slice, a row selection, both), then a column of that
    # selection which only some of ITS rows have (its shortest row differs from the first object's)
    for lens in ([2, 1, 3], [3, 2, 4, 2], [4, 1, 5, 5], [1, 3, 3]):
        for recv in ("fresh", "lazycols+2", "lazycols-1", "lazychain", "lazyrows", "lazytail-parent-used"):
            for first in ((slice(None), 0, True), (slice(None), -1, True), (Ellipsis, 0, True)):
                for rsd, csd in ((slice(None), slice(1, None)), (slice(None), slice(None, -1)), (slice(None), slice(0, None, 2)), (slice(None), slice(None, None, -1)),
                                 (slice(1, None), slice(None)), (list(range(len(lens)))[::-1], slice(1, None)), (slice(None), slice(2, None))):
                    for j in (0, 1, -1, -2, min(lens) - 1, min(lens)):
                        yield dict(mk_case(lens, first[0], first[1], first[2], recv), derive=[rsd, csd, True, slice(None), j, True])
                    yield dict(mk_case(lens, first[0], first[1], first[2], recv), derive=[rsd, csd, True, [0, -1], slice(None, 1), True])
    # negative column numbers carried by a narrow numpy integer type, on rows longer than that type can count (row length + column leaves the type)
    lens = [3, 300, 40000, 130, 2]
    for rs in (1, 2, 3, [1, 2], [3, 1, 2], slice(1, 4), np.array([2, 1])):
        for col in (np.int8(-1), np.int8(-2), np.int8(-128), np.int16(-1), np.int16(-129), np.int16(-300), np.int32(-1), np.int32(-40000), np.int64(-7), np.uint8(129), np.uint16(299), np.int8(127), np.int16(299)):
            yield mk_case(lens, rs, col, True)


def tall_narrow_cases():
    """row numbers close to the largest value of the narrow numpy integer type that carries them (any arithmetic on the number in its own type wraps),
    on arrays with that many rows: single element, whole row, rows with a column, index arrays of that type"""
    for nrows, carriers in ((130, (("int8", 127), ("int8", 100), ("int8", 64), ("uint8", 129), ("int8", -128), ("int8", -65))), (260, (("uint8", 255), ("uint8", 200), ("uint8", 128), ("int16", 259))),
                            (33000, (("int16", 32767), ("int16", 16384), ("int16", 20000), ("uint16", 32999), ("int16", -32768), ("int16", -16385)))):
        lens = [(i * 7) % 4 + 1 for i in range(nrows)]
        for dt_, v in carriers:
            r = np.dtype(dt_).type(v)
            yield mk_case(lens, r)
            yield mk_case(lens, r, 0, True)
            yield mk_case(lens, r, np.dtype(dt_).type(0), True)
            yield mk_case(lens, r, slice(None, None, -1), True)
            yield mk_case(lens, np.array([v, v // 2, 0 if v >= 0 else -1], dtype=dt_), 0, True)
            yield mk_case(lens, np.array([v, v // 2], dtype=dt_))
            yield mk_case(lens, np.array(v, dtype=dt_), 0, True)


LONGROW_SHAPES = ([6001, 0, 5003, 7002], [2 ** 20 + 5, 2 ** 20 + 76], [3, 1600001, 2])
LONGROW_COLS = (slice(None, None, -1), slice(-2, None, -2), slice(None, None, -3), slice(1, None, 2), slice(5, -5, 3), slice(None, 4, -2))


def longrow_cases():
    """a few rows of thousands / millions of cells (average row length beyond 2**20), read with every kind of column slice -- also the negative-step ones
    that reach the first cells of the buffer -- through all rows, a row list and a single row; the mid-size shape also on unmaterialised receivers"""
    for lens in LONGROW_SHAPES:
        n = len(lens)
        for ci, cs in enumerate(LONGROW_COLS):
            for ri, rs in enumerate((slice(None), [n - 1, 0], 0, Ellipsis)):
                if max(lens) > 100000 and (ci + ri) % 2:
                    continue
                yield mk_case(lens, rs, cs, True)
                if max(lens) < 100000 and (ci + ri) % 2 == 0:
                    yield mk_case(lens, rs, cs, True, ("lazyrows", "lazycols+2", "lazychain", "ufunc")[(ci + ri) % 4])


def _directed():
    L = [3, 1, 0, 2, 4]
    yield mk_case(L, 1)
    yield mk_case(L, -1)
    yield mk_case(L, 5)            # refuse
    yield mk_case(L, -6)           # refuse
    yield mk_case(L, np.int64(2))
    yield mk_case(L, np.array(3))
    yield mk_case(L, slice(None))
    yield mk_case(L, slice(1, 4))
    yield mk_case(L, slice(None, None, 2))
    yield mk_case(L, slice(None, None, -1))
    yield mk_case(L, slice(4, 0, -2))
    yield mk_case(L, slice(-9, 9, 3))
    yield mk_case(L, [0, 0, -1, 3])
    yield mk_case(L, [])
    yield mk_case(L, np.array([4, 1]))
    yield mk_case(L, [0, 5])        # refuse
    yield mk_case(L, [-6])          # refuse
    yield mk_case(L, np.array([True, False, True, True, False]))
    yield mk_case(L, [True, False, True, True, False])
    for dt_ in ("uint8", "int8", "uint16", "int16", "uint32", "uint64", "int32"):
        t = np.dtype(dt_).type
        yield mk_case(L, t(3), t(1), True)
        yield mk_case(L, [3, 4, 3], t(1), True)
        yield mk_case(L, t(4), None, False)
        yield mk_case(L, np.array([4, 0], dtype=dt_))
        yield mk_case(L, np.array([4, 0], dtype=dt_), np.array([1, 2], dtype=dt_), True) if False else mk_case(L, t(0), t(2), True)
    yield mk_case([3] * 60, 59, np.int8(-128), True)        # refuse: -(-128) is still -128 in int8
    yield mk_case([3] * 60, [59, 58], np.int8(-128), True)
    yield mk_case(L, np.array([-1, 0, -2]), np.array([0, 1, -1])) if False else mk_case(L, np.array([-1, 0, -2]), -1, True)
    yield mk_case(L, np.array([-1, 3, -5]), 0, True)
    for big in (2 ** 32 + 1, -2 ** 32 + 1, 2 ** 31, 2 ** 63 - 1):
        yield mk_case(L, big)                                # refuse
        yield mk_case(L, 0, big, True)                       # refuse
        yield mk_case(L, np.array([0, big]), 1, True)        # refuse
        yield mk_case(L, big, slice(0, 2), True)             # refuse
    yield mk_case([2, 2, 3], [0, 0, 2])                      # ascending list with a repeat, skipped row as long as the repeated one
    yield mk_case([2, 3, 3, 1], [0, 2, -1])
    yield mk_case([1, 1, 1, 1], [0, 1, 1, 3])
    yield mk_case(L, [False, False, False, True, False], slice(None, None, -1), True)
    yield mk_case([2, 2], [True, True])
    yield mk_case(L, np.zeros(5, dtype=bool))
    yield mk_case(L, np.ones(5, dtype=bool))
    yield mk_case(L, Ellipsis)
    # element access
    yield mk_case(L, 0, 2, True)
    yield mk_case(L, 0, -3, True)
    yield mk_case(L, 0, 3, True)    # refuse
    yield mk_case(L, 0, -4, True)   # refuse: too negative (F02a)
    yield mk_case(L, 1, -2, True)   # refuse: too negative, would read row 0 (F02a)
    yield mk_case(L, 2, 0, True)    # refuse: empty row
    yield mk_case(L, 2, -1, True)   # refuse: empty row, would read row 1 (F02a)
    yield mk_case(L, 7, 0, True)    # refuse
    yield mk_case([2, 3], 0, -3, True)  # refuse (the F02a witness: returned 5)
    # column integer over several rows
    yield mk_case(L, [0, 3, 4], 1, True)
    yield mk_case(L, [0, 3, 4], -2, True)
    yield mk_case(L, [0, 3, 4], 2, True)     # refuse (row 3 too short)
    yield mk_case(L, [0, 3, 4], -3, True)    # refuse (F02a)
    yield mk_case(L, slice(None), 0, True)   # refuse: empty row in selection
    yield mk_case(L, Ellipsis, -1, True)     # refuse: empty row in selection (F02a)
    yield mk_case(L, slice(3, None), -2, True)
    yield mk_case(L, np.array([True, False, False, True, True]), 0, True)
    # column slices
    for cs in [slice(None), slice(1, None), slice(None, 2), slice(-2, None), slice(None, -1), slice(1, 3), slice(0, 9),
               slice(-9, 2), slice(None, None, 2), slice(1, None, 2), slice(None, None, 3), slice(None, None, -1),
               slice(None, None, -2), slice(2, None, -1), slice(None, 0, -1), slice(-1, -4, -1), slice(9, -9, -2), slice(3, 1), slice(1, 3, -1)]:
        yield mk_case(L, slice(None), cs, True)
        yield mk_case(L, [4, 2, 0], cs, True)
        yield mk_case(L, Ellipsis, cs, True)
        yield mk_case(L, 3, cs, True)
        yield mk_case(L, 2, cs, True)
    yield mk_case(L, slice(None, None, -1), slice(None, None, -1), True)
    yield mk_case(L, np.array([False, True, True, False, True]), slice(None, None, -2), True)
    # strata of empty rows
    for lens in [[], [0], [0, 0, 0], [0, 2, 3], [2, 3, 0], [2, 0, 0, 3], [1, 0, 0], [5], [1, 1, 1, 1], [0, 12, 1]]:
        for rs in [slice(None), slice(None, None, -1), Ellipsis, list(range(len(lens)))[::-1]]:
            yield mk_case(lens, rs)
            for cs in [slice(None), slice(None, None, -1), slice(1, None), slice(None, -1, 2), slice(-1, None, -2)]:
                yield mk_case(lens, rs, cs, True)
    # several hundred to a few thousand selected rows: sorted lists with repeats / gaps (where "the rows are ordered" shortcuts go wrong), with and without columns
    import random
    rng = random.Random(2020)
    for nrows in (300, 600, 1500):
        ml = [(i * 5) % 4 + (1 if i % 7 else 0) for i in range(nrows)]
        picks = {
            "sorted-repeats": sorted(rng.randrange(nrows) for _ in range(nrows + 40)),
            "each-twice": [i for i in range(0, nrows, 1) for _ in range(2)],
            "sorted-gaps": sorted(set(rng.randrange(nrows) for _ in range(nrows))),
            "repeat-then-gap": [i if i % 9 else i - 1 for i in range(1, nrows)],
        }
        for nm, rows_ in picks.items():
            arr = np.array(rows_, dtype=np.int64)
            yield mk_case(ml, arr)
            yield mk_case(ml, arr, slice(0, 2), True)
            yield mk_case(ml, arr, slice(1, None), True)
            yield mk_case(ml, arr, slice(None, None, -1), True, "lazycols+2")
            yield mk_case(ml, list(rows_), slice(None, 1), True, "lazyrows")
    # long rows (hundreds of cells) read backwards / strided, from selections that include the first cells of the buffer
    for ll in ([300, 280, 260], [257, 0, 300], [600]):
        for rs_, cs_ in ((slice(None), slice(None, None, -1)), ([len(ll) - 1, 0], slice(None, None, -1)), (slice(None), slice(None, None, -2)), (slice(None, None, -1), slice(250, None, -1)),
                         (slice(None), slice(5, None, 3)), (np.array([0, 0], dtype=np.int64), slice(None, 255, -1))):
            yield mk_case(ll, rs_, cs_, True)
            yield mk_case(ll, rs_, cs_, True, "lazyrows")
    # few cells, but (number of rows) x (longest row) beyond 2**31: bounds estimated that way go wrong under the 32-bit index width only
    tall = [1] * 49999 + [50000]
    yield mk_case(tall, slice(None, None, 2))
    yield mk_case(tall, np.array([49999, 0, 49999, 7], dtype=np.int64), slice(1, None), True)
    yield mk_case(tall, slice(49990, None), slice(None, None, -1), True, "lazyrows")
    wide = [70000, 1, 1]
    yield mk_case(wide, np.array([1, 2] * 20000 + [0], dtype=np.int64))
    yield mk_case(wide, [1, 2] * 20000 + [0, 0], slice(0, 1), True)
    hl = [(i * 7) % 3 for i in range(130001)]       # more than 100000 rows
    yield mk_case(hl, np.array([i % 5 != 2 for i in range(130001)]))
    yield mk_case(hl, slice(None, None, 1), slice(None, None, -1), True)
    yield mk_case(hl, np.arange(130000, 0, -1))
    yield mk_case([], [])
    yield mk_case([], np.zeros(0, dtype=bool))
    yield mk_case([], 0)   # refuse
    yield mk_case([0, 0], 0)
    yield mk_case([0, 0], 1, slice(None), True)


def _shapes(maxrows):
    for n in range(0, maxrows + 1):
        for lens in itertools.product(range(4), repeat=n):
            yield list(lens)


def int_sweep():
    """every integer row number / column number from three lengths below to three lengths above the range (existing ones read the cell, all others are refused)"""
    for lens in ([3, 1, 0, 2, 4], [2], [1, 1, 1], [0, 5], [4, 4, 4, 4, 4, 4, 4]):
        n, M = len(lens), max(lens)
        for r in range(-3 * n - 2, 3 * n + 3):
            yield mk_case(lens, r)
            yield mk_case(lens, r, 0, True, RECVS[(r + 3 * n + 2) % len(RECVS)])
            yield mk_case(lens, [0, r], None, False)
            yield mk_case(lens, np.int8(r) if -128 <= r <= 127 else np.int64(r), slice(None), True)
        for c in range(-3 * M - 2, 3 * M + 3):
            yield mk_case(lens, 0, c, True)
            yield mk_case(lens, slice(None), c, True, RECVS[(c + 3 * M + 2) % len(RECVS)])
            yield mk_case(lens, [n - 1, 0], np.int16(c), True)


def sweep(tier):
    """all arrays with <= k rows of length 0..3 x every column slice with start, stop in {None, -5..5},
    step in {+-1, +-2, +-3} x row selectors {all, reversed, each single row as a list}"""
    bounds = [None] + list(range(-5, 6))
    steps = [1, 2, 3, -1, -2, -3]
    if tier == "quick":
        shapes = [s for s in _shapes(2)] + [[0, 3, 1], [2, 0, 0], [1, 2, 3]]
        bounds = [None, -5, -3, -2, -1, 0, 1, 2, 3, 5]
    else:
        shapes = list(_shapes(3))
    for c in int_sweep():
        yield c
    k = 0
    for lens in shapes:
        n = len(lens)
        rsels = [slice(None), slice(None, None, -1)] + [[i] for i in range(n)]
        for a in bounds:
            for b in bounds:
                for st in steps:
                    cs = slice(a, b, st)
                    for rs in rsels:
                        k += 1
                        yield mk_case(lens, rs, cs, True, RECVS[k % len(RECVS)] if k % 3 == 0 else "fresh")


def random_selector(rng, n, allow_oob=True):
    k = rng.choice(["int", "slice", "slice", "list", "array", "mask", "ell", "empty", "block"])
    if k == "block":
        # structured row lists that look 'almost contiguous': a block of consecutive rows with the interior permuted (first and last
        # row in place), or an ascending list with one repeat / one gap -- the inputs on which contiguity fast paths go wrong
        if n < 3:
            k = "list"
        else:
            a = rng.randint(0, n - 3)
            b = rng.randint(a + 2, n - 1)
            if rng.random() < 0.5:
                a, b = 0, n - 1         # from the first to the last row of the array
            rows = list(range(a, b + 1))
            u = rng.random()
            if u < 0.4:
                mid = rows[1:-1]
                rng.shuffle(mid)
                rows = [rows[0]] + mid + [rows[-1]]
            elif u < 0.7:
                j = rng.randrange(len(rows) - 1)
                rows = rows[:j + 1] + [rows[j]] + rows[j + 2:]          # one row repeated, its successor skipped
            elif u < 0.85:
                del rows[rng.randrange(1, len(rows) - 1)]                # one gap
            return rows if rng.random() < 0.5 else np.array(rows, dtype=np.int64)
    if k == "int":
        lo, hi = (-n - 1, n) if allow_oob else (-n, n - 1)
        if hi < lo:
            return 0
        v = rng.randint(lo, hi)
        if allow_oob and rng.random() < 0.06:
            v = rng.choice([-n - 2, -n - 3, -2 * n, -2 * n + 1, -2 * n - 1, -3 * n, n + 1, 2 * n - 1, 2 * n, 2 * n + 1, 3 * n + 2])      # anywhere beyond the rows, not only one past them (all refused)
        if allow_oob and rng.random() < 0.03:
            v = rng.choice([2 ** 32 + v, -2 ** 32 + v, 2 ** 31 + 1])     # far out of range (must be refused under every index width)
            return rng.choice([v, np.int64(v)])
        return rng.choice([v, gen.np_int(rng, v), np.int64(v), np.array(v)])
    if k == "slice":
        return gen.gen_slice(rng, n, far=True)
    if k in ("list", "array"):
        m = rng.randint(1, 5)
        if n == 0:
            q = [] if not allow_oob or rng.random() < 0.7 else [0]
        else:
            q = [rng.randint(-n, n - 1) for _ in range(m)]
            if allow_oob and rng.random() < 0.08:
                q[rng.randrange(m)] = rng.choice([n, -n - 1, n + 3, -n - 2, -2 * n, -2 * n - 1, 2 * n, 2 * n + 1, -3 * n - 1])
        if k == "list":
            return q
        dts = ["int64", "int32", "intp", "int64", ">i8", ">i4", ">i2"] + ([">u8", ">u4", "uint16"] if all(x >= 0 for x in q) else [])     # byte-swapped index vectors too
        dts = [d_ for d_ in dts if not q or (np.iinfo(np.dtype(d_)).min <= min(q) and max(q) <= np.iinfo(np.dtype(d_)).max)] or ["int64"]      # (types that hold the positions)
        return np.array(q, dtype=rng.choice(dts))
    if k == "mask":
        p = rng.choice([0.0, 0.5, 0.5, 1.0])
        m = [rng.random() < p for _ in range(n)]
        if allow_oob and rng.random() < 0.06:
            # a mask that is too short, or too long with only False in the surplus: not a mask of this array (numpy refuses it)
            m = m[:-1] if (n >= 2 and rng.random() < 0.5) else m + [False] * rng.randint(1, 2)       # (an EMPTY boolean array is read as "select nothing", like [])
            return np.array(m, dtype=bool)
        return m if (n and rng.random() < 0.3) else np.array(m, dtype=bool)     # a python list of bools is a mask too (as in numpy)
    if k == "empty":
        return rng.choice([[], np.zeros(0, dtype=np.int64)])
    return Ellipsis


def pairs_case(rng, lens, recv="fresh", refuse=False):
    g = gen_pairs(rng, lens, refuse)
    if g is None:
        return None
    return {"kind": "pairs", "lens": list(lens), "R": g[0], "C": g[1], "form": g[2], "recv": recv}


def narrow_rowlist_cases():
    """row lists carried by a narrow signed type that ask for more rows than there are, in an order whose neighbour differences do not fit the
    type (69 followed by -60 in int8); and: a first question to an unread column view, then a question about some of its rows"""
    lens = [(i * 5) % 4 for i in range(70)]
    for rs_ in ([0] * 3 + [69] * 3 + list(range(-64, 0)) + [-1] * 10, [5, 69] + [-60] * 75, list(range(0, 70)) + [-70, -69, -1], [127 % 70, 69, -70] + [-1] * 70):
        for dt_ in ("int8", "int16"):
            for cs_, h_ in ((None, False), (slice(1, None), True), (0, True)):
                if h_ and isinstance(cs_, int) and any(lens[r_] == 0 for r_ in rs_):
                    continue
                for recv_ in ("fresh", "lazyrows"):
                    yield mk_case(lens, np.array(rs_, dtype=dt_), cs_, h_, recv_)
    L4 = [3, 1, 4, 2, 5]
    for recv_ in ("lazycols+2", "lazycols-1", "lazychain", "fresh", "lazytail-parent-used"):
        for j0_ in (0, -1):
            for then_ in ([[0, 2, 4], 2, True], [[2, 4], 3, True], [np.array([True, False, True, False, True]), 2, True], [[4], 4, True], [[2], -4, True], [slice(2, None, 2), 3, True], [[0, 1], 1, True]):
                yield dict(mk_case(L4, slice(None), j0_, True, recv_), then=then_)


def pairs_directed():
    import random
    rng = random.Random(2222)
    for lens in ([3, 2, 4, 1, 2], [2, 0, 3], [1, 1, 1], [4], [0, 5, 0, 2], [3, 3, 3]):
        for recv in ("fresh", "lazyrows", "lazycols+2", "lazychain", "unsafe", "rslice-result"):
            for k in range(6):
                c = pairs_case(rng, lens, recv, refuse=(k == 5))
                if c:
                    yield c


def random_case(rng, tier):
    if rng.random() < 0.06:
        lens_, _ = gen.length_vector(rng, tier)
        c_ = pairs_case(rng, lens_, rng.choice(RECVS) if rng.random() < 0.4 else "fresh", refuse=rng.random() < 0.25)
        if c_:
            return c_
    lens, _ = gen.length_vector(rng, tier)
    n = len(lens)
    rs = random_selector(rng, n)
    ck = rng.choice(["none", "none", "int", "slice", "slice", "slice"])
    if isinstance(rs, np.ndarray) and rs.ndim == 0 and ck != "none":
        rs = int(rs)  # a 0-d array next to a column selector is outside the statement's grammar (DESIGN 7.4)
    maxl = max(lens) if lens else 0
    recv = rng.choice(RECVS) if rng.random() < 0.5 else "fresh"
    then = None
    if rng.random() < 0.3:
        rs2 = random_selector(rng, n)
        if isinstance(rs2, np.ndarray) and rs2.ndim == 0:
            rs2 = int(rs2)
        u2 = rng.random()
        then = [rs2, None, False] if u2 < 0.3 else ([rs2, rng.randint(-maxl - 1, maxl) if (lens and max(lens)) else 0, True] if u2 < 0.65 else [rs2, gen.gen_slice(rng, max(lens) if lens else 0, far=True), True])
    derive = None
    if rng.random() < 0.25:
        rsd = random_selector(rng, n, allow_oob=False) if rng.random() < 0.5 else slice(None)
        if not (isinstance(rsd, np.ndarray) and rsd.ndim == 0) and not model.is_int(rsd):
            csd = gen.gen_slice(rng, maxl, far=True) if rng.random() < 0.8 else slice(None)
            rs3 = slice(None) if rng.random() < 0.6 else random_selector(rng, max(1, n), allow_oob=False)
            if isinstance(rs3, np.ndarray) and rs3.ndim == 0:
                rs3 = int(rs3)
            u3 = rng.random()
            derive = [rsd, csd, True] + ([rs3, rng.randint(-maxl - 1, maxl), True] if u3 < 0.6 else [rs3, gen.gen_slice(rng, maxl, far=True), True] if u3 < 0.85 else [rs3, None, False])
    if ck == "none":
        return dict(mk_case(lens, rs, recv=recv), then=then, derive=derive)
    pad = rng.choice([1, 2, 3]) if rng.random() < 0.08 else 0
    if ck == "int":
        c = rng.randint(-maxl - 1, maxl)
        if rng.random() < 0.03:
            c = rng.choice([2 ** 32 + c, -2 ** 32 + c])
            return dict(mk_case(lens, rs, rng.choice([c, np.int64(c)]), True, recv), ellpad=pad)
        return dict(mk_case(lens, rs, gen.np_int(rng, c), True, recv), ellpad=pad, then=then, derive=derive)
    return dict(mk_case(lens, rs, gen.gen_slice(rng, maxl, far=True), True, recv), ellpad=pad, then=then, derive=derive)


def classify(case, res):
    """known-finding mechanisms of DESIGN section 6 (both are 'fixed': they suppress nothing)"""
    if case.get("kind") == "pairs":
        return None
    cs, lens = case["cs"], case["lens"]
    if not case["has_cs"]:
        return None
    try:
        _, rows = model.norm_rows_selector(case["rs"], len(lens))
    except model.Refused:
        return None
    rows = [rows] if isinstance(rows, int) else rows
    if model.is_int(cs) and cs < 0 and any(lens[i] < -cs for i in rows):
        return "F02a"
    if isinstance(cs, slice) and (cs.step or 1) < 0 and any(lens[i] == 0 for i in rows):
        return "F02b"
    return None
