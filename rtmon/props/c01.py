"""C01 -- a RaggedArray holds exactly the rows it was built from.

Events: construction (six constructor forms) followed by every read-back; the oracle is the
generating list of rows, the geometry oracle is itertools.accumulate over the lengths."""
import itertools
import os
import tempfile
import numpy as np
from ..core import CTX, attempt, held, violated, same_array, short, scribble
from .. import gen, contracts

PROP = "C01"
LEVEL_TEXT = 'Runtime monitoring of constructions and read-backs: ~10^4 (quick) / 10^5 (thorough) generated arrays over every empty-row placement, 11 dtypes, 9 constructor forms (incl. Fortran-ordered and strided inputs), each read back through every accessor the statement names plus the geometry object; mismatching buffers must be refused; results of conversions are overwritten to expose shared buffers. Exploration: held = held on these executions.'
LEVEL_NOTE = "trusts numpy 2.x, CPython (copy.copy, slice semantics, big ints) and the reference model in rtmon/props/c01.py; decides the executions it produces, nothing more"
TECHNIQUE = 'runtime monitoring: reference-model oracle (generating rows, itertools.accumulate geometry) at the API boundary + icontract post-condition on the prefix-sum geometry'
DESIGN_REF = "DESIGN.md sections 0, 5 (C01), 7"
RULE = ("case = (row lengths, dtype, value class, constructor form, flat values); every case is read back through len/size/"
        "shape/lengths/dtype/iter/tolist/ravel/astype/to_numpy_array/save+load and the geometry object; size-mismatching "
        "buffers must be rejected; distinct = hash of the case; non-trivial = at least 2 rows and at least one cell")
ASSUMPTIONS = ["dtype equality is demanded only where the input determines the dtype (DESIGN 7.4)",
               "column count of a zero-row matrix round trip is not judged"]
ANCHORS = [
    "raggedshape.py::RaggedShape.__init__", "raggedshape.py::ViewBase.__init__",
    "raggedarray/__init__.py::RaggedArray.__init__", "raggedarray/__init__.py::RaggedArray.__iter__",
    "raggedarray/__init__.py::RaggedArray.tolist", "raggedarray/__init__.py::RaggedArray.to_numpy_array",
    "raggedarray/__init__.py::RaggedArray.from_numpy_array", "raggedarray/__init__.py::RaggedArray._from_array_list",
    "raggedarray/__init__.py::RaggedArray.save", "raggedarray/__init__.py::RaggedArray.load",
    "raggedarray/__init__.py::RaggedArray.astype",
    "raggedshape.py::RaggedShape.to_dict", "raggedshape.py::RaggedShape.from_dict", "raggedshape.py::RaggedShape.asshape",
    "raggedshape.py::RaggedShape.from_tuple_shape",
    "raggedshape.py::ViewBase.ravel_multi_index", "raggedshape.py::ViewBase.unravel_multi_index", "raggedshape.py::ViewBase.index_array",
    "raggedshape.py::RaggedShape.size",
]
CTORS = ["rows", "from_ragged", "typedrows_dtype", "rows_views", "shape_of_selection", "tuplerows", "matrix2d_dtype", "pyrows", "mixedrows", "flat", "flat_nplens", "flatlist", "shape_tuple", "raggedshape", "flat_strided", "matrix"]
FLOOR_TAGS = ["ctor:" + c for c in CTORS] + ["kind:b", "kind:i", "kind:u", "kind:f", "v:small", "v:extreme", "v:nonfinite",
                                             "reject", "saveload", "matrix-roundtrip", "order:F", "order:T", "order:strided", "norows", "allempty", "e-first", "e-last", "e-mid", "e-consec", "e-none", "big-repr", "lensdtype:narrow", "lensdtype:sum-overflows"]
FLOOR_MONITORS = ["c01:readback", "c01:geometry", "c01:reject", "c01:result-independent", "inv:ragged"]
FP_STRICT = True       # a floating-point event inside the library that the dense computation does not have is a violation (shard.FpMonitor)
N_RANDOM = {"quick": 12500, "thorough": 120000}


def setup(lib):
    contracts.attach(lib, which=("ragged",))


def mk_case(lens, dtype, ctor, vclass="small", vals=None, rng=None, saveload=False, lensdtype=None):
    if vals is None:
        vals = gen.values(rng, dtype, sum(lens), vclass).tolist()
    c = {"lens": list(lens), "dtype": np.dtype(dtype).name, "ctor": ctor, "vclass": vclass, "vals": vals, "saveload": bool(saveload)}
    if ctor == "flat_nplens":
        if lensdtype is None and rng is not None:
            fits = [d for d in gen.NP_INTS + [">i2", ">i4", ">i8", ">u4", ">u8"] if not lens or max(lens) <= np.iinfo(d).max]
            lensdtype = rng.choice(fits)
        c["lensdtype"] = lensdtype or "int64"
    return c


def build(case, flat, rows):
    RA = CTX.lib.RaggedArray
    lens, ctor, dt = case["lens"], case["ctor"], np.dtype(case["dtype"])
    if ctor == "rows":
        return RA([r.copy() for r in rows], dtype=dt), True
    if ctor == "matrix2d_dtype":
        # the rows as ONE 2-d numpy array of another element type plus dtype= (rectangular contents; otherwise as a list of rows)
        if len(lens) and len(set(lens)) == 1 and lens[0] > 0:
            src = np.array([r.tolist() for r in rows], dtype=np.float64 if dt != np.float64 else np.longdouble)      # a wider type that holds every value exactly
            with np.errstate(all="ignore"):
                exact = np.array_equal(src.astype(dt), np.array([r.tolist() for r in rows], dtype=dt), equal_nan=(dt.kind == "f"))
            if exact:
                return RA(src, dtype=dt), True
        return RA([r.copy() for r in rows], dtype=dt), True
    if ctor == "from_ragged":      # the rows given as another ragged array: the new array holds its own copy
        src_ = RA(flat.copy(), list(lens))
        new_ = RA(src_)
        if src_.size:
            scribble(src_.ravel())
        return new_, True
    if ctor == "typedrows_dtype":
        # the rows arrive as arrays of DIFFERENT element types (each holds its row exactly: the other signedness, a narrower type, doubles for
        # small numbers) and the element type is requested with dtype=: every cell is converted on its own, nothing meets in a common type first
        typed = []
        for i, r in enumerate(rows):
            cands = [d for d in ("uint64", "int64", "int32", "uint8", "float64", "int8") if dt.kind in "iu" and r.astype(d).tolist() == r.tolist() and
                     (np.dtype(d).kind != "f" or bool(np.all(np.abs(r.astype(np.float64)) < 2 ** 53)))]
            typed.append(r.astype(cands[(len(r) + i) % len(cands)]) if cands else r.copy())
        return RA(typed, dtype=dt), True
    if ctor == "rows_views":
        # the rows are views of ONE caller buffer: every second cell of interleaved stretches, reversed stretches -- neighbours in memory, not contiguous
        k_ = 2 + (len(lens) % 2)
        base_ = np.zeros(k_ * (sum(lens) + len(lens)) + k_, dtype=dt)
        views_, pos_ = [], 0
        for i, r in enumerate(rows):
            if i % 3 == 2:
                seg = base_[pos_:pos_ + len(r)][::-1]
                pos_ += len(r)
            else:
                seg = base_[pos_:pos_ + k_ * len(r):k_]
                pos_ += len(r) + 1          # the next row starts inside the stretch this one strides over
            seg[...] = r
            views_.append(seg)
        for i, r in enumerate(rows):         # (later rows may have written into cells an earlier strided row also covers: restore in order)
            views_[i][...] = r
        ok_ = all(np.array_equal(v_, r, equal_nan=(dt.kind == "f")) if dt.kind == "f" else np.array_equal(v_, r) for v_, r in zip(views_, rows))
        return RA(views_ if ok_ else [r.copy() for r in rows], dtype=dt), True
    if ctor == "shape_of_selection":
        # the row lengths are taken from another array's .shape -- an array that is a still unread, permuted row selection
        n_ = len(lens)
        other = RA(np.zeros(sum(lens) + 3, dtype=np.int8), list(lens[::-1]) + [3])          # the wanted rows in reverse order, and one more
        sel_ = other[list(range(n_ - 1, -1, -1))] if n_ else RA(np.zeros(0, dtype=np.int8), [])          # rows picked back into order: the geometry is that of a view into `other`
        return RA(flat.copy(), sel_.shape), True
    if ctor == "tuplerows":        # the rows in a tuple instead of a list
        return RA(tuple(r.copy() for r in rows), dtype=dt), True
    if ctor == "pyrows":
        return RA([r.tolist() for r in rows]), False   # dtype is numpy's default for the python values
    if ctor == "mixedrows":
        # typed rows of *different* dtypes and no dtype=: the element type is numpy's promotion of all rows, whatever their order
        return RA([r.astype(d) for r, d in zip(rows, case["rowdtypes"])]), True
    if ctor == "flat":
        return RA(flat.copy(), list(lens)), True
    if ctor == "flat_nplens":
        # the lengths as a numpy array of any integer dtype that holds every length (the *sums* need not fit that dtype)
        la_ = np.array(lens, dtype=case.get("lensdtype", "int64"))
        x_ = RA(flat.copy(), la_)
        if len(la_):
            la_[...] = la_[::-1].copy() if len(set(lens)) > 1 else la_ + 1       # the caller reuses his lengths array afterwards
        return x_, True
    if ctor == "flatlist":
        return RA(flat.tolist(), list(lens), dtype=dt), True
    if ctor == "shape_tuple":
        other = RA(np.zeros(sum(lens), dtype=np.int8), list(lens))
        return RA(flat.copy(), other.shape), True
    if ctor == "raggedshape":
        return RA(flat.copy(), CTX.lib.RaggedShape(list(lens))), True
    if ctor == "flat_strided":      # a non-contiguous view as the flat buffer
        big = np.zeros(2 * len(flat) + 1, dtype=dt)
        big[1::2] = flat
        return RA(big[1::2], list(lens)), True
    raise ValueError(ctor)


def eqrow(a, b, dtype=True):
    return same_array(a, b, dtype=dtype)


NAT = -2 ** 63


def run_dates(case):
    """dates / durations (64-bit counts of a unit, one count standing for 'not a time'): read back, and converted to another unit"""
    RA = CTX.lib.RaggedArray
    lens, dt, tgt = case["lens"], np.dtype(case["dtype"]), np.dtype(case["unit2"])
    flat = np.array(case["vals"], dtype=np.int64).view(dt)
    tags = ["ctor:flat-dates", "kind:" + dt.kind] + gen.empty_placement(lens)
    CTX.tick("c01:dates")
    c = attempt(lambda: RA(flat.copy(), list(lens)))
    desc = "RaggedArray of %s counts %s with row lengths %s" % (dt, short(case["vals"], 100), lens)
    if not c.ok:
        return violated("%s: the constructor raised %r" % (desc, c), tags)
    ra = c.value
    rows = gen.split_rows(flat, lens)
    g = attempt(lambda: (ra.dtype, np.asarray(ra.lengths).tolist(), np.asarray(ra.ravel()), [np.asarray(r) for r in ra]))
    if not g.ok or g.value[0] != dt or g.value[1] != list(lens) or not same_array(g.value[2], flat) or len(g.value[3]) != len(rows) or not all(same_array(x, y) for x, y in zip(g.value[3], rows)):
        return violated("%s reads back as %s" % (desc, repr(g) if not g.ok else short(g.value, 200)), tags)
    exp = flat.astype(tgt)
    a = attempt(lambda: ra.astype(tgt))
    if not a.ok or not isinstance(a.value, RA) or a.value.dtype != tgt or np.asarray(a.value.lengths).tolist() != list(lens) or not same_array(a.value.ravel(), exp):
        return violated("%s: astype(%s) gives %s, numpy's conversion of the cells gives %s %s" % (desc, tgt, repr(a) if not a.ok else "%s %s" % (a.value.dtype, short(a.value.ravel(), 120)), exp.dtype, short(exp, 120)), tags + ["astype-unit"])
    if not same_array(ra.ravel(), flat):
        return violated("%s: astype(%s) changed the array" % (desc, tgt), tags)
    return held(tags, len(lens) >= 2 and sum(lens) >= 2)


def run(case):
    if case.get("ctor") == "dates":
        return run_dates(case)
    lens = case["lens"]
    dt = np.dtype(case["dtype"])
    n, tot = len(lens), sum(lens)
    flat = np.array(case["vals"], dtype=dt)
    if case["ctor"] == "mixedrows" and tot:
        parts = [r.astype(d) for r, d in zip(gen.split_rows(flat, lens), case["rowdtypes"])]
        nonempty = [p_ for p_ in parts if len(p_)]
        flat = np.concatenate(nonempty)           # numpy's promotion of the rows that have elements
        dt = flat.dtype
    if case["ctor"] == "pyrows" and tot:
        # the values are whatever numpy makes of the python numbers (e.g. ints above 2**63 next to small ones -> float64)
        flat = np.array(flat.tolist())
        dt = flat.dtype
    rows = gen.split_rows(flat, lens)
    pyrows = [r.tolist() for r in rows]
    tags = ["ctor:" + case["ctor"], "kind:" + dt.kind, "v:" + case["vclass"]] + gen.empty_placement(lens)
    nontrivial = n >= 2 and tot >= 1
    RA = CTX.lib.RaggedArray

    if case["ctor"] == "matrix":
        return run_matrix(case, tags)
    if case["ctor"] == "reject":
        return run_reject(case, tags)

    c = attempt(build, case, flat, rows)
    if not c.ok:
        return violated("constructor %s refused rows of lengths %s (%s): %r" % (case["ctor"], lens, dt, c), tags)
    ra, dtype_fixed = c.value
    if tot == 0 and case["ctor"] in ("pyrows", "mixedrows", "from_ragged"):
        dtype_fixed = False       # without any element the element type of a list of rows is numpy's default
    if case["ctor"] == "rows":
        dtype_fixed = True

    def fail(what, got, exp):
        return violated("%s of RaggedArray built by '%s' from rows %s (%s): got %s, expected %s" % (what, case["ctor"], short(pyrows, 120), dt, short(got, 160), short(exp, 160)),
                        tags + ["readback:" + what], got=repr(got)[:300], expected=repr(exp)[:300])

    exp_dt = dt if dtype_fixed else (np.array([v for r in pyrows for v in r]).dtype if tot else None)
    checks = [
        ("len", lambda: len(ra), lambda g: g == n, n),
        ("size", lambda: ra.size, lambda g: g == tot, tot),
        ("shape", lambda: (ra.shape[0], np.asarray(ra.shape[1]).tolist()), lambda g: g == (n, lens), (n, lens)),
        ("lengths", lambda: np.asarray(ra.lengths).tolist(), lambda g: g == lens, lens),
        ("dtype", lambda: ra.dtype, lambda g: exp_dt is None or g == exp_dt, exp_dt),
        ("iter", lambda: list(iter(ra)), lambda g: len(g) == n and all(eqrow(a, b, dtype=exp_dt is not None and dtype_fixed) for a, b in zip(g, rows)), pyrows),
        ("reversed", lambda: list(reversed(ra)), lambda g: len(g) == n and all(eqrow(a, b, dtype=exp_dt is not None and dtype_fixed) for a, b in zip(g, rows[::-1])), pyrows[::-1]),
        ("len(list)", lambda: [len(x) for x in list(ra)], lambda g: g == lens, lens),
        ("tolist", lambda: ra.tolist(), lambda g: len(g) == n and all(eqrow(np.array(a, dtype=dt), b) for a, b in zip(g, rows)) and [len(x) for x in g] == lens, pyrows),
        ("ravel", lambda: ra.ravel(), lambda g: eqrow(g, flat, dtype=dtype_fixed), flat),
        ("astype(float64)", lambda: ra.astype(np.float64), lambda g: isinstance(g, RA) and g.dtype == np.float64 and np.asarray(g.lengths).tolist() == lens and eqrow(g.ravel(), flat.astype(np.float64)), flat.astype(np.float64)),
        ("astype(own)", lambda: ra.astype(dt), lambda g: isinstance(g, RA) and g.dtype == dt and np.asarray(g.lengths).tolist() == lens and eqrow(g.ravel(), flat), flat),
    ]
    # conversion to another element type follows numpy's astype on the flat values (value-preserving targets only: no NaN/overflow casts)
    tgt = np.dtype(gen.DT_ALL[(len(case["vals"]) * 7 + n) % len(gen.DT_ALL)])
    if True:       # (no errstate override: the floating-point-event tap must see numpy's own events)
        conv = flat.astype(tgt)
    if np.array_equal(conv.astype(np.float64), flat.astype(np.float64), equal_nan=True) or tgt.kind == "b":
        checks.append(("astype(%s)" % tgt, lambda: ra.astype(tgt), lambda g: isinstance(g, RA) and g.dtype == tgt and np.asarray(g.lengths).tolist() == lens and eqrow(g.ravel(), conv), conv))
    if len(set(lens)) <= 1 and n > 0:
        exp_m = flat.reshape(n, lens[0])
        checks.append(("to_numpy_array", lambda: ra.to_numpy_array(), lambda g: isinstance(g, np.ndarray) and eqrow(g, exp_m, dtype=dtype_fixed), exp_m))
    if n == 0:
        checks.append(("to_numpy_array(0 rows)", lambda: ra.to_numpy_array(), lambda g: isinstance(g, np.ndarray) and g.shape[0] == 0 and g.size == 0 and (not dtype_fixed or g.dtype == dt), "empty %s matrix" % dt))
    if len(set(lens)) > 1:
        # rows of different lengths do not form a matrix: the conversion is refused (a matrix that came back would not hold these rows)
        CTX.tick("c01:not-rectangular")
        o = attempt(lambda: ra.to_numpy_array())
        if o.ok:
            return fail("to_numpy_array of rows with lengths %s (not rectangular)" % short(lens, 80), short(o.value, 160), "a refusal")
    for what, f, ok, exp in checks:
        CTX.tick("c01:readback", tot > 0)
        o = attempt(f)
        if not o.ok:
            return fail(what, repr(o), exp)
        good = attempt(ok, o.value)
        if not (good.ok and good.value):
            return fail(what, o.value, exp)

    # right after this array, a second one over the same cells whose row-lengths vector has another integer width but the very same bytes
    # (int64 [3, 2] and int32 [3, 0, 2, 0]; the totals agree): it has ITS row lengths, whatever was built just before
    if 0 < n <= 2000 and case["ctor"] in ("flat", "flat_nplens", "flatlist", "rows", "pyrows"):
        CTX.tick("c01:byte-twin")
        L64 = np.array(lens, dtype=np.int64)
        attempt(lambda: RA(flat.copy(), L64))
        for tw_ in (L64.view(np.int32).copy(), L64.view(np.uint16).copy(), L64.view(np.uint8).copy()):
            tl_ = [int(x) for x in tw_.tolist()]
            if sum(tl_) != tot:
                continue          # (lengths beyond the narrower type's range do not split into equal-sum pieces)
            o = attempt(lambda: RA(flat.copy(), tw_))
            if not o.ok:
                return fail("construction with the lengths given as %s %s" % (tw_.dtype, short(tl_, 80)), repr(o), "an array with these row lengths")
            got_ = attempt(lambda: (len(o.value), np.asarray(o.value.lengths).tolist(), o.value.ravel().tolist()))
            if not got_.ok or got_.value[0] != len(tl_) or got_.value[1] != tl_ or not eqrow(np.asarray(got_.value[2], dtype=flat.dtype) if dt.kind != "O" else got_.value[2], flat, dtype=False):
                return fail("the array built next from the same cells with lengths %s %s" % (tw_.dtype, short(tl_, 80)), repr(got_) if not got_.ok else (got_.value[0], short(got_.value[1], 80)), (len(tl_), short(tl_, 80)))
            attempt(lambda: RA(flat.copy(), L64))
    # conversions return independent arrays: overwriting them must not change what the array reports (numpy's astype copies)
    CTX.tick("c01:result-independent", tot > 0)
    for what, f in (("astype(own dtype)", lambda: ra.astype(dt)), ("astype(float64)", lambda: ra.astype(np.float64)), ("tolist", lambda: ra.tolist())):
        o = attempt(f)
        if o.ok and not isinstance(o.value, list):
            scribble(o.value)
        elif o.ok:
            for row in o.value:
                row[:] = [0] * len(row)
        if not eqrow(ra.ravel(), flat, dtype=dtype_fixed):
            return fail("content after overwriting the result of " + what, ra.ravel(), flat)

    # save / load round trip
    if case["saveload"]:
        tags.append("saveload")

        def sl():
            import pathlib
            form = (tot + 3 * n) % 5          # the path in several spellings: str, pathlib.Path, a name without extension (numpy appends .npz), open file objects, an existing file overwritten
            with tempfile.TemporaryDirectory(prefix="rtmon-c01-") as d:
                p = os.path.join(d, "x.npz")
                if form == 1:
                    ra.save(pathlib.Path(p))
                    return RA.load(pathlib.Path(p))
                if form == 2:
                    ra.save(os.path.join(d, "x"))
                    return RA.load(p)
                if form == 0 and n % 2:
                    # a name that already contains a dot (numpy appends .npz, it does not replace a suffix); an unrelated x.npz exists next to it
                    RA(np.arange(7), [3, 4]).save(p)
                    ra.save(os.path.join(d, "x.v2"))
                    other = RA.load(p)
                    if other.tolist() != [[0, 1, 2], [3, 4, 5, 6]]:
                        raise AssertionError("saving as 'x.v2' changed the unrelated file 'x.npz': %s" % (other.tolist(),))
                    return RA.load(os.path.join(d, "x.v2.npz"))
                if form == 3:
                    with open(p, "wb") as fh:
                        ra.save(fh)
                    with open(p, "rb") as fh:
                        return RA.load(fh)
                if form == 4:
                    RA(np.arange(7), [3, 4]).save(p)          # an older file of the same name is replaced
                    ra.save(p)
                    first = RA.load(p)
                    second = RA.load(p)                        # loading twice gives two independent arrays
                    if first.size:
                        first.ravel()[0] = first.ravel()[0] + 1 if dt.kind != "b" else not first.ravel()[0]
                    return second
                ra.save(p)
                return RA.load(p)
        o = attempt(sl)
        CTX.tick("c01:readback", tot > 0)
        if not o.ok:
            return fail("save/load", repr(o), pyrows)
        rb = o.value
        if not (isinstance(rb, RA) and np.asarray(rb.lengths).tolist() == lens and eqrow(rb.ravel(), ra.ravel()) and len(rb) == n
                and all(eqrow(a, b, dtype=dtype_fixed) for a, b in zip(list(rb), rows))):
            return fail("save/load", rb, pyrows)

    # geometry object
    ld = case.get("lensdtype")
    if ld and ld != "int64":
        tags.append("lensdtype:narrow")
        if lens and sum(lens) > np.iinfo(ld).max:
            tags.append("lensdtype:sum-overflows")
    r = check_geometry(lens, ra, tags, lens_as=(np.array(lens, dtype=ld) if ld else None))
    if r is not None:
        return r
    if tot > 100:
        tags.append("big-repr")
        o = attempt(lambda: (repr(ra), str(ra)))
        if not o.ok:
            return fail("repr/str", repr(o), "a string")
        if not eqrow(ra.ravel(), flat, dtype=dtype_fixed):
            return fail("content after repr", ra.ravel(), flat)
    return held(tags, nontrivial)


def check_geometry(lens, ra, tags, lens_as=None):
    n, tot = len(lens), sum(lens)
    starts = [0] + list(itertools.accumulate(lens))[:-1] if n else []
    ends = list(itertools.accumulate(lens))
    cells = [(i, j) for i in range(n) for j in range(lens[i])]
    for name, shape in (("array.geometry", getattr(ra, "_shape", None)), ("RaggedShape(lengths)", attempt(CTX.lib.RaggedShape, list(lens) if lens_as is None else lens_as))):
        if name.startswith("RaggedShape"):
            if not shape.ok:
                return violated("RaggedShape(%s) raised %r" % (lens, shape), tags + ["geometry"])
            shape = shape.value
        if shape is None:
            continue  # probe unavailable

        def G(what, f, exp):
            CTX.tick("c01:geometry", tot > 0)
            o = attempt(f)
            if not o.ok or o.value != exp:
                return violated("%s.%s for lengths %s: got %s, expected %s" % (name, what, lens, repr(o) if not o.ok else short(o.value, 160), short(exp, 160)), tags + ["geometry:" + what])
            return None
        for what, f, exp in [
            ("starts", lambda: np.asarray(shape.starts).tolist(), starts),
            ("ends", lambda: np.asarray(shape.ends).tolist(), ends),
            ("lengths", lambda: np.asarray(shape.lengths).tolist(), list(lens)),
            ("size", lambda: int(shape.size), tot),
            ("n_rows", lambda: int(shape.n_rows), n),
        ]:
            r = G(what, f, exp)
            if r:
                return r
        if n >= 2 and name.startswith("RaggedShape"):
            for a_, b_ in ((1, n), (n // 2, n), (1, max(2, n - 1)), (0, n)):
                sub = attempt(lambda: shape[a_:b_])
                if sub.ok:
                    r = G("lengths of shape[%d:%d]" % (a_, b_), lambda: np.asarray(sub.value.lengths).tolist(), list(lens[a_:b_]))
                    if r:
                        return r
                    r = G("starts (after slicing the shape object [%d:%d])" % (a_, b_), lambda: np.asarray(shape.starts).tolist(), starts)
                    if r:
                        return r
        # 'ends' is computed on request (starts + lengths): the array handed out belongs to the caller, who may change it
        # (e.g. last = shape.ends; last -= 1) without changing what the geometry object reports or computes afterwards
        if n and name.startswith("RaggedShape"):
            e_ = attempt(lambda: shape.ends)
            if e_.ok and isinstance(e_.value, np.ndarray) and e_.value.flags.writeable:
                e_.value -= 1
                r = G("ends (after the caller changed the array returned before)", lambda: np.asarray(shape.ends).tolist(), ends)
                if r:
                    return r
                o_ = attempt(lambda: CTX.lib.RaggedArray(np.arange(tot), shape))
                if o_.ok:
                    for what_, f_, exp_ in (("tolist", lambda: o_.value.tolist(), [list(range(s_, e2)) for s_, e2 in zip(starts, ends)]),
                                            ("cumsum", lambda: np.cumsum(o_.value, axis=-1).tolist(), [np.cumsum(np.arange(s_, e2)).tolist() for s_, e2 in zip(starts, ends)]),
                                            ("row sums", lambda: o_.value.sum(axis=-1).tolist(), [sum(range(s_, e2)) for s_, e2 in zip(starts, ends)])):
                        r = G("array over that shape: " + what_, f_, exp_)
                        if r:
                            return r
        if tot > 0:
            rr = np.array([c[0] for c in cells])
            cc = np.array([c[1] for c in cells])
            r = G("ravel_multi_index", lambda: np.asarray(shape.ravel_multi_index((rr, cc))).tolist(), list(range(tot)))
            if r:
                return r
            r = G("unravel_multi_index", lambda: [np.asarray(x).tolist() for x in shape.unravel_multi_index(np.arange(tot))], [rr.tolist(), cc.tolist()])
            if r:
                return r
            r = G("index_array", lambda: np.asarray(shape.index_array()).tolist(), rr.tolist())
            if r:
                return r
            # position vectors that are not arange: a permutation that keeps the end points, one with a repeat, a reversed one, a subset
            import random as _r
            rr_ = _r.Random(tot * 31 + n)
            perm = list(range(tot))
            mid = perm[1:-1]
            rr_.shuffle(mid)
            vecs = [[perm[0]] + mid + [perm[-1]] if tot > 1 else perm, perm[::-1], sorted(rr_.choice(perm) for _ in perm), sorted(set(rr_.choice(perm) for _ in range(max(1, tot // 2))))]
            vecs.append([rr_.choice(perm) for _ in range(2 * tot + 3)])        # more look-ups than cells, unordered, with repeats
            for vi_, pv in enumerate(vecs):
                want = [[cells[p_][0] for p_ in pv], [cells[p_][1] for p_ in pv]]
                # the position vector in any integer type that holds the positions (unsigned ones: differences of unsigned numbers wrap), also as a python list
                fits_ = [d_ for d_ in ("int64", "uint64", "uint32", "int32", "uint16", "int16", "uint8", "int8") if tot - 1 <= np.iinfo(d_).max]
                pdt_ = fits_[(vi_ + tot + n) % len(fits_)]
                r = G("unravel_multi_index(position vector, %s)" % pdt_, lambda: [np.asarray(x).tolist() for x in shape.unravel_multi_index(np.array(pv, dtype=pdt_))], want)
                if r:
                    return r
                r = G("unravel_multi_index(position vector)", lambda: [np.asarray(x).tolist() for x in shape.unravel_multi_index(np.array(pv, dtype=np.int64))], want)
                if r:
                    return r
                r = G("ravel_multi_index(pairs)", lambda: np.asarray(shape.ravel_multi_index((np.array(want[0]), np.array(want[1])))).tolist(), list(pv))
                if r:
                    return r
            # single positions, as the hash table / counter use them
            k = tot // 2
            r = G("unravel_multi_index(scalar)", lambda: tuple(int(x) for x in shape.unravel_multi_index(k)), cells[k])
            if r:
                return r
    return None


def run_matrix(case, tags):
    RA = CTX.lib.RaggedArray
    r_, c_ = case["lens"]
    dt = np.dtype(case["dtype"])
    m = np.array(case["vals"], dtype=dt).reshape(r_, c_)
    order = case.get("order", "C")
    if order == "F":
        m = np.asfortranarray(m)
    elif order == "T":                # a transposed view of the transposed data: same logical matrix, Fortran-ordered memory
        m = np.ascontiguousarray(m.T).T
    elif order == "strided":
        wide = np.zeros((r_, 2 * c_ + 1), dtype=dt)
        wide[:, 1::2] = m
        m = wide[:, 1::2]
    tags = ["ctor:matrix", "kind:" + dt.kind, "v:" + case["vclass"], "matrix-roundtrip", "order:" + order]
    CTX.tick("c01:readback", m.size > 0)
    o = attempt(RA.from_numpy_array, m)
    if not o.ok:
        return violated("from_numpy_array of a %s %s matrix raised %r" % (m.shape, dt, o), tags)
    x = o.value
    if not (len(x) == r_ and np.asarray(x.lengths).tolist() == [c_] * r_ and x.dtype == dt and same_array(x.ravel(), m.ravel()) and x.tolist() == m.tolist() or (r_ and np.isnan(m.astype(float)).any() and same_array(x.ravel(), m.ravel()))):
        return violated("from_numpy_array(%s) reads back as %s" % (short(m), short(x)), tags)
    if r_ > 0:
        for what, f, e in (("x[-1]", lambda: x[r_ - 1].tolist(), m[-1].tolist()), ("x[::-1]", lambda: x[::-1].tolist(), m[::-1].tolist()),
                           ("x[1:]", lambda: x[1:].tolist(), m[1:].tolist()), ("row lengths after x[::2]", lambda: np.asarray(x[::2].lengths).tolist(), [c_] * len(m[::2]))):
            o = attempt(f)
            if not o.ok or not same_array(np.array(o.value, dtype=object if False else None), np.array(e), dtype=False):
                return violated("%s of from_numpy_array(%s) gives %s, expected %s" % (what, short(m), repr(o) if not o.ok else short(o.value), short(e)), tags + ["matrix-rows"])
    if m.size and m.flags.writeable:
        # RaggedArray(matrix): the rows of a 2-d array, an array of its own -- the caller goes on using his matrix
        CTX.tick("c01:matrix-ctor-independent")
        m2 = np.array(m, copy=True, order="K")
        z = attempt(lambda: RA(m2))
        if not z.ok or not same_array(z.value.ravel(), m.ravel()) or np.asarray(z.value.lengths).tolist() != [c_] * r_:
            return violated("RaggedArray(%s) gives %s" % (short(m), repr(z) if not z.ok else short(z.value)), tags + ["matrix-ctor"])
        m2[...] = (np.logical_not(m2) if dt.kind == "b" else m2 + np.ones(1, dtype=dt)[0])
        m2[...] = np.where(np.asarray(m2 == m) if dt.kind != "f" else np.asarray((m2 == m) | (np.isnan(m2.astype(float)) & np.isnan(m.astype(float)))), np.ones(1, dtype=dt)[0] * 3, m2) if dt.kind != "b" else m2
        if not same_array(z.value.ravel(), m.ravel()):
            return violated("RaggedArray(matrix) follows later writes to the caller's matrix: it now reads %s, was built from %s" % (short(z.value), short(m)), tags + ["matrix-ctor", "shares-memory"])
    y = attempt(x.to_numpy_array)
    if not y.ok:
        return violated("to_numpy_array after from_numpy_array(%s matrix) raised %r" % (m.shape, y), tags)
    y = y.value
    if r_ > 0:
        if not same_array(y, m):
            return violated("matrix round trip of %s gives %s %s" % (short(m), y.dtype, short(y)), tags, got=y, expected=m)
    else:
        if not (y.shape[0] == 0 and y.size == 0 and y.dtype == dt):
            return violated("matrix round trip of a zero-row %s matrix gives shape %s dtype %s" % (dt, y.shape, y.dtype), tags)
    return held(tags, r_ >= 2 and c_ >= 1)


def run_reject(case, tags):
    """a flat buffer whose size disagrees with the row lengths is rejected"""
    RA = CTX.lib.RaggedArray
    lens, delta, form = case["lens"], case["delta"], case["form"]
    dt = np.dtype(case["dtype"])
    tot = sum(lens)
    size = tot + delta
    flat = np.arange(size).astype(dt)
    tags = ["ctor:reject", "reject", "reject:%+d" % (1 if delta > 0 else -1), "kind:" + dt.kind] + gen.empty_placement(lens)
    if form == "list":
        f = lambda: RA(flat.tolist(), list(lens), dtype=dt)
    elif form == "nplens":
        f = lambda: RA(flat, np.array(lens, dtype=np.int64))
    elif form == "raggedshape":
        f = lambda: RA(flat, CTX.lib.RaggedShape(list(lens)))
    elif form == "shape_tuple":
        f = lambda: RA(flat, RA(np.zeros(tot, dtype=np.int8), list(lens)).shape)          # another array's .shape: the pair (number of rows, row lengths)
    elif form == "pair":
        f = lambda: RA(flat, (len(lens), np.array(lens, dtype=np.int64)))
    else:
        f = lambda: RA(flat, list(lens))
    CTX.tick("c01:reject")
    o = attempt(f)
    if o.ok:
        return violated("a flat buffer of %d elements was accepted for row lengths %s (sum %d), form=%s" % (size, lens, tot, form), tags, got=short(o.value))
    return held(tags, len(lens) >= 2)


# ----------------------------------------------------------------------------- workloads

def reject_case(lens, delta, dtype="int64", form="lens"):
    return {"lens": list(lens), "dtype": dtype, "ctor": "reject", "delta": delta, "form": form, "vclass": "small", "vals": []}


def matrix_case(r, c, dtype, vals, vclass="small", order="C"):
    return {"lens": [r, c], "dtype": np.dtype(dtype).name, "ctor": "matrix", "vclass": vclass, "vals": vals, "saveload": False, "order": order}


def directed():
    import random
    rng = random.Random(101)
    for c in coincidence_cases():
        yield c
    shapes = [[], [0], [3], [0, 0, 0], [0, 2, 3], [2, 3, 0], [2, 0, 3], [1, 0, 0, 4], [0, 0, 1, 0, 0], [2, 2, 2], [1, 1], [0, 12, 1], [5, 4, 3, 2, 1], [3, 3], [4, 4, 4]]
    for lens in shapes:
        for i, ctor in enumerate(CTORS[:-1]):
            for dtype in (["int64", "bool", "uint8", "float32"] if ctor in ("flat", "rows") else [gen.DT_ALL[(i * 3 + len(lens)) % len(gen.DT_ALL)]]):
                c = mk_case(lens, dtype, ctor, "small", rng=rng, saveload=(ctor in ("flat", "rows")))
                if ctor == "mixedrows":
                    c.update(mixed_case(rng, lens))
                yield c
    for rd in (["int8", "float64", "int8"], ["bool", "int64", "int64"], ["float32", "float64", "float32"], ["uint8", "int8", "uint8"], ["int8", "int16", "int64"], ["int64", "int8", "bool"]):
        for lens in ([2, 2, 1], [0, 3, 2], [1, 0, 2]):
            c = mk_case(lens, "int64", "mixedrows", "small", vals=[1, 0, 100, 7, 1, 0][:sum(lens)])
            c["rowdtypes"] = rd
            yield c
    for dtype, vals_ in (("uint64", [2 ** 63 + 1, 7, 1, 2, 3, 2 ** 64 - 1]), ("int64", [2 ** 53 + 1, 4, 5, -2 ** 63, 2 ** 63 - 1, 9]), ("uint64", [1, 2, 2 ** 53 + 1, 2 ** 63, 5, 6]), ("int64", [-1, -2, 2 ** 62 + 1, 3, 4, 5])):
        for lens in ([2, 3, 1], [1, 0, 2, 3], [3, 3], [2, 1, 0, 3]):
            yield mk_case(lens, dtype, "typedrows_dtype", "extreme", vals=vals_[:sum(lens)])
    # dates and durations: the same scalar class for every unit -- a conversion between two units is a real conversion
    for d1, d2 in (("M8[s]", "M8[D]"), ("M8[D]", "M8[s]"), ("m8[ms]", "m8[s]"), ("m8[s]", "m8[ms]"), ("M8[s]", "M8[s]"), ("m8[h]", "m8[m]"), ("M8[ms]", "M8[us]")):
        for lens in ([2, 0, 3, 1], [3, 3], [0, 0, 4], [1]):
            vals_ = [[86400 * 3, 90000, NAT, 1, -86400, 7 * 3600 * 1000 + 5][(i * 5 + len(lens)) % 6] for i in range(sum(lens))]
            yield {"ctor": "dates", "lens": lens, "dtype": d1, "unit2": d2, "vals": vals_}
    for dtype in gen.DT_ALL:
        yield mk_case([2, 0, 3, 1], dtype, "flat", "extreme", rng=rng, saveload=True)
        yield mk_case([2, 0, 3, 1], dtype, "typedrows_dtype", "extreme", rng=rng)
        yield mk_case([0, 3, 0, 0], dtype, "rows", "extreme", rng=rng)
    for dtype in gen.DT_FLOAT:
        yield mk_case([2, 0, 3, 1], dtype, "flat", "nonfinite", rng=rng, saveload=True)
        yield mk_case([3, 3], dtype, "rows", "nonfinite", rng=rng)
        yield mk_case([1, 2], dtype, "pyrows", "nonfinite", rng=rng)
    # lengths given in a narrow integer dtype whose range the row starts / the total exceed
    for lens, ld in (([100] * 4, "uint8"), ([100, 100, 100], "int8"), ([0, 127, 1, 0, 127, 3], "int8"), ([255, 255, 2], "uint8"), ([200, 0, 0, 100, 0], "uint8"),
                     ([30000, 30000, 7], "int16"), ([40000, 30000], "uint16"), ([3, 2], "uint8"), ([3, 0, 2], "int32"), ([3, 0, 2], "uint64"),
                     ([3, 0, 2], ">i4"), ([3, 0, 2], ">i8"), ([1, 4], ">u4"), ([2, 2, 0], ">u8"), ([300, 2], ">i2")):
        yield mk_case(lens, "int32", "flat_nplens", "small", vals=list(range(sum(lens))), lensdtype=ld)
    # > 100 cells, > 20 rows: the other branch of repr/str
    yield mk_case([5] * 30, "int64", "flat", "small", rng=rng)
    yield mk_case([0, 120, 3], "int16", "rows", "small", rng=rng, saveload=True)
    yield mk_case([101], "float64", "flat", "small", rng=rng)
    # rejected buffers: +-1 and +- a whole row
    for lens in [[2, 3], [0, 2], [2, 0], [0, 0], [3], [], [1, 1, 1], [4, 0, 4]]:
        for form in ("lens", "list", "nplens", "raggedshape", "shape_tuple", "pair"):
            yield reject_case(lens, +1, form=form)
            if sum(lens):
                yield reject_case(lens, -1, form=form)
            if lens and lens[-1] > 1:
                yield reject_case(lens, -lens[-1], form=form)
                yield reject_case(lens, +lens[-1], form=form)
            elif lens and lens[0] > 1:
                yield reject_case(lens, +lens[0], form=form)
    yield reject_case([2, 3], +1, dtype="float32")
    yield reject_case([2, 3], -1, dtype="bool")
    # matrices
    for r_, c_ in [(0, 0), (0, 3), (1, 1), (3, 0), (2, 3), (4, 1), (1, 5)]:
        for dtype in ("int64", "int8", "uint16", "bool", "float32", "float64"):
            vals = gen.values(rng, dtype, r_ * c_, "small").tolist()
            for order in ("C", "F", "T", "strided"):
                yield matrix_case(r_, c_, dtype, vals, order=order)
    yield matrix_case(2, 2, "float64", [float("nan"), 1.0, float("inf"), -0.0], "nonfinite")


def coincidence_cases():
    """row lengths with arithmetic coincidences: the first (or last) row exactly as long as the average row, totals that are multiples of the row count, ..."""
    import random
    rng = random.Random(1901)
    for lens in ([2, 1, 3], [2, 0, 4, 2], [1, 2, 0], [3, 3, 0, 6], [2, 3, 1], [4, 0, 0, 4, 12], [1, 0, 2], [5, 5, 4, 6], [2, 2, 2, 1, 3], [0, 1, 0, 0, 4, 1], [3, 1, 5, 3]):
        for k, ctor in enumerate(("rows", "flat", "pyrows", "flat_nplens")):
            yield mk_case(lens, ["int64", "float64", "uint8", "bool"][k % 4], ctor, "small", rng=rng)


def random_case(rng, tier):
    u = rng.random()
    dtype = rng.choice(gen.DT_ALL)
    if u < 0.08:
        lens, _ = gen.length_vector(rng, tier)
        tot = sum(lens)
        delta = rng.choice([1, -1, 2, -2] + ([lens[-1], -lens[-1]] if lens and lens[-1] else []) + ([lens[0]] if lens and lens[0] else []))
        if tot + delta < 0 or delta == 0:
            delta = 1
        return reject_case(lens, delta, dtype=dtype, form=rng.choice(["lens", "list", "nplens", "raggedshape"]))
    kind = np.dtype(dtype).kind
    vclass = rng.choice(["small", "small", "extreme"] + (["nonfinite"] if kind == "f" else []))
    if u < 0.16:
        r_, c_ = rng.randint(0, 5), rng.randint(0, 6)
        return matrix_case(r_, c_, dtype, gen.values(rng, dtype, r_ * c_, vclass).tolist(), vclass, rng.choice(["C", "C", "F", "T", "strided"]))
    lens, _ = gen.length_vector(rng, tier)
    ctor = rng.choice(CTORS[:-1])
    c = mk_case(lens, dtype, ctor, vclass if ctor != "mixedrows" else "small", rng=rng, saveload=rng.random() < 0.15)
    if ctor == "mixedrows":
        c.update(mixed_case(rng, lens))
    return c


def const_case(rng, tier, s, form):
    """sizes taken from the numeric constants of the source (rtmon/codeconst.py).  For a constant the harness has not seen before, the same row lengths
    are built through EVERY constructor form (one case each, element types rotating); otherwise one random case with the forced size."""
    from ..codeconst import CAPACITY
    if not gen.FORCED.get("novel") and not any(abs(s - c_) <= 1 for c_ in CAPACITY if c_ >= 32768):
        # (the capacity boundaries of the 16-bit types are treated like constants never seen before: every constructor form)
        c = random_case(rng, tier)
        return c if gen.FORCED["used"] else None
    out = []
    dts = ["int64", "uint8", "float64", "bool", "int32", "int16", "float32", "uint64"]
    ctors_ = CTORS[:-1]
    if not gen.FORCED.get("novel"):
        if form not in ("rows", "emptyrun", "nonempty"):
            c = random_case(rng, tier)
            return c if gen.FORCED["used"] else None
        ctors_ = ["rows", "pyrows", "flat"]          # (capacity boundaries: the forms that go through python lists of rows, and the plain one)
    for k, ctor in enumerate(ctors_):
        gen.FORCED["used"] = 0
        lens, _ = gen.length_vector(rng, tier)          # (its own row lengths of that size and form for every constructor)
        dtype = dts[(k + s) % len(dts)]
        c = mk_case(lens, dtype, ctor, "small", rng=rng, saveload=(k % 5 == 0))
        if ctor == "mixedrows":
            c.update(mixed_case(rng, lens))
        out.append(c)
    return out


def mixed_case(rng, lens):
    fam = rng.choice([["int8", "int16", "int64"], ["uint8", "int8", "int16"], ["bool", "int64"], ["int32", "float64"], ["float32", "float64"], ["uint8", "uint16", "float32"]])
    rd = [rng.choice(fam) for _ in lens]
    vals = [rng.randint(0, 100) for _ in range(sum(lens))]
    return {"dtype": "int64", "vals": vals, "rowdtypes": rd, "vclass": "small"}


def classify(case, res):
    if case["ctor"] != "matrix" and len(case["lens"]) == 0 and "readback:to_numpy_array(0 rows)" in res["tags"]:
        return "F01a"
    if case["ctor"] == "matrix" and case["lens"][0] == 0:
        return "F01a"
    if case["ctor"] == "reject" and case.get("form") == "raggedshape":
        return "F01b"
    return None
