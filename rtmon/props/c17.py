"""C17 -- 2-D and ragged run-length arrays behave as one run-length array per row.

Oracle: numpy on the dense rows.  Operations are exercised per variant where the class
provides them and where the statement promises them (DESIGN 7.4)."""
import numpy as np
from ..core import CTX, attempt, held, violated, undefined, short, deep_same
from .. import gen, contracts, rl

PROP = "C17"
LEVEL_TEXT = 'numpy on the dense rows for both variants: constructors (C / Fortran / lazy sources), row / element / column / column-range selection in the stated domain, row and column reductions, ravel, concatenate, ufuncs with scalar / column operands on either side. Exploration.'
LEVEL_NOTE = "trusts numpy 2.x, CPython (copy.copy, slice semantics, big ints) and the reference model in rtmon/props/c17.py; decides the executions it produces, nothing more"
TECHNIQUE = 'runtime monitoring: reference-model oracle (numpy on dense rows) + RunLengthArray invariant on every row object'
DESIGN_REF = "DESIGN.md sections 0, 5 (C17), 7"
RULE = ("case = (variant: matrix | ragged | ragged-from-matrix | intervals, dtype, rows with run patterns, operation with its selectors / operands); "
        "oracle = numpy on the dense rows; distinct = hash of the case; non-trivial = >= 2 rows and a row with >= 2 runs")
ASSUMPTIONS = ["rows have length >= 1", "column ranges on the ragged variant are non-empty in every selected row; negative steps have bounds inside the rows",
               "values are small integers / dyadic floats (exact sums); means are compared with rtol 1e-9"]
ANCHORS = ["runlengtharray.py::RunLength2dArray.from_array", "runlengtharray.py::RunLengthRaggedArray.from_ragged_array", "runlengtharray.py::IndexableMixin.__getitem__",
           "runlengtharray.py::IndexableMixin._getitem_tuple", "runlengtharray.py::IndexableMixin._step_subset", "runlengtharray.py::RunLengthRaggedArray.remove_empty_intervals",
           "runlengtharray.py::RunLength2dArray.sum", "runlengtharray.py::RunLength2dArray.any", "runlengtharray.py::RunLength2dArray.all", "runlengtharray.py::RunLengthRaggedArray.max",
           "runlengtharray.py::RunLengthRaggedArray.argmax", "runlengtharray.py::RunLengthRaggedArray.mean", "runlengtharray.py::RunLength2dArray._col_sum",
           "runlengtharray.py::RunLengthRaggedArray.col_counts", "runlengtharray.py::RunLength2dArray._col_any", "runlengtharray.py::RunLength2dArray.__array_ufunc__",
           "runlengtharray.py::RunLengthRaggedArray.__array_function__", "runlengtharray.py::rlra_concatenate", "runlengtharray.py::RunLength2dArray.from_intervals",
           "runlengtharray.py::RunLengthRaggedArray.ravel", "runlengtharray.py::RunLength2dArray.to_array", "runlengtharray.py::RunLengthRaggedArray.to_array"]
OPS = ["decode", "meta", "rows", "elem", "col_int", "col_slice", "red_row", "red_col", "ravel", "concat", "npfunc", "unary", "scalar", "colvec", "intervals", "sel_inplace"]
FLOOR_TAGS = ["op:" + o for o in OPS] + ["variant:2d", "variant:ragged", "variant:ragged_from_matrix", "rows:int", "rows:slice", "rows:list", "rows:mask", "rows:progression", "rows:list-as-array", "pre:stepped",
                                         "cs:pos", "cs:neg", "side:L", "side:R", "red:argmax", "red:mean", "col:sum", "col:mean", "col:col_counts", "col:any", "j:neg",
                                         "kind:b", "kind:i", "kind:u", "kind:f", "order:F", "order:T", "source:lazyrows", "source:lazychain", "via:intervals", "via:plus1", "concat:mixed-dtypes", "concat:zero-row-operands", "scalar:0-d-array", "scalar:numpy-typed", "axis:-2"]
FLOOR_MONITORS = ["c17:compare", "inv:rla"]
FP_STRICT = True       # a floating-point event inside the library that the dense computation does not have is a violation (shard.FpMonitor)
N_RANDOM = {"quick": 20000, "thorough": 300000}


def setup(lib):
    contracts.attach(lib, which=("rla", "ragged"))


def to_rows(x):
    """decode any result to ('2d', list of lists) / ('1d', list) / ('0d', scalar)"""
    lib = CTX.lib
    if isinstance(x, lib.RunLengthRaggedArray):
        return "2d", x.to_array().tolist()
    if isinstance(x, lib.RunLength2dArray):
        r = x.to_array()
        return "2d", (r.tolist() if isinstance(r, lib.RaggedArray) else np.asarray(r).tolist())
    if isinstance(x, lib.RunLengthArray):
        return "1d", np.asarray(x.to_array()).tolist()
    if isinstance(x, lib.RaggedArray):
        return "2d", x.tolist()
    if isinstance(x, np.ndarray):
        return "%dd" % x.ndim, x.tolist()
    if isinstance(x, (np.generic, int, float, bool)):
        return "0d", np.asarray(x).tolist()
    if isinstance(x, list):
        return "list", [np.asarray(e).tolist() for e in x]
    return "??" + type(x).__name__, None


def build(case):
    lib = CTX.lib
    dt = np.dtype(case["dtype"])
    rows = [np.array(r).astype(dt) for r in case["rows"]]
    if case.get("bswap") and dt.kind in "iu" and dt.itemsize > 1:
        rows = [r.astype(dt.newbyteorder()) for r in rows]        # non-native byte order
        dt = dt.newbyteorder()
    v = case["variant"]
    order = case.get("order", "C")

    def mat():
        m = np.array(rows, dtype=dt)
        if order == "F":
            return np.asfortranarray(m)
        if order == "T":
            return np.ascontiguousarray(m.T).T
        return m
    if v == "2d" and case.get("via") == "intervals":
        # the same indicator matrix built from intervals: its last run may be longer than one cell
        starts = np.array([int(np.flatnonzero(r)[0]) if r.any() else 0 for r in rows], dtype=np.int64)
        ends = np.array([int(np.flatnonzero(r)[-1]) + 1 if r.any() else len(r) for r in rows], dtype=np.int64)
        val = dt.type(next((x for r in rows for x in r.tolist() if x), 1))
        return lib.RunLength2dArray.from_intervals(starts, ends, len(rows[0]), val), rows
    if v == "2d" and case.get("via") == "plus1":
        return lib.RunLength2dArray.from_array(mat() - dt.type(1)) + dt.type(1), rows
    if v == "2d":
        return lib.RunLength2dArray.from_array(mat()), rows
    if v == "ragged":
        src_kind = case.get("source", "fresh")
        if src_kind == "fresh":
            src = lib.RaggedArray([r.copy() for r in rows], dtype=dt)
        else:       # the ragged source is an unmaterialised selection with the same rows
            from . import c02
            src, _ = c02.build_receiver(src_kind, np.concatenate(rows), [len(r) for r in rows])
        return lib.RunLengthRaggedArray.from_ragged_array(src), rows
    if v == "ragged_from_matrix":
        return lib.RunLengthRaggedArray.from_array(mat()), rows
    raise ValueError(v)


def rl_decode_1d(x):
    return x.to_array() if hasattr(x, "to_array") else np.asarray(x)


def close(a, b, rtol):
    try:
        if isinstance(a, list) and isinstance(b, list) and a and all(isinstance(x, list) for x in a) and all(isinstance(x, list) for x in b):
            # rows of different lengths: row by row
            return len(a) == len(b) and all(len(x) == len(y) and (len(x) == 0 or np.allclose(np.array(x, dtype=float), np.array(y, dtype=float), rtol=rtol, atol=0, equal_nan=True)) for x, y in zip(a, b))
        return np.allclose(np.array(a, dtype=float), np.array(b, dtype=float), rtol=rtol, atol=0, equal_nan=True)
    except Exception:
        return False


def run(case):
    lib = CTX.lib
    op = case["op"]
    tags = ["op:" + op]
    CTX.tick("c17:compare")
    if op == "intervals":
        idt = case.get("idtype", "int64")        # the interval coordinates in any integer type that holds them (possibly not the row length)
        starts = np.array(case["starts"], dtype=idt)
        ends = np.array(case["ends"], dtype=idt)
        if idt != "int64":
            tags.append("intervals:narrow-dtype")
        L, val = case["row_len"], case["value"]
        if case.get("lentype"):
            L = np.dtype(case["lentype"]).type(L)
        exp = np.zeros((len(starts), L), dtype=np.asarray(val).dtype)
        for i, (s, e) in enumerate(zip(starts.tolist(), ends.tolist())):
            exp[i, s:e] = val
        a = attempt(lambda: to_rows(lib.RunLength2dArray.from_intervals(starts, ends, L, val)))
        desc = "RunLength2dArray.from_intervals(%s, %s, %d, %r)" % (starts.tolist(), ends.tolist(), L, val)
        if not a.ok:
            return violated("%s raised %r" % (desc, a), tags)
        if a.value != ("2d", exp.tolist()):
            return violated("%s decodes to %s, expected %s" % (desc, short(a.value[1], 200), short(exp.tolist(), 200)), tags)
        # the ragged class built the same way (every row as long as the common row length): decoding, row sums, column counts and column means
        if len(starts) and int(L) > 0:
            CTX.tick("c17:intervals-ragged")
            RR = lib.RunLengthRaggedArray
            b = attempt(lambda: RR.from_intervals(starts, ends, L, val))
            if b.ok:
                chk = attempt(lambda: (to_rows(b.value)[1], np.asarray(b.value.sum(axis=-1)).tolist(), np.asarray(rl_decode_1d(b.value.col_counts())).tolist(), np.asarray(rl_decode_1d(b.value.mean(axis=0))).tolist()))
                want = (exp.tolist(), exp.sum(axis=-1).tolist(), [len(starts)] * int(L), exp.mean(axis=0).tolist())
                if not chk.ok or chk.value[0] != want[0] or chk.value[1] != want[1] or chk.value[2] != want[2] or not np.allclose(chk.value[3], want[3], rtol=1e-12, atol=0):
                    return violated("RunLengthRaggedArray.from_intervals(%s, %s, %d, %r): rows / row sums / column counts / column means are %s, expected %s" % (
                        starts.tolist(), ends.tolist(), L, val, repr(chk) if not chk.ok else short(chk.value, 260), short(want, 260)), tags + ["intervals:ragged"])
        return held(tags, len(starts) >= 2)

    variant = case["variant"]
    dt = np.dtype(case["dtype"])
    tags += ["variant:" + variant, "via:" + case.get("via", "from_array"), "kind:" + dt.kind, "order:" + case.get("order", "C"), "source:" + case.get("source", "fresh")]
    c = attempt(build, case)
    pyrows = case["rows"]
    if not c.ok:
        return violated("constructing the %s variant from %s rows %s raised %r" % (variant, dt, short(pyrows, 200), c), tags)
    rlx, rows = c.value
    pyrows = [r.tolist() for r in rows]
    pre = case.get("pre")
    if pre and variant != "2d" and all(len(r[slice(*pre)]) > 0 for r in rows):
        # the receiver is itself the result of a column-range selection (non-empty in every row): it is a ragged run-length array like any other
        sl_ = slice(*pre)
        if len(pre) > 2 and pre[2] not in (None, 1):
            tags.append("pre:stepped")
        p_ = attempt(lambda: rlx[:, sl_])
        if not p_.ok:
            return violated("rl[:, %s:%s] of the %s variant of %s rows %s raised %r" % (pre[0], pre[1], variant, dt, short(pyrows, 200), p_), tags)
        rlx = p_.value
        rows = [np.ascontiguousarray(r[sl_]) for r in rows]      # (contiguous copies: numpy's transcendental loops may differ in the last bit between strided and contiguous inputs)
        pyrows = [r.tolist() for r in rows]
        tags.append("pre:column-range")
    n = len(rows)
    lens = [len(r) for r in rows]
    desc0 = "%s run-length array of %s rows %s" % (variant, dt, short(pyrows, 200))
    nontrivial = n >= 2 and any(len(set(r)) >= 2 for r in pyrows)
    rtol = None
    o = None
    if op == "decode":
        o = ("2d", pyrows)
        a = attempt(lambda: to_rows(rlx))
        what = "to_array()"
    elif op == "meta":
        a = attempt(lambda: (len(rlx), int(rlx.size), rlx.shape[0], np.asarray(rlx.shape[1]).tolist()))
        o = (n, sum(lens), n, lens[0] if variant == "2d" else (lens if variant == "ragged" else None))
        if a.ok and variant == "ragged_from_matrix":
            o = (n, sum(lens), n, a.value[3] if a.value[3] in (lens, lens[0]) else lens)
        what = "len/size/shape"
    elif op == "rows":
        rs = case["rs"]
        k = "int" if isinstance(rs, int) else ("slice" if isinstance(rs, slice) else ("mask" if np.asarray(rs).dtype == bool else "list"))
        tags.append("rows:" + k)
        if k == "int":
            o = ("1d", pyrows[rs])
        elif k == "slice":
            o = ("2d", pyrows[rs])
        elif k == "list":
            o = ("2d", [pyrows[i] for i in rs])
        else:
            o = ("2d", [r for r, m in zip(pyrows, rs) if m])
        idx = np.array(rs) if k == "mask" else rs
        if k == "list" and case.get("rs_array"):
            idx = np.array(rs, dtype=case["rs_array"])
            tags.append("rows:list-as-array")
        if k == "list" and len(rs) >= 3 and len(set(np.diff(rs).tolist())) == 1:
            tags.append("rows:progression")
        a = attempt(lambda: to_rows(rlx[idx]))
        what = "rl[%s]" % short(rs)
    elif op == "elem":
        i, j = case["i"], case["j"]
        if j < 0:
            tags.append("j:neg")
        o = ("0d", pyrows[i][j])
        a = attempt(lambda: to_rows(rlx[i, j]))
        what = "rl[%d, %d]" % (i, j)
    elif op in ("col_int", "col_slice"):
        rs = case["rs"]
        if rs is Ellipsis or (isinstance(rs, slice)):
            sel = pyrows if rs is Ellipsis else pyrows[rs]
        elif np.asarray(rs).dtype == bool:
            sel = [r for r, m in zip(pyrows, rs) if m]
        else:
            sel = [pyrows[i] for i in rs]
        idx = np.array(rs) if (not isinstance(rs, slice) and rs is not Ellipsis and np.asarray(rs).dtype == bool) else rs
        if isinstance(rs, list) and case.get("rs_array") and np.asarray(rs).dtype != bool:
            idx = np.array(rs, dtype=case["rs_array"])
            tags.append("rows:list-as-array")
        if op == "col_int":
            j = case["j"]
            if j < 0:
                tags.append("j:neg")
            o = ("1d", [r[j] for r in sel])
            a = attempt(lambda: to_rows(rlx[idx, j]))
            what = "rl[%s, %d]" % (short(rs), j)
        else:
            cs = case["cs"]
            tags.append("cs:pos" if (cs.step or 1) > 0 else "cs:neg")
            o = ("2d", [r[cs] for r in sel])
            if idx is Ellipsis:
                idx = slice(None)
            a = attempt(lambda: to_rows(rlx[idx, cs]))
            what = "rl[%s, %s]" % (short(rs), short(cs))
    elif op == "red_row":
        name = case["name"]
        tags.append("red:" + name)
        o = ("1d", [getattr(np, name)(r).tolist() for r in rows])
        a = attempt(lambda: to_rows(getattr(rlx, name)(axis=-1)))
        what = "%s(axis=-1)" % name
        rtol = 1e-9
    elif op == "red_col":
        name = case["name"]
        tags.append("col:" + name)
        M = max(lens)
        cols = [[r[j] for r in rows if len(r) > j] for j in range(M)]
        if name == "col_counts":
            o = ("1d", [len(c_) for c_ in cols])
            a = attempt(lambda: to_rows(rlx.col_counts()))
        else:
            o = ("1d", [getattr(np, name)(np.array(c_, dtype=dt)).tolist() for c_ in cols])
            ax = 0 if (len(case["rows"][0]) + n) % 2 == 0 else -2          # the column axis under either of its names
            if ax == -2:
                tags.append("axis:-2")
            a = attempt(lambda: to_rows(getattr(rlx, name)(axis=ax)))
        what = "%s over columns" % name
        rtol = 1e-9
    elif op == "sel_inplace":
        # rows are selected (not yet looked at), then the array they were selected from is updated with an in-place operator,
        # then the selection is read: it holds the values from before the update (a selection is a value, as numpy's fancy indexing)
        import operator
        rs = case["rs"]
        sel = rows_of(pyrows, rs)
        real = np.array(rs, dtype=bool) if (isinstance(rs, list) and rs and isinstance(rs[0], bool)) else rs
        s_ = attempt(lambda: rlx[real])
        if not s_.ok:
            return violated("rl[%s] of %s raised %r" % (short(rs, 60), desc0, s_), tags)
        iop = {"add": operator.iadd, "multiply": operator.imul, "subtract": operator.isub}[case["uf"]]
        other = case["scalar"] if case.get("col") is None else np.array(case["col"], dtype=dt).reshape(n, 1)
        upd = attempt(iop, rlx, other)
        o = ("2d", [list(r) for r in sel])
        a = attempt(lambda: to_rows(s_.value))
        what = "rows %s selected before 'rl %s= %s'" % (short(rs, 60), case["uf"], short(other, 40))
        if upd.ok and a.ok and a.value == o:
            # and the updated array holds the updated values
            uf_ = getattr(np, case["uf"])
            expu = ("2d", [uf_(r, (other if case.get("col") is None else other[i])).tolist() for i, r in enumerate(rows)])
            gu = attempt(lambda: to_rows(upd.value))
            if not gu.ok or gu.value != expu:
                return violated("%s of %s: the updated array decodes to %s, expected %s" % (what, desc0, repr(gu) if not gu.ok else short(gu.value, 160), short(expu, 160)), tags)
            return held(tags, nontrivial)
        if not upd.ok:
            return undefined("the in-place operator is refused: %r" % upd, tags)
    elif op == "ravel":
        o = ("1d", [x for r in pyrows for x in r])
        a = attempt(lambda: to_rows(rlx.ravel()))
        what = "ravel()"
    elif op == "concat":
        dt2 = np.dtype(case.get("dtype2") or dt)          # the second operand may have another element type: numpy promotes, values are kept
        rows2 = [np.array(r).astype(dt2) for r in case["rows2"]]
        if dt2 != dt:
            tags.append("concat:mixed-dtypes")
        rdt = np.result_type(dt, dt2)           # numpy's promotion of the two element types (int64 with uint64 / float: float64)
        other = lib.RunLengthRaggedArray.from_ragged_array(lib.RaggedArray([r.copy() for r in rows2], dtype=dt2))
        if case.get("swap"):
            rlx_, other = other, rlx
            o = ("2d", [r.astype(rdt).tolist() for r in rows2] + [r.astype(rdt).tolist() for r in rows])
            a = attempt(lambda: to_rows(np.concatenate([rlx_, other])))
            what = "np.concatenate([other, rl]) with rows %s (%s)" % (short(case["rows2"], 100), dt2)
        else:
            pass
        if case.get("zero_parts") == "other-type":
            # a piece without any row, of ANOTHER element type than the pieces that have rows: numpy's result type counts every operand
            tags.append("concat:zero-row-operand-of-other-type")
            forms = [rlx, other[[]]] if (n + len(rows2)) % 2 else [other[:0], rlx, other[np.zeros(len(rows2), dtype=bool)]]
            o = ("2d", [r.astype(rdt).tolist() for r in rows])

            def cat_():
                r_ = np.concatenate(forms)
                got_ = np.asarray(r_[0].to_array()).dtype
                k_, v_ = to_rows(r_)
                return (k_ if got_ == rdt else "%s with element type %s instead of %s" % (k_, got_, rdt)), v_
            a = attempt(cat_)
            what = "np.concatenate of the array with zero-row pieces of element type %s" % dt2
        elif case.get("zero_parts"):
            # operands that are selections without any row (an empty slice, an empty list, an all-False mask) next to / instead of real ones
            tags.append("concat:zero-row-operands")
            z = [rlx[n:], rlx[[]], rlx[np.zeros(n, dtype=bool)]]
            forms = {"only": [z[0], z[1]], "single": [z[2]], "first": [z[0], rlx, other], "last": [rlx, other, z[1], z[2]]}[case["zero_parts"]]
            keep = case["zero_parts"] in ("first", "last")
            o = ("2d", ([r.astype(rdt).tolist() for r in rows] + [r.astype(rdt).tolist() for r in rows2]) if keep else [])
            a = attempt(lambda: (lambda r_: to_rows(r_) if len(r_) else ("2d", []))(np.concatenate(forms)))
            what = "np.concatenate with zero-row operands (%s)" % case["zero_parts"]
        elif not case.get("swap"):
            o = ("2d", [r.astype(rdt).tolist() for r in rows] + [r.astype(rdt).tolist() for r in rows2])
            a = attempt(lambda: to_rows(np.concatenate([rlx, other])))
            what = "np.concatenate with rows %s (%s)" % (short(case["rows2"], 100), dt2)
    elif op == "npfunc":
        name, axis = case["name"], case["axis"]
        f = getattr(np, name)
        tags.append("np:%s:%s" % (name, axis))
        if axis == -1:
            o = ("1d", [f(r).tolist() for r in rows])
        else:
            M = max(lens)
            o = ("1d", [f(np.array([r[j] for r in rows if len(r) > j], dtype=dt)).tolist() for j in range(M)])
        a = attempt(lambda: to_rows(f(rlx, axis=axis)))
        what = "np.%s(rl, axis=%d)" % (name, axis)
        rtol = 1e-9
    elif op == "unary":
        uf = getattr(np, case["uf"])
        oo = attempt(lambda: ("2d", [uf(r).tolist() for r in rows]))
        a = attempt(lambda: to_rows(uf(rlx)))
        what = "%s(rl)" % case["uf"]
        if not oo.ok:
            return undefined("numpy raises", tags)
        o = oo.value
    elif op in ("scalar", "colvec"):
        uf = getattr(np, case["uf"])
        side = case["side"]
        tags += ["side:" + side, "uf:" + case["uf"]]
        if op == "scalar":
            s = case["scalar"]
            if case.get("zerod"):
                s = np.array(s, dtype=case["zerod"])         # a 0-d array: strongly typed in numpy 2, unlike a python number
                tags.append("scalar:0-d-array")
            elif isinstance(s, np.generic):
                tags.append("scalar:numpy-typed")
            other = s
            per = [s] * n
        else:
            col = np.array(case["col"], dtype=case.get("coldtype", "int64")).reshape(n, 1)
            other = col
            per = [col[i] for i in range(n)]
        if side == "R":
            oo = attempt(lambda: ("2d", [uf(r, p).tolist() for r, p in zip(rows, per)]))
            a = attempt(lambda: to_rows(uf(rlx, other)))
        else:
            oo = attempt(lambda: ("2d", [uf(p, r).tolist() for r, p in zip(rows, per)]))
            a = attempt(lambda: to_rows(uf(other, rlx)))
        what = "%s(%s)" % (case["uf"], ("rl, %s" if side == "R" else "%s, rl") % short(other, 60))
        if case["uf"] in ("power", "hypot"):
            rtol = 1e-12        # (not correctly rounded in numpy: the last bit depends on the loop the data happens to go through -- vector length, stride)
        if not oo.ok:
            return undefined("numpy raises", tags)
        o = oo.value
    else:
        raise ValueError(op)
    if rtol and dt == np.float32:
        rtol = 1e-6   # numpy's float32 mean is rounded to float32
    desc = "%s of %s" % (what, desc0)
    if not a.ok:
        return violated("%s raised %s: %s" % (desc, type(a.exc).__name__, a.exc), tags, got=repr(a))
    if not deep_same(a.value, o):
        if rtol and isinstance(a.value, tuple) and a.value[0] == o[0] and close(a.value[1], o[1], rtol):
            return held(tags, nontrivial)
        return violated("%s gives %s, the dense data gives %s" % (desc, short(a.value, 220), short(o, 220)), tags, got=a.value, expected=o)
    # the receiver still decodes to the same rows
    again = attempt(lambda: to_rows(rlx))
    if not again.ok or again.value != ("2d", pyrows):
        return violated("%s changed the array it was applied to" % desc, tags)
    return held(tags, nontrivial)


# ----------------------------------------------------------------------------- workloads

def gen_rows(rng, dtype, matrix, tier, vclass="small"):
    r = rng.randint(1, 5 if tier == "quick" else 9)
    maxc = 7 if tier == "quick" else 16
    if matrix:
        c = rng.randint(1, maxc)
        return [np.resize(rl.gen_runs(rng, dtype, vclass, c)[0], c).tolist() for _ in range(r)]
    return [rl.gen_runs(rng, dtype, vclass, maxc)[0].tolist() for _ in range(r)]


def sel_rows(rng, n, kinds=("slice", "list", "mask", "ell")):
    k = rng.choice(kinds)
    if k == "int":
        return rng.randint(-n, n - 1)
    if k == "slice":
        return gen.gen_slice(rng, n, steps=(None, 1, 2, -1, -2))
    if k == "list":
        if n >= 3 and rng.random() < 0.3:
            # an arithmetic progression of row numbers (what a slice would also give), in either direction, possibly down to the first row
            st_ = rng.choice([1, 1, 2, 3, -1, -1, -2, -3])
            cnt_ = rng.randint(3, max(3, (n - 1) // abs(st_) + 1))
            first_ = rng.randint(0, n - 1) if st_ > 0 else rng.choice([n - 1, rng.randint(0, n - 1), (cnt_ - 1) * -st_])
            ap_ = [first_ + i * st_ for i in range(cnt_)]
            if all(0 <= x < n for x in ap_):
                return ap_
        return [rng.randint(-n, n - 1) for _ in range(rng.randint(1, 4))]
    if k == "mask":
        return [rng.random() < 0.6 for _ in range(n)]
    return Ellipsis


def rows_of(pyrows, rs):
    if rs is Ellipsis:
        return pyrows
    if isinstance(rs, slice):
        return pyrows[rs]
    if np.asarray(rs).dtype == bool:
        return [r for r, m in zip(pyrows, rs) if m]
    return [pyrows[i] for i in rs]


def interval_rows(rng, dtype):
    """an indicator matrix: one interval [s, e) per row filled with one value, zero elsewhere (e may reach the row end)"""
    L = rng.randint(1, 9)
    val = 1 if dtype == "bool" else rng.choice([1, 3, 7])
    rows = []
    for _ in range(rng.randint(1, 5)):
        s_ = rng.randint(0, L - 1)
        e_ = rng.choice([L, L, rng.randint(s_ + 1, L)])
        rows.append([val if s_ <= j < e_ else 0 for j in range(L)])
    return rows


def gen_case(rng, tier, op=None, variant=None, dtype=None):
    op = op or rng.choice(OPS)
    dtype = dtype or rng.choice(gen.DT_ALL)
    if op == "intervals":
        L = rng.randint(1, 9)
        k = rng.randint(1, 5)
        st = [rng.randint(0, L - 1) for _ in range(k)]
        c = {"op": op, "starts": st, "ends": [rng.randint(s + 1, L) for s in st], "row_len": L, "value": rng.choice([1, 3, True, 2.5])}
        if rng.random() < 0.5:
            # rows far longer than the intervals reach: the coordinates fit a narrow integer type that cannot hold the row length
            c["row_len"] = rng.choice([300, 1000, 40000, 70000])
            c["idtype"] = rng.choice(["uint8", "int8", "int16", "uint16", "int32", "uint64"])
            if rng.random() < 0.3:
                c["lentype"] = rng.choice(["int64", "int32", "uint32"])
        return c
    ragged_only = op in ("col_int", "col_slice", "ravel", "concat", "npfunc")
    variant = variant or rng.choice(["ragged", "ragged_from_matrix"] if ragged_only else ["2d", "ragged", "ragged_from_matrix"])
    for _ in range(30):
        vclass = "sparse" if (op in ("red_row", "red_col", "unary") and rng.random() < 0.5) else ("close" if (np.dtype(dtype).kind == "f" and op in ("decode", "meta", "rows", "elem", "col_int", "col_slice", "ravel", "concat") and rng.random() < 0.4) else "small")
        pyrows = gen_rows(rng, dtype, variant != "ragged", tier, vclass)
        n = len(pyrows)
        c = {"op": op, "variant": variant, "dtype": dtype, "rows": pyrows}
        if variant == "2d" and np.dtype(dtype).kind in "iub" and rng.random() < 0.3:
            c["rows"] = pyrows = interval_rows(rng, dtype)
            c["via"] = "intervals"
            n = len(pyrows)
        elif variant == "2d" and np.dtype(dtype).kind in "iuf" and dtype not in ("uint8", "uint16", "uint32", "uint64") and vclass != "close" and rng.random() < 0.15:
            c["via"] = "plus1"
        if variant != "ragged":
            c["order"] = rng.choice(["C", "C", "F", "T"])
        elif rng.random() < 0.3:
            c["source"] = rng.choice(["lazyrows", "lazycols+2", "lazycols-1", "lazychain"])
        if op in ("decode", "meta", "ravel"):
            return c
        if op == "rows":
            c["rs"] = sel_rows(rng, n, ("int", "slice", "list", "mask"))
            return c
        if op == "sel_inplace":
            if np.dtype(dtype).kind == "b":
                continue
            c["rs"] = sel_rows(rng, n, ("slice", "list", "mask", "list", "mask"))
            c.update(uf=rng.choice(["add", "multiply", "subtract"]), scalar=rng.choice([1, 2, 3]))
            if rng.random() < 0.4 and n > 1:
                c["col"] = [rng.randint(1, 4) for _ in range(n)]
            return c
        if op == "elem":
            i = rng.randint(-n, n - 1)
            c.update(i=i, j=rng.randint(-len(pyrows[i]), len(pyrows[i]) - 1))
            return c
        if op in ("col_int", "col_slice"):
            rs = sel_rows(rng, n)
            sel = rows_of(pyrows, rs)
            if not sel:
                continue
            ml = min(len(r) for r in sel)
            mx = max(len(r) for r in sel)
            c["rs"] = rs
            if op == "col_int":
                c["j"] = rng.randint(-ml, ml - 1)
                return c
            cs = gen.gen_slice(rng, mx, steps=(None, 1, 1, 2, 3, -1, -1, -2, -3))
            if not all(len(r[cs]) > 0 for r in sel):
                continue
            if (cs.step or 1) < 0:
                inb = lambda x: x is None or (-ml <= x < ml)
                if not (inb(cs.start) and inb(cs.stop)):
                    continue
            c["cs"] = cs
            return c
        if op in ("red_row", "red_col", "unary", "scalar") and variant != "2d" and rng.random() < 0.2:
            c["pre"] = [rng.choice([0, 0, 1]), rng.choice([None, 2, 3, 5])]
            if rng.random() < 0.4:
                c["pre"] = rng.choice([[rng.choice([0, 0, 1, 2]), rng.choice([None, 3, 4, 5, 6]), rng.choice([2, 2, 3])], [None, None, rng.choice([-1, -2])]])
        if op == "red_row":
            c["name"] = rng.choice(["sum", "any", "all"] if variant == "2d" else ["sum", "any", "all", "max", "mean", "argmax"])
            return c
        if op == "red_col":
            c["name"] = rng.choice(["sum", "any"] if variant == "2d" else ["sum", "mean", "col_counts"])
            return c
        if op == "concat":
            if rng.random() < 0.4:
                d2 = rng.choice(gen.DT_ALL)
                c["dtype2"] = d2
                c["rows2"] = [gen.values(rng, d2, rng.randint(1, 5), rng.choice(["small", "extreme"])).tolist() for _ in range(rng.randint(1, 3))]
                c["swap"] = rng.random() < 0.5
            else:
                c["rows2"] = gen_rows(rng, dtype, False, tier)
                if rng.random() < 0.25:
                    c["zero_parts"] = rng.choice(["only", "single", "first", "last"])
            if rng.random() < 0.12:
                c["dtype2"] = rng.choice([d_ for d_ in ("float64", "int64", "float32", "uint64", "int16") if d_ != dtype])
                c["rows2"] = [gen.values(rng, c["dtype2"], rng.randint(1, 4), "small").tolist() for _ in range(rng.randint(1, 3))]
                c["zero_parts"] = "other-type"
                c.pop("swap", None)
            return c
        if op == "npfunc":
            c["name"], c["axis"] = rng.choice([("sum", -1), ("sum", 0), ("mean", -1), ("mean", 0), ("max", -1)])
            return c
        if op == "unary":
            c["uf"] = rng.choice(["negative", "absolute", "logical_not", "square"])
            return c
        if op == "scalar":
            c.update(uf=rng.choice(["add", "subtract", "multiply", "maximum", "less", "bitwise_and", "floor_divide", "greater_equal", "hypot", "gcd", "true_divide", "power", "fmod"]), side=rng.choice("LR"), scalar=rng.choice([2, 3, 1, 0, 0, 1, np.int64(2), 2.5, 1.0]))
            u = rng.random()
            if u < 0.2:
                c.update(scalar=rng.choice([1, 2, 100, 200, -1, 3]), zerod=rng.choice(["int64", "int64", "int32", "float64", "uint8"]))
                if c["zerod"] == "uint8" and c["scalar"] < 0:
                    c["scalar"] = 3
            elif u < 0.35:
                c["scalar"] = rng.choice([np.int16(300), np.float32(0.5), np.uint8(7), np.int8(-3), np.float64(2.5), np.uint64(5)])
            return c
        if op == "colvec":
            if n == 1:
                continue
            c.update(uf=rng.choice(["add", "subtract", "multiply", "maximum", "less"]), side=rng.choice("LR"), col=[rng.randint(0, 4) for _ in range(n)])
            if np.dtype(dtype).kind == "f" and rng.random() < 0.5:
                # a float column whose entries differ by many orders of magnitude / are not exactly representable: every row gets ITS entry, bit for bit
                c.update(col=[rng.choice([0.1, 0.7, 1e16, 1.0, 3.0, 0.5, 1e-9, 0.3, 0.9, -0.3]) for _ in range(n)], coldtype="float64")
            if variant != "2d" and rng.random() < 0.4:
                c["pre"] = [rng.choice([0, 0, 1]), rng.choice([None, 2, 3, 5])]
            return c
    return {"op": "decode", "variant": variant, "dtype": dtype, "rows": gen_rows(rng, dtype, variant != "ragged", tier)}


def directed():
    import random
    rng = random.Random(1717)
    yield from stepped_cases()
    yield from onerow_and_bigsum_cases()
    for d1_, d2_ in (("int8", "float64"), ("int32", "int64"), ("uint8", "int16"), ("float32", "float64"), ("int64", "uint64"), ("bool", "int8")):
        yield {"op": "concat", "variant": "ragged", "dtype": d1_, "rows": [[1, 1, 0], [1, 0]] if d1_ == "bool" else [[100, 100, 3], [5, 5]], "dtype2": d2_, "rows2": [[1, 1], [2]], "zero_parts": "other-type"}
        yield {"op": "concat", "variant": "ragged", "dtype": d1_, "rows": [[1]] if d1_ == "bool" else [[7, 7, 7, 2]], "dtype2": d2_, "rows2": [[1], [2], [2]], "zero_parts": "other-type"}
    # 64-bit integers whose terms and partial row sums lie beyond 2**53 and cancel: row sums are exact in 64-bit integer arithmetic
    big_ = [[2 ** 60] * 3 + [1] * 4 + [-2 ** 60] * 3, [2 ** 62, 2 ** 62 - 1, -2 ** 62, 5, 5, -2 ** 62, 0, 0, 9, 9], [7] * 10, [2 ** 53 + 1] * 2 + [3] * 6 + [-2 ** 53] * 2]
    for variant_ in ("2d", "ragged", "ragged_from_matrix"):
        yield {"op": "red_row", "variant": variant_, "dtype": "int64", "rows": big_, "name": "sum"}
        if variant_ != "2d":
            yield {"op": "npfunc", "variant": variant_, "dtype": "int64", "rows": big_, "name": "sum", "axis": -1}
            yield {"op": "red_row", "variant": variant_, "dtype": "int64", "rows": big_, "name": "max"}
    yield {"op": "red_row", "variant": "ragged", "dtype": "uint64", "rows": [[2 ** 63, 1, 1, 2 ** 62], [2 ** 53 + 1, 2 ** 53 + 1, 7, 7, 7]], "name": "sum"}
    # tens of thousands of rows of narrow integers of the same sign: column totals far beyond 2**31 (and the rows beyond 2**15)
    for dtype_, v_, nrows_ in (("int16", 30000, 80000), ("int16", -30000, 72000), ("int8", 120, 70000), ("uint16", 60000, 70001), ("int32", 2 ** 30, 9)):
        rows_ = [[v_ - (i % 3), v_, v_ - 1] for i in range(nrows_)]
        for variant_ in ("2d", "ragged_from_matrix"):
            for name_ in ("sum", "mean") if variant_ != "2d" else ("sum",):
                yield {"op": "red_col", "variant": variant_, "dtype": dtype_, "rows": rows_, "name": name_}
    # a float column with entries of very different magnitude applied to a column-range selection (and to what is computed from it)
    F_ = [[1.0, 1.0, 2.0, 2.0, 2.0], [3.0, 3.0, 3.0, 0.5], [0.25, 0.25, 4.0, 4.0], [1.5, 1.5, 1.5]]
    for col_ in ([1e16, 1.0, 3.0, 0.5], [0.1, 0.7, 0.3, 0.9]):
        for pre_ in ([0, 3], [1, None], [0, 2]):
            for uf_ in ("multiply", "add", "subtract"):
                for side_ in "LR":
                    yield {"op": "colvec", "variant": "ragged", "dtype": "float64", "rows": F_, "uf": uf_, "side": side_, "col": col_, "coldtype": "float64", "pre": pre_}
    for op in OPS:
        for dtype in gen.DT_ALL:
            for variant in ["2d", "ragged", "ragged_from_matrix"]:
                for _ in range(3):
                    c = gen_case(rng, "quick", op, None if op in ("col_int", "col_slice", "ravel", "concat", "npfunc", "intervals") else variant, dtype)
                    yield c
    # zero-rich matrices: column-wise any / sum and row-wise any / all are only informative where zeros and non-zeros interleave
    for _ in range(120):
        r_, c_ = rng.randint(1, 5), rng.randint(1, 8)
        M_ = [[rng.choice([0, 0, 1, 2]) for _ in range(c_)] for _ in range(r_)]
        dtype_ = rng.choice(["int64", "bool", "uint8", "float64"])
        if dtype_ == "bool":
            M_ = [[bool(x) for x in row] for row in M_]
        yield {"op": "red_col", "variant": "2d", "dtype": dtype_, "rows": M_, "name": rng.choice(["any", "any", "sum"]), "order": rng.choice(["C", "F"])}
        yield {"op": "red_row", "variant": rng.choice(["2d", "ragged_from_matrix"]), "dtype": dtype_, "rows": M_, "name": rng.choice(["any", "all", "sum"])}
    R = [[1, 3, 3, 3, 2, 2, 5], [4, 4, 9, 9], [7, 7, 7, 7, 7, 8]]
    for cs in [slice(None, None, -2), slice(None, None, -3), slice(None, None, 2), slice(1, None, 3), slice(-2, None), slice(None, -1), slice(3, 0, -1), slice(-1, -4, -2)]:
        yield {"op": "col_slice", "variant": "ragged", "dtype": "int64", "rows": R, "rs": slice(None), "cs": cs}
        yield {"op": "col_slice", "variant": "ragged", "dtype": "float64", "rows": R, "rs": [2, 0], "cs": cs}
    for rows in ([[1, 5, 5, 2, 5, 0], [3, 3, 3], [0, 9, 1, 9]], [[2.5, 2.5, 7.0, 1.0, 7.0]]):
        yield {"op": "red_row", "variant": "ragged", "dtype": "float64", "rows": rows, "name": "argmax"}
        yield {"op": "red_row", "variant": "ragged", "dtype": "int64" if isinstance(rows[0][0], int) else "float64", "rows": rows, "name": "max"}
    for uf in ["subtract", "less", "floor_divide", "greater"]:
        for side in "LR":
            yield {"op": "scalar", "variant": "2d", "dtype": "int64", "rows": [[1, 1, 2], [3, 3, 3]], "uf": uf, "side": side, "scalar": 2}
            yield {"op": "colvec", "variant": "ragged", "dtype": "int64", "rows": [[1, 1, 2], [3], [5, 5]], "uf": uf, "side": side, "col": [1, 2, 3]}
    # 64-bit values beyond 2**63 whose column sums still fit the dtype (numpy's own sum is exact there)
    for dtype, big in (("uint64", 2 ** 63 + 5), ("uint64", 2 ** 64 - 20), ("int64", 2 ** 62)):
        for variant in ("2d", "ragged"):
            yield {"op": "red_col", "variant": variant, "dtype": dtype, "rows": [[big, 1, 1, 3], [2, 2, 7, 7], [3, 0, 0, big]], "name": "sum"}
            yield {"op": "npfunc", "variant": "ragged", "dtype": dtype, "rows": [[big, 1], [2, 2, 7], [0, 3, big]], "name": "sum", "axis": 0}
    for rows in ([[0, 0, 3, 3, 3], [3, 3, 3, 3, 3], [0, 3, 0, 0, 0]], [[1, 1], [0, 1]], [[0, 0, 0, 7]]):
        for op_, extra in (("red_row", {"name": "sum"}), ("red_row", {"name": "any"}), ("red_row", {"name": "all"}), ("red_col", {"name": "sum"}), ("red_col", {"name": "any"}),
                           ("decode", {}), ("rows", {"rs": slice(None, None, -1)}), ("elem", {"i": 0, "j": -1}), ("scalar", {"uf": "add", "side": "R", "scalar": 2})):
            yield dict({"op": op_, "variant": "2d", "dtype": "int64", "rows": rows, "via": "intervals"}, **extra)
            yield dict({"op": op_, "variant": "2d", "dtype": "int64", "rows": rows, "via": "plus1"}, **extra)
    for rows in ([[True, True, False], [False, False, True]], [[False] * 4, [True] * 4]):
        yield {"op": "red_col", "variant": "2d", "dtype": "bool", "rows": rows, "name": "sum"}
        yield {"op": "red_col", "variant": "2d", "dtype": "bool", "rows": rows, "name": "any"}
    yield {"op": "intervals", "starts": [0, 2, 0], "ends": [5, 5, 1], "row_len": 5, "value": 1}


def stepped_cases():
    """rows made of long runs (every run at least as long as the step), every stepped column range over them, then a look at the result
    through its reductions as well as its cells: a range end that cuts a run must not leave anything of the cut part behind"""
    fam = [[[7, 7, 7, 9, 9, 9, 9], [1, 1, 1, 1, 5, 5, 5, 5]], [[4, 4, 4, 0, 0, 0, 8, 8, 8], [2, 2, 2, 2, 2, 2, 6, 6, 6], [3, 3, 3, 3, 1, 1, 1, 1, 1]], [[5, 5, 2, 2, 9, 9], [0, 0, 0, 7, 7, 7]]]
    for rows_ in fam:
        mx = max(len(r) for r in rows_)
        for step_ in (2, 3):
            for start_ in (None, 0, 1, 2):
                for stop_ in [None] + list(range(1, mx + 1)):
                    pre_ = [start_, stop_, step_]
                    if not all(len(r[slice(*pre_)]) > 0 for r in rows_):
                        continue
                    for dtype_ in ("int64", "float64"):
                        for name_ in ("max", "argmax", "any", "sum", "all"):
                            yield {"op": "red_row", "variant": "ragged", "dtype": dtype_, "rows": rows_, "name": name_, "pre": pre_}
                        yield {"op": "decode", "variant": "ragged", "dtype": dtype_, "rows": rows_, "pre": pre_}
                        yield {"op": "red_col", "variant": "ragged", "dtype": dtype_, "rows": rows_, "name": "sum", "pre": pre_}
                        yield {"op": "scalar", "variant": "ragged", "dtype": dtype_, "rows": rows_, "uf": "add", "side": "R", "scalar": 1, "pre": pre_}
    # row lists that happen to be arithmetic progressions (a block, every k-th row, a walk down to the first row), as lists and as arrays
    R7 = [[i, i, i + 1] + [0] * (i % 3) + [5] for i in range(7)]
    for rs_ in ([0, 1, 2], [1, 2, 3], [0, 2, 4], [0, 3, 6], [6, 5, 4], [2, 1, 0], [4, 2, 0], [6, 3, 0], [5, 3, 1], [6, 4, 2], [6, 4, 2, 0], [3, 3, 3], [0, 2, 4, 6], [-1, -3, -5], [-7, -5, -3], [1, 3, 5, 6]):
        for asarr_ in (None, "int64", "int16", "uint8"):
            if asarr_ == "uint8" and min(rs_) < 0:
                continue
            yield {"op": "rows", "variant": "ragged", "dtype": "int64", "rows": R7, "rs": rs_, "rs_array": asarr_}
            yield {"op": "rows", "variant": "2d", "dtype": "int64", "rows": [[i, i, i + 1, 0] for i in range(7)], "rs": rs_, "rs_array": asarr_}
            yield {"op": "col_slice", "variant": "ragged", "dtype": "int64", "rows": R7, "rs": rs_, "rs_array": asarr_, "cs": slice(1, 3)}
            yield {"op": "col_int", "variant": "ragged", "dtype": "int64", "rows": R7, "rs": rs_, "rs_array": asarr_, "j": 1}


def onerow_and_bigsum_cases():
    # an array of ONE row and a 1 x 1 column of a wider element type: the column is an operand like any other (numpy promotes with its type)
    for variant_ in ("2d", "ragged"):
        for uf_ in ("add", "multiply", "subtract"):
            for side_ in "LR":
                yield {"op": "colvec", "variant": variant_, "dtype": "int8", "rows": [[1, 1, 2, 100]], "uf": uf_, "side": side_, "col": [100], "coldtype": "int64"}
                yield {"op": "colvec", "variant": variant_, "dtype": "float32", "rows": [[0.5, 0.5, 2.0]], "uf": uf_, "side": side_, "col": [0.1], "coldtype": "float64"}
                yield {"op": "colvec", "variant": variant_, "dtype": "uint8", "rows": [[200, 200, 3]], "uf": uf_, "side": side_, "col": [1000], "coldtype": "int32"}
    # integer rows whose totals lie beyond 64 bits while every cell and every row mean is an ordinary number
    big_ = [[2 ** 62] * 3 + [2 ** 62 + 8] * 3, [2 ** 61] * 6, [-2 ** 62] * 4 + [-2 ** 62 + 4] * 2]
    for variant_ in ("2d", "ragged_from_matrix", "ragged"):
        yield {"op": "npfunc", "variant": variant_, "dtype": "int64", "rows": big_, "name": "mean", "axis": -1}
        if variant_ != "2d":
            yield {"op": "red_row", "variant": variant_, "dtype": "int64", "rows": big_, "name": "max"}
            yield {"op": "red_row", "variant": variant_, "dtype": "int64", "rows": big_, "name": "mean"}


def _with_swap(rng, c):
    """one case in eight with integer elements gets them in non-native byte order"""
    if isinstance(c, dict) and "dtype" in c and np.dtype(c["dtype"]).kind in "iu" and rng.random() < 0.12:
        c["bswap"] = True
    return c


def const_case(rng, tier, s, form):
    """sizes taken from the constants of the source / next to the capacity of a narrow integer type: the longest row (ragged variant) resp. the row
    length (matrix variant) or the number of rows is s; column and row aggregates, decoding and a column range on it"""
    from ..codeconst import CAPACITY
    special = gen.FORCED.get("novel") or any(abs(s - c_) <= 1 for c_ in CAPACITY)
    if not special or s > 300000 or form not in ("rowlen", "rows", "cells"):
        c = random_case(rng, tier)
        return c if gen.FORCED["used"] else None
    gen.FORCED["used"] += 1
    out = []
    dtype = rng.choice(["int64", "uint8", "bool", "float64", "int16"])
    pool = [True, False] if dtype == "bool" else ([1.5, 2.0, 0.0] if dtype == "float64" else [0, 1, 3, 7])

    def row(L):
        out_, v = [], 0
        while len(out_) < L:
            v = (v + rng.randint(1, 2)) % len(pool)
            out_ += [pool[v]] * rng.randint(1, 9)
        out_ = out_[:L]
        k_ = len(out_) - 1
        while k_ >= 0 and not out_[k_]:
            out_[k_] = pool[0] if pool[0] else pool[1]       # (rows end in a value that counts: an aggregate that loses the row's closing step shows it)
            k_ -= 1
        return out_
    if form == "rows":
        ragged = [row(rng.randint(1, 3)) for _ in range(s)]
        matrix = [row(2) for _ in range(s)]
    else:
        ragged = [row(3), row(s), row(max(1, s - 1)), row(5)]
        matrix = [row(s) for _ in range(3)]
    if s > 20000:
        # (long rows are costly for the list oracle: the ragged variant's column aggregates and the matrix variant's column sum only)
        if form != "rowlen":
            return None
        return [{"op": "red_col", "variant": "ragged", "dtype": dtype, "rows": ragged, "name": "sum"}, {"op": "red_col", "variant": "ragged", "dtype": dtype, "rows": ragged, "name": "mean"},
                {"op": "red_col", "variant": "2d", "dtype": dtype, "rows": matrix[:2], "name": "sum"}]
    for variant, rows_ in (("ragged", ragged), ("2d", matrix), ("ragged_from_matrix", matrix)):
        for op, extra in (("red_col", {"name": "sum"}), ("red_col", {"name": "mean"} if variant != "2d" else {"name": "any"}), ("red_row", {"name": "sum"}), ("decode", {})):
            if variant == "2d" and extra.get("name") == "any" and dtype == "float64":
                continue
            out.append(dict({"op": op, "variant": variant, "dtype": dtype, "rows": rows_}, **extra))
        if variant != "2d":
            out.append({"op": "red_col", "variant": variant, "dtype": dtype, "rows": rows_, "name": "col_counts"})
    return out


def random_case(rng, tier):
    return _with_swap(rng, gen_case(rng, tier))


def classify(case, res):
    if case["op"] in ("scalar", "colvec") and case.get("side") == "L":
        return "F17a"
    if case["op"] == "red_col" and case.get("dtype") == "bool" and case.get("name") == "sum":
        return "F17b"
    if case["op"] == "scalar" and isinstance(case.get("scalar"), (int, float)) and not isinstance(case.get("scalar"), np.generic):
        return "F04a"
    return None
