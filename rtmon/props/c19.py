"""C19 -- results do not depend on the index-width configuration.

Every case of the C01-C09 drivers (and the C06 programs) is executed twice in the same
process, once under the default 64-bit row-index width and once after
ViewBase.set_dtype(np.int32) (every case builds its arrays from scratch, so nothing built
under one width is used under the other); the two recorded outcomes -- verdict of the
sub-property's own oracle, observed value / exception -- are compared."""
import importlib
import numpy as np
from ..core import CTX, attempt, held, violated, undefined, Result, short

PROP = "C19"
LEVEL_TEXT = 'Every case of the C01-C09 drivers and the C06 programs is executed under the 64-bit and the 32-bit index width in the same process; verdicts of the sub-property oracles and observed outcomes are compared. Exploration over configurations x inputs.'
LEVEL_NOTE = "trusts numpy 2.x, CPython (copy.copy, slice semantics, big ints) and the reference model in rtmon/props/c19.py; decides the executions it produces, nothing more"
TECHNIQUE = "runtime monitoring: differential execution under the two configurations, each judged by the sub-property's oracle"
DESIGN_REF = "DESIGN.md sections 0, 5 (C19), 7"
SUBS = ["c01", "c02", "c03", "c04", "c05", "c06", "c07", "c08", "c09"]
RULE = ("case = (sub-property C01..C09 (+C06 programs), one of its cases); the case is run under both index widths and the outcomes are compared (and each is judged by the "
        "sub-property's oracle); distinct = hash of the case; non-trivial = the sub-case is non-trivial")
ASSUMPTIONS = ["arrays stay far below 2**31 cells; geometry dtypes (the width itself) are not compared", "the configuration switch is process-global: cases are run strictly one after the other"]
ANCHORS = ["raggedshape.py::ViewBase.set_dtype", "raggedshape.py::ViewBase._index_rows", "raggedshape.py::ViewBase.__init__", "raggedshape.py::RaggedShape.__init__",
           "raggedshape.py::build_indices", "raggedshape.py::RaggedShape.view", "raggedshape.py::RaggedShape.view_rows", "raggedshape.py::RaggedView.view_rows",
           "raggedshape.py::RaggedView.view"]
FLOOR_TAGS = ["sub:" + s.upper() for s in SUBS] + ["both-held"]
FLOOR_MONITORS = ["c19:pair", "c19:int32-active"]
N_RANDOM = {"quick": 9000, "thorough": 300000}
_mods = {}


def sub(name):
    if name not in _mods:
        _mods[name] = importlib.import_module("rtmon.props." + name)
    return _mods[name]


def setup(lib):
    for s in SUBS:
        m = sub(s)
        if hasattr(m, "setup"):
            m.setup(lib)


WIDTH_SPELLING = [0]


def under_width(dt, f):
    from npstructures.raggedshape import ViewBase
    old = ViewBase._dtype
    spelled = dt
    if dt is np.int32:
        # the 32-bit width as the type object, the equivalent dtype object or its names, alternating from case to case
        WIDTH_SPELLING[0] += 1
        spelled = [np.int32, np.dtype("int32"), "int32", "i4"][WIDTH_SPELLING[0] % 4]
    ViewBase.set_dtype(spelled)
    try:
        if dt is np.int32:
            probe = CTX.lib.RaggedArray(np.arange(3), [1, 2])
            if np.asarray(probe.lengths).dtype == np.int32:
                CTX.tick("c19:int32-active")
        return f()
    finally:
        ViewBase.set_dtype(old)


def outcome(res):
    return (res["verdict"], res.get("msg") if res["verdict"] == "violated" else None)


def run(case):
    m = sub(case["prop"].lower())
    tags = ["sub:" + case["prop"]]
    CTX.tick("c19:pair")
    CTX.exc_trace = []
    r64 = under_width(np.int64, lambda: m.run(case["case"]))
    t64, CTX.exc_trace = CTX.exc_trace, []
    CTX.take_alerts()
    r32 = under_width(np.int32, lambda: m.run(case["case"]))
    t32, CTX.exc_trace = CTX.exc_trace, None
    alerts = CTX.take_alerts()
    tags += [t for t in r64["tags"] if t.split(":")[0] in ("r", "c", "recv", "op", "k", "mode", "ctor")][:4]
    if alerts:
        return violated("under the 32-bit configuration a structural invariant broke: %s" % (alerts[0],), tags + ["contract-32"])
    if r64["verdict"] == "held" and r32["verdict"] == "held":
        if t64 != t32:
            # the same calls were refused / accepted, but not in the same way: another kind of error under one width (or an extra internal refusal)
            CTX.tick("c19:exception-kinds-differ")
            return violated("%s case: the library calls raise %s under the 64-bit configuration and %s under the 32-bit configuration" % (case["prop"], t64[:8], t32[:8]), tags + ["width-dependent", "exception-kind"])
        return held(tags + ["both-held"], r64["nontrivial"])
    if r64["verdict"] == r32["verdict"] == "undefined":
        return undefined("the sub-case is outside its property's domain", tags)
    if r64["verdict"] != r32["verdict"]:
        return violated("%s case: %s under the 64-bit configuration, %s under the 32-bit configuration: %s" % (
            case["prop"], r64["verdict"], r32["verdict"], (r32.get("msg") or r64.get("msg") or "")[:900]), tags + ["width-dependent"], got=r32.get("got"), expected=r64.get("got"))
    # both violated: a defect common to both widths is the sub-property's business -- unless the two misbehave differently
    if repr(r64.get("got")) != repr(r32.get("got")):
        return violated("%s case fails differently under the two configurations: 64-bit: %s | 32-bit: %s" % (case["prop"], (r64.get("msg") or "")[:400], (r32.get("msg") or "")[:400]),
                        tags + ["width-dependent"])
    return held(tags + ["both-violated-equally"], False)


def directed():
    for s in SUBS:
        m = sub(s)
        for i, c in enumerate(m.directed()):
            if s in ("c04", "c05", "c07", "c08") and i % 3:
                continue        # their directed lists are large and mostly dtype variations that do not touch the index width
            yield {"prop": s.upper(), "case": c}
    for c in sub("c02").int_sweep():
        yield {"prop": "C02", "case": c}
    for i, c in enumerate(sub("c02").sweep("quick")):
        if i % 16 == 0:
            yield {"prop": "C02", "case": c}
    for i, c in enumerate(sub("c03").sweep("quick")):
        if i % 16 == 0:
            yield {"prop": "C03", "case": c}


def random_case(rng, tier):
    s = rng.choice(SUBS + ["c02", "c03", "c06", "c06"])
    return {"prop": s.upper(), "case": sub(s).random_case(rng, tier)}


def classify(case, res):
    c = case["case"]
    rs = c.get("rs") if isinstance(c, dict) else None
    if isinstance(rs, slice) and rs.step not in (None, 1):
        return "F19a"
    if case["prop"] in ("C06",):
        return "F19a" if any(isinstance(st.get("rs"), slice) and st["rs"].step not in (None, 1) for st in c.get("steps", [])) else None
    return None
