"""C10 -- looking at an array never changes anything.

Two monitors: (1) purity tap, online: every read-only operation is bracketed by a peek of every
live array; (2) history pairs, offline: a program P and P with extra read-only operations
inserted (several read plans per program, one of them 'read something after every step') are
run from freshly constructed inputs and every event of P -- results of its own observing
steps, exceptions, final contents of all variables -- is compared between the two logs."""
import numpy as np
from ..core import CTX, attempt, held, violated, short, deep_same
from .. import contracts, prog, gen
from . import c06

PROP = "C10"
LEVEL_TEXT = 'History pairs: a program P and P with inserted read-only operations (k read plans, one reading after every step) are both executed and every event of P is compared; purity tap around every read; process-global state monitor (numpy print options, error state, index width). Exploration over histories.'
LEVEL_NOTE = "trusts numpy 2.x, CPython (copy.copy, slice semantics, big ints) and the reference model in rtmon/props/c10.py; decides the executions it produces, nothing more"
TECHNIQUE = 'runtime monitoring: offline comparison of two recorded histories (with / without inserted reads) + online purity tap + global-state monitor'
DESIGN_REF = "DESIGN.md sections 0, 5 (C10), 7"
RULE = ("case = (program P as in C06, read plans R_1..R_k: step position -> [(variable, read-only operation, argument)]); P and P+R_i are both executed on the library; "
        "distinct = hash of (P, plans); non-trivial = at least one inserted read on a derived array")
ASSUMPTIONS = ["class A programs never write into a buffer that an unmaterialised selection still shares; class B programs do (known finding F10) and are classified, not judged strictly"]
ANCHORS = ["raggedarray/base.py::RaggedBase.ravel", "raggedarray/base.py::RaggedBase._flatten_myself", "raggedarray/base.py::RaggedBase._change_view",
           "raggedarray/__init__.py::RaggedArray.__array_ufunc__", "raggedarray/__init__.py::RaggedArray.__array_function__", "raggedarray/__init__.py::RaggedArray.__iter__",
           "raggedarray/indexablearray.py::IndexableArray.__setitem__", "raggedarray/base.py::RaggedBase.size"]
FLOOR_TAGS = ["class:A", "class:B", "plan:everything", "plan:random", "inserted-read-on-lazy", "inserted:meta", "inserted:repr", "inserted:tolist", "inserted:sel", "inserted:sum0",
              "inserted:ell", "inserted:row", "inserted:maskidx", "class:buffer", "class:runlength", "class:table", "variant:2d", "variant:ragged", "variant:1d", "layout:contiguous", "layout:strided", "layout:matrix-column", "layout:reversed", "layout:misaligned", "layout:byteswapped", "layout:sliced-middle"]
FLOOR_MONITORS = ["c10:pair", "purity-tap", "global-state", "kept-results"]
N_RANDOM = {"quick": 3000, "thorough": 100000}
GLOBAL_STATE_MONITOR = True     # reads must not leak into numpy's print options / error state either


def setup(lib):
    contracts.attach(lib, which=("ragged",))


def created_at(steps):
    out = {}
    for i, st in enumerate(steps):
        if "v" in st:
            out[st["v"]] = i
    return out


def make_plans(rng, steps, n_random=2):
    finalM, _ = prog.run_model(steps)
    born = created_at(steps)
    plans = []
    read_ops = prog.FLOAT_READS if steps[0].get("dtype", "int64") == "float64" else [o for o in prog.READ_OPS if o not in prog.NOT_READS]
    if steps[0].get("via") == "unsafe":
        read_ops = [o for o in read_ops if o not in ("elem_oob", "badadd")]

    def one_read(si):
        vs = [v for v, b in born.items() if b <= si]
        v = rng.choice(vs[-3:]) if rng.random() < 0.6 else rng.choice(vs)
        rows = finalM[v]
        for _ in range(10):
            nm = rng.choice(read_ops)
            if prog.obs_applicable(nm, rows):
                return [v, nm, prog.obs_arg(rng, nm, rows)]
        return [v, "tolist", None]
    everything = {str(si): [one_read(si) for _ in range(rng.randint(1, 2))] for si in range(len(steps))}
    plans.append({"kind": "everything", "reads": everything})
    for _ in range(n_random):
        reads = {}
        for si in range(len(steps)):
            if rng.random() < 0.4:
                reads[str(si)] = [one_read(si) for _ in range(rng.randint(1, 2))]
        plans.append({"kind": "random", "reads": reads})
    return plans


LAYOUTS = ["contiguous", "strided", "matrix-column", "reversed", "misaligned", "byteswapped", "sliced-middle", "readonly-base"]
BUF_OBS = ["tolist", "ravel", "sum1", "repr", "str", "meta", "row", "elem", "sel", "iter", "max1", "sum0", "maskidx", "cumsum", "sort", "astype", "ell", "nonzero", "add1"]


def make_buffer(layout, vals):
    """-> (the numpy array handed to the constructor, the array that owns its memory)"""
    n = len(vals)
    if layout == "contiguous":
        base = np.array(vals, dtype=np.int64)
        return base, base
    if layout == "strided":
        base = np.full(2 * n + 1, -7, dtype=np.int64)
        base[1::2] = vals
        return base[1::2], base
    if layout == "matrix-column":
        base = np.full((n, 3), -7, dtype=np.int64)
        base[:, 1] = vals
        return base[:, 1], base
    if layout == "reversed":
        base = np.array(vals[::-1], dtype=np.int64)
        return base[::-1], base
    if layout == "misaligned":
        # 64-bit numbers that start one byte into the caller's memory block (a record read from a file, a packed struct): not aligned, still writable
        raw = bytearray(8 * n + 9)
        view = np.frombuffer(raw, dtype=np.int64, count=n, offset=1)
        view[...] = vals
        return view, view
    if layout == "byteswapped":
        base = np.array(vals, dtype=">i8")
        return base, base
    if layout == "sliced-middle":
        base = np.full(n + 7, -7, dtype=np.int64)
        base[3:3 + n] = vals
        return base[3:3 + n], base
    raise ValueError(layout)


def run_buffer_once(case, reads):
    """one execution of a buffer history; reads: step position -> [(observation, argument)] inserted after that step"""
    RA = CTX.lib.RaggedArray
    view, base = make_buffer(case["layout"], case["vals"])
    ra = RA(view, list(case["lens"]))
    out = []

    def do_reads(pos):
        for nm, arg in reads.get(pos, ()):
            attempt(prog.OBS[nm][0], ra, arg)
    do_reads(-1)
    for si, st in enumerate(case["steps"]):
        if st[0] == "bufwrite":          # the caller writes into the numpy array it built the ragged array from
            view[st[1]] = st[2]
        elif st[0] == "assign":
            ra[st[1], st[2]] = st[3]
        else:
            o = attempt(prog.OBS[st[1]][0], ra, st[2])
            out.append((si, c06.norm(o.value) if o.ok else "raised %s" % type(o.exc).__name__))
        do_reads(si)
    return out, ra.tolist(), base.tolist()


def run_buffer(case):
    """a ragged array built over a caller-owned numpy buffer (possibly a non-contiguous view): the history
    interleaves writes to that buffer, writes to the ragged array and observations; inserted reads must not
    change any observation, the final content of the array, or the final content of the caller's buffer"""
    tags = ["class:buffer", "layout:" + case["layout"]]
    CTX.tick("c10:pair")
    base = attempt(run_buffer_once, case, {})
    if not base.ok:
        return violated("buffer history raised %r: %s" % (base, short(case, 300)), tags)
    for plan in case["plans"]:
        rp = {int(k): [tuple(r) for r in v] for k, v in plan.items()}
        for reads in rp.values():
            for nm, _ in reads:
                tags.append("inserted:" + nm)
        withr = attempt(run_buffer_once, case, rp)
        if not withr.ok:
            return violated("buffer history raises %r only with inserted reads %s: %s" % (withr, short(rp, 200), short(case, 300)), sorted(set(tags)) + ["raise-differs"])
        for what, a, b in zip(("observations", "final content of the array", "final content of the caller's buffer"), base.value, withr.value):
            if not deep_same(a, b):
                return violated("RaggedArray over a %s numpy buffer, history %s: %s are %s without and %s with the inserted reads %s" % (
                    case["layout"], short(case["steps"], 300), what, short(a, 200), short(b, 200), short(rp, 200)), sorted(set(tags)) + ["buffer-detached"], got=b, expected=a)
    return held(sorted(set(tags)), True)


def gen_buffer_case(rng, tier):
    for _ in range(20):
        lens, _ = gen.length_vector(rng, tier, maxrows=5, maxlen=5)
        if sum(lens):
            break
    else:
        lens = [2, 0, 3]
    tot = sum(lens)
    vals = [rng.randint(1, 90) for _ in range(tot)]
    rows = [r.tolist() for r in gen.split_rows(np.array(vals), lens)]
    cells = [(i, j) for i, l in enumerate(lens) for j in range(l)]

    def one_obs():
        for _ in range(10):
            nm = rng.choice(BUF_OBS)
            if prog.obs_applicable(nm, rows):
                return nm, prog.obs_arg(rng, nm, rows)
        return "tolist", None
    steps = []
    for _ in range(rng.randint(3, 8)):
        u = rng.random()
        if u < 0.4:
            steps.append(["bufwrite", rng.randrange(tot), rng.randint(100, 999)])
        elif u < 0.55:
            i, j = rng.choice(cells)
            steps.append(["assign", i, j, rng.randint(1000, 1999)])
        else:
            steps.append(["obs"] + list(one_obs()))
    steps.append(["obs", "tolist", None])
    plans = [{str(si): [list(one_obs())] for si in range(-1, len(steps))}]
    for _ in range(2):
        plans.append({str(si): [list(one_obs())] for si in rng.sample(range(-1, len(steps)), rng.randint(1, 2))})
    return {"kind": "buffer", "layout": rng.choice(LAYOUTS[:-1]), "lens": lens, "vals": vals, "steps": steps, "plans": plans}


RL_READS = ["sum0", "sum1", "any", "all", "max", "mean1", "mean0", "to_array", "repr", "row", "rows", "elem", "plus1", "cmp", "ravel", "col_counts", "neg", "shape"]


def run_rlpurity(case):
    """read-only operations on the run-length classes: after each one the object decodes to what it decoded to before"""
    lib = CTX.lib
    dt = np.dtype(case["dtype"])
    rows = [np.array(r).astype(dt) for r in case["rows"]]
    variant = case["variant"]
    tags = ["class:runlength", "variant:" + variant, "kind:" + dt.kind]
    if variant == "1d":
        obj = lib.RunLengthArray.from_array(rows[0].copy())
        decode = lambda: [np.asarray(obj.to_array()).tolist()]
    elif variant == "2d":
        obj = lib.RunLength2dArray.from_array(np.array(rows, dtype=dt))
        decode = lambda: np.asarray(obj.to_array()).tolist()
    else:
        obj = lib.RunLengthRaggedArray.from_ragged_array(lib.RaggedArray([r.copy() for r in rows], dtype=dt))
        decode = lambda: [np.asarray(r_).tolist() for r_ in obj.to_array()]
    before = decode()
    n = len(rows)
    reads = {
        "sum0": lambda: obj.sum(axis=0), "sum1": lambda: obj.sum(axis=-1), "any": lambda: obj.any(), "all": lambda: obj.all(), "max": lambda: obj.max(axis=-1) if variant != "1d" else obj.max(),
        "mean1": lambda: obj.mean(axis=-1) if variant != "1d" else obj.mean(), "mean0": lambda: obj.mean(axis=0), "to_array": lambda: obj.to_array(), "repr": lambda: (repr(obj), str(obj)),
        "row": lambda: obj[0].to_array() if variant != "1d" else obj[0], "rows": lambda: obj[list(range(n))[::-1]] if variant != "1d" else obj[::-1].to_array(),
        "elem": lambda: obj[0, 0] if variant != "1d" else obj[-1], "plus1": lambda: (obj + 1), "cmp": lambda: (obj > 0), "ravel": lambda: obj.ravel(), "col_counts": lambda: obj.col_counts(),
        "neg": lambda: np.negative(obj), "shape": lambda: (len(obj), obj.shape, obj.size),
    }
    done = []
    for nm in case["reads"]:
        CTX.tick("purity-tap")
        attempt(reads[nm])          # whether this particular read is supported by this variant does not matter here; what it leaves behind does
        done.append(nm)
        tags.append("rlread:" + nm)
        after = attempt(decode)
        if not after.ok or not deep_same(after.value, before):
            return violated("%s run-length array of %s rows %s: after the read-only operations %s it decodes to %s, before %s" % (
                variant, dt, short([r.tolist() for r in rows], 160), done, repr(after) if not after.ok else short(after.value, 160), short(before, 160)), sorted(set(tags)) + ["purity"])
    return held(sorted(set(tags)), True)


def gen_rlpurity(rng, tier):
    from .. import rl
    dtype = rng.choice(["int64", "float64", "float64", "float32", "int32", "bool", "uint8"])
    variant = rng.choice(["1d", "2d", "2d", "ragged", "ragged"])
    nrows = 1 if variant == "1d" else rng.randint(1, 5)
    c = rng.randint(1, 8)
    vclass = "decimal" if (np.dtype(dtype).kind == "f" and rng.random() < 0.5) else "small"
    rows = []
    for _ in range(nrows):
        L = c if variant == "2d" else rng.randint(1, 8)
        if vclass == "decimal":
            pool = gen.values(rng, dtype, 3, "decimal").tolist()
            v = []
            while len(v) < L:
                v += [rng.choice(pool)] * rng.randint(1, 3)
            rows.append(v[:L])
        else:
            rows.append(np.resize(rl.gen_runs(rng, dtype, "small", L)[0], L).tolist())
    reads = [rng.choice(RL_READS) for _ in range(rng.randint(2, 7))]
    return {"kind": "rlpurity", "dtype": dtype, "variant": variant, "rows": rows, "reads": reads}


def run_table_once(case, reads):
    lib = CTX.lib
    keys = np.array(case["keys"], dtype=case["kdtype"])
    init = case["init"] if not isinstance(case["init"], list) else np.array(case["init"], dtype=case["vdtype"])
    t = (lib.Counter if case.get("cls") == "Counter" else lib.HashTable)(keys, init)
    out = []

    def read(nm, arg):
        if nm == "getv":
            return np.asarray(t[np.array(arg, dtype=case["kdtype"])]).tolist()
        if nm == "get1":
            return np.asarray(t[np.dtype(case["kdtype"]).type(arg)]).tolist()
        if nm == "contains":
            return np.asarray(t.contains(np.array(arg, dtype=case["kdtype"]))).tolist()
        if nm == "format":
            return len(repr(t)) > 0 and len(str(t)) > 0
        if nm == "eqself":
            return bool(t == t)
        raise ValueError(nm)

    def do_reads(pos):
        for nm, arg in reads.get(pos, ()):
            attempt(read, nm, arg)
    do_reads(-1)
    for si, st in enumerate(case["steps"]):
        if st[0] == "fill":
            t.fill(st[1])
        elif st[0] == "set":
            t[np.array(st[1], dtype=case["kdtype"])] = st[2]
        elif st[0] == "items":
            o = attempt(lambda: sorted((int(k), float(v)) for k, v in t.items()))
            out.append((si, o.value if o.ok else "raised"))
        else:
            o = attempt(read, st[0], st[1])
            out.append((si, o.value if o.ok else "raised %s" % type(o.exc).__name__))
        do_reads(si)
    return out


def run_table(case):
    """history pairs over a HashTable / Counter: look-ups, membership tests and printing inserted anywhere change no later outcome"""
    tags = ["class:table", "init:" + ("array" if isinstance(case["init"], list) else "scalar")]
    CTX.tick("c10:pair")
    base = attempt(run_table_once, case, {})
    if not base.ok:
        return undefined("the table history is not executable: %r" % (base,), tags)
    for plan in case["plans"]:
        rp = {int(k): [tuple(r) for r in v] for k, v in plan.items()}
        for reads in rp.values():
            for nm, _ in reads:
                tags.append("inserted:" + nm)
        withr = attempt(run_table_once, case, rp)
        if not withr.ok or not deep_same(base.value, withr.value):
            return violated("table over keys %s, initial value %s, history %s: the results are %s without and %s with the inserted reads %s" % (
                short(case["keys"], 80), short(case["init"], 60), short(case["steps"], 300), short(base.value, 200), repr(withr) if not withr.ok else short(withr.value, 200), short(rp, 200)),
                sorted(set(tags)) + ["table-read-changes-outcome"])
    return held(sorted(set(tags)), True)


def gen_table_case(rng, tier):
    nk = rng.randint(1, 8)
    keys = rng.sample(range(0, 60), nk)
    kd = rng.choice(["int64", "int32", "uint8"])
    scalar = rng.random() < 0.6
    vdtype = rng.choice(["int64", "float64"])
    init = rng.choice([0, 5, 2.5, 1]) if scalar else [rng.randint(0, 9) for _ in keys]

    def a_read():
        nm = rng.choice(["getv", "get1", "contains", "format", "eqself", "getv"])
        arg = [rng.choice(keys) for _ in range(rng.randint(1, 4))] if nm == "getv" else (rng.choice(keys) if nm == "get1" else ([rng.choice(keys), 61, rng.choice(keys)] if nm == "contains" else None))
        return [nm, arg]
    steps = []
    for _ in range(rng.randint(2, 7)):
        u = rng.random()
        if u < 0.3:
            steps.append(["fill", rng.choice([2.5, 7, 0.25, 1000, -1.5])])
        elif u < 0.5:
            steps.append(["set", [rng.choice(keys)], rng.choice([3, 4.5, 100, 0.75])])
        elif u < 0.6:
            steps.append(["items", None])
        else:
            steps.append(a_read())
    steps.append(["getv", list(keys)])
    plans = [{str(si): [a_read()] for si in range(-1, len(steps))}] + [{str(si): [a_read()] for si in rng.sample(range(-1, len(steps)), 1)} for _ in range(2)]
    return {"kind": "table", "keys": keys, "kdtype": kd, "init": init, "vdtype": vdtype, "steps": steps, "plans": plans, "cls": "Counter" if (rng.random() < 0.15 and not isinstance(init, float)) else "HashTable"}


def run(case):
    if case.get("kind") == "table":
        return run_table(case)
    if case.get("kind") == "rlpurity":
        return run_rlpurity(case)
    if case.get("kind") == "buffer":
        return run_buffer(case)
    steps = case["steps"]
    tags = ["class:" + ("B" if case.get("hazard") else "A")]
    pdesc = c06.describe(steps)
    base = attempt(prog.run_lib, steps, "L", None, True)
    inserted_on_derived = False
    if base.ok and base.value[3]:
        si, what, changed = base.value[3][0]
        return violated("the read-only step %d (%s) changed %s\n%s" % (si, what, changed, pdesc), tags + ["purity"])
    for plan in case["plans"]:
        tags.append("plan:" + plan["kind"])
        rp = {int(k): [tuple(r) for r in v] for k, v in plan["reads"].items()}
        for si, reads in rp.items():
            for (v, nm, arg) in reads:
                tags.append("inserted:" + nm)
                if v != "a0":
                    inserted_on_derived = True
        CTX.tick("c10:pair")
        trace = []
        withr = attempt(lambda: run_with_trace(steps, rp, trace))
        if any(t == "lazy" for t in trace):
            tags.append("inserted-read-on-lazy")
        tags = sorted(set(tags))
        plan_desc = "inserted reads: %s" % short({k: v for k, v in sorted(rp.items())}, 400)
        if base.ok != withr.ok:
            return violated("the program %s without the inserted reads and %s with them\n%s\n%s" % (
                "completes" if base.ok else "raises %r" % base, "completes" if withr.ok else "raises %s: %s" % (type(withr.exc).__name__, withr.exc), pdesc, plan_desc),
                tags + ["raise-differs"], got=repr(withr))
        if not base.ok:
            if type(base.exc) is not type(withr.exc):
                return violated("the program raises %r without and %r with the inserted reads\n%s\n%s" % (base, withr, pdesc, plan_desc), tags + ["raise-differs"])
            continue
        finalA, obsA = base.value[0], base.value[1]
        finalB, obsB, extra, breaches, hazard_seen = withr.value
        if hazard_seen and case.get("hazard"):
            tags.append("hazard-confirmed")
        if breaches:
            si, what, changed = breaches[0]
            return violated("the read-only operation %s (after step %d) changed the content of %s\n%s\n%s" % (what, si, changed, pdesc, plan_desc), tags + ["purity"])
        base_b = base.value[3] if base.ok else []
        for v in finalA:
            if not deep_same(finalA[v], finalB.get(v)):
                return violated("variable %s ends as %s without and as %s with the inserted reads\n%s\n%s" % (v, short(finalA[v], 200), short(finalB.get(v), 200), pdesc, plan_desc),
                                tags + ["final-differs"], got=finalB.get(v), expected=finalA[v])
        for (si, a), (_, b) in zip(obsA, obsB):
            if not deep_same(c06.norm(a), c06.norm(b)):
                st = steps[si]
                return violated("step %d, %s(%s) gives %s without and %s with the inserted reads\n%s\n%s" % (si, st["what"], st["u"], short(a, 200), short(b, 200), pdesc, plan_desc),
                                tags + ["obs-differs:" + st["what"]], got=b, expected=a)
    return held(tags, inserted_on_derived)


def run_with_trace(steps, rp, trace):
    """run P+R with the purity tap; record whether an inserted read met an unmaterialised array"""
    from ..core import is_lazy
    orig = {}
    lazy_marks = trace

    # wrap the OBS functions used by the plan to note laziness of their receiver (public flag only)
    def wrap(name):
        f = prog.OBS[name][0]

        def g(x, a):
            lazy_marks.append("lazy" if is_lazy(x) else "materialised")
            return f(x, a)
        return g
    names = {nm for reads in rp.values() for (_, nm, _) in reads}
    try:
        for nm in names:
            orig[nm] = prog.OBS[nm]
            prog.OBS[nm] = (wrap(nm), orig[nm][1])
        return prog.run_lib(steps, "L", rp, True)
    finally:
        for nm, o in orig.items():
            prog.OBS[nm] = o


# ----------------------------------------------------------------------------- workloads

def with_plans(rng, case, n_random=2):
    case = dict(case)
    case["plans"] = make_plans(rng, case["steps"], n_random)
    return case


def directed():
    import random
    rng = random.Random(1010)
    # the statement's own example: one definite content whether inspected before or after the source was written (F10, class B)
    yield {"steps": [{"op": "init", "v": "a0", "rows": [[1, 2], [3], [4, 5, 6]]}, {"op": "sel", "v": "a1", "u": "a0", "rs": slice(1, 3), "cs": None, "has_cs": False},
                     {"op": "assign", "u": "a0", "rs": 1, "cs": None, "has_cs": False, "vk": "scalar", "val": 99}, {"op": "obs", "u": "a1", "what": "tolist", "arg": None}],
           "hazard": True, "plans": [{"kind": "everything", "reads": {"1": [["a1", "tolist", None]]}}, {"kind": "random", "reads": {"1": [["a1", "repr", None]]}}]}
    # reads on the *source* before a selection is taken, then observations of the selection (cached state must not leak)
    for src_read in ["meta", "repr", "sum1", "tolist", "str", "sumall", "max1"]:
        for sel in [(slice(1, 3), None, False), (slice(None), slice(1, None), True), ([2, 0], slice(None, None, -1), True), (np.array([False, True, False]), None, False), (slice(0, 0), None, False)]:
            steps = [{"op": "init", "v": "a0", "rows": [[1, 2], [3], [4, 5, 6]]}, {"op": "sel", "v": "a1", "u": "a0", "rs": sel[0], "cs": sel[1], "has_cs": sel[2]},
                     {"op": "obs", "u": "a1", "what": "meta", "arg": None}, {"op": "obs", "u": "a1", "what": "sum1", "arg": None}, {"op": "obs", "u": "a1", "what": "tolist", "arg": None}]
            yield {"steps": steps, "hazard": False, "plans": [{"kind": "everything", "reads": {"0": [["a0", src_read, None]]}}, {"kind": "random", "reads": {"0": [["a0", src_read, None]], "1": [["a1", "meta", None]]}}]}
    # reads on an unmaterialised selection before a second selection is taken from it
    for first in [(slice(None), slice(None, None, 2), True), (slice(None), slice(None, None, -1), True), (slice(None, None, -1), None, False), ([2, 0, 1], slice(1, None), True)]:
        for second in [(slice(None), slice(1, None), True), (slice(None), slice(-2, None), True), ([1, 0], None, False), (slice(None), slice(None, None, -1), True), (slice(1, None), slice(0, 2), True)]:
            steps = [{"op": "init", "v": "a0", "rows": [[1, 2, 3, 4, 5, 6, 7], [8, 9, 10], [11, 12, 13, 14]]},
                     {"op": "sel", "v": "a1", "u": "a0", "rs": first[0], "cs": first[1], "has_cs": first[2]},
                     {"op": "sel", "v": "a2", "u": "a1", "rs": second[0], "cs": second[1], "has_cs": second[2]},
                     {"op": "obs", "u": "a2", "what": "tolist", "arg": None}, {"op": "obs", "u": "a1", "what": "meta", "arg": None}]
            for rd in ["tolist", "repr", "meta", "sum1", "ell", "row"]:
                yield {"steps": steps, "hazard": False, "plans": [{"kind": "everything", "reads": {"1": [["a1", rd, 0 if rd == "row" else None]]}}, {"kind": "random", "reads": {"2": [["a1", rd, 0 if rd == "row" else None]]}}]}
    # an integer column (also <= -2) read from an unmaterialised stepped column view, with and without an earlier look at the view
    wide = [[1, 2, 3, 4, 5, 6, 7], [8, 9, 10, 11], [12, 13, 14, 15, 16, 17]]
    for first in [(slice(None), slice(None, None, 2), True), (slice(None), slice(None, None, -1), True), (slice(None), slice(1, None, 3), True), ([2, 0], slice(None, None, -2), True)]:
        rows1 = prog.m_sel(wide, *first)[1]
        ml = min(len(r) for r in rows1)
        for j in range(-ml, ml):
            steps = [{"op": "init", "v": "a0", "rows": wide}, {"op": "sel", "v": "a1", "u": "a0", "rs": first[0], "cs": first[1], "has_cs": first[2]},
                     {"op": "obs", "u": "a1", "what": "sel", "arg": [slice(None), j, True]}, {"op": "obs", "u": "a1", "what": "rowscol", "arg": [list(range(len(rows1))), j]},
                     {"op": "obs", "u": "a1", "what": "getcol", "arg": j % ml}]
            yield {"steps": steps, "hazard": False, "plans": [{"kind": "everything", "reads": {"1": [["a1", "tolist", None]]}}, {"kind": "random", "reads": {"1": [["a1", "meta", None]], "2": [["a1", "repr", None]]}}]}
    # printing a large array (more than 100 cells, more than 20 rows), then printing something wide
    bigrows = [[(7 * i + j) % 50 + 100000 for j in range(12)] for i in range(25)]
    for rd in ("repr", "str", "tolist"):
        steps = [{"op": "init", "v": "a0", "rows": bigrows}, {"op": "sel", "v": "a1", "u": "a0", "rs": slice(None, None, 2), "cs": None, "has_cs": False},
                 {"op": "obs", "u": "a1", "what": "repr", "arg": None}, {"op": "obs", "u": "a0", "what": "str", "arg": None}, {"op": "obs", "u": "a1", "what": "row", "arg": 0}]
        yield {"steps": steps, "hazard": False, "plans": [{"kind": "everything", "reads": {"0": [["a0", rd, None]], "1": [["a1", rd, None]]}}, {"kind": "random", "reads": {"1": [["a0", "repr", None]]}}]}
    # a float column combined with arrays that share their geometry with an array that was reduced / read before
    F = [[0.1, 0.7], [1e17, 1.0, 0.3], [float("inf"), 2.0], [0.3, 0.1, 0.7, 1.0]]
    col = [0.1, float("nan"), 1e17, 0.7]
    for rd in ("sum1", "any1", "npsum1", "tolist", "sumall", "max1", "meta"):
        steps = [{"op": "init", "v": "a0", "rows": F, "dtype": "float64"}, {"op": "neg", "v": "a1", "u": "a0"}, {"op": "ufcol", "v": "a2", "u": "a1", "col": col, "side": "R"},
                 {"op": "ufcol", "v": "a3", "u": "a0", "col": col, "side": "L"}, {"op": "obs", "u": "a2", "what": "tolist", "arg": None}, {"op": "obs", "u": "a3", "what": "tolist", "arg": None}]
        yield {"steps": steps, "hazard": False, "plans": [{"kind": "everything", "reads": {"0": [["a0", rd, None]], "1": [["a1", rd, None]]}}, {"kind": "random", "reads": {"1": [["a1", rd, None]]}}]}
    # an array built with safe_mode=False combined (as either operand) with a same-sized array of other row lengths: whatever the outcome,
    # the OTHER array is only looked at
    for rows_ in ([[1, 2], [3], [4, 5, 6]], [[1], [2], [3]], [[7, 8, 9], [1, 2, 3]]):
        for a_ in ([0, 1, True], [0, 1, False], [len(rows_) - 1, 0, True]):
            steps = [{"op": "init", "v": "a0", "rows": rows_, "via": "unsafe"}, {"op": "obs", "u": "a0", "what": "partnerpurity", "arg": a_},
                     {"op": "ufs", "v": "a1", "u": "a0", "c": 2, "uf": "multiply", "side": "R"}, {"op": "obs", "u": "a1", "what": "partnerpurity", "arg": a_}, {"op": "obs", "u": "a0", "what": "tolist", "arg": None}]
            yield {"steps": steps, "hazard": False, "plans": [{"kind": "everything", "reads": {"0": [["a0", "partnerpurity", a_]], "2": [["a1", "sum1", None]]}}, {"kind": "random", "reads": {"1": [["a0", "meta", None]]}}]}
    for rows_ in ([[1, 2], [3], [4, 5, 6]], [[1], [2], [3], [4]], [[7, 8, 9], [1, 2, 3]], [[5, 6], [], [7]]):
        for via_ in ("unsafe", None):
            for order in ("uw", "wu"):
                mv = [0, len(rows_) - 1]
                init = {"op": "init", "v": "a0", "rows": rows_}
                if via_:
                    init["via"] = via_
                steps = [init, {"op": "partner", "v": "a1", "u": "a0", "move": mv}, {"op": "cmp2", "u": "a0" if order == "uw" else "a1", "w": "a1" if order == "uw" else "a0"},
                         {"op": "obs", "u": "a1", "what": "tolist", "arg": None}, {"op": "obs", "u": "a0", "what": "sum1", "arg": None}]
                yield {"steps": steps, "hazard": False, "plans": [{"kind": "everything", "reads": {"1": [["a1", "meta", None]], "2": [["a1", "sum1", None]]}}, {"kind": "random", "reads": {"0": [["a0", "tolist", None]]}}]}
    # index arrays handed to a read are the caller's: negative entries must still be negative afterwards
    for rows_ in (np.array([-1, 0, -2]), np.array([-3, -3], dtype=np.int32), np.array([2, -1])):
        steps = [{"op": "init", "v": "a0", "rows": [[1, 2], [3, 4, 5], [6, 7]]}, {"op": "obs", "u": "a0", "what": "rowscol", "arg": [rows_.copy(), 1]},
                 {"op": "sel", "v": "a1", "u": "a0", "rs": slice(None, None, -1), "cs": None, "has_cs": False}, {"op": "obs", "u": "a1", "what": "rowscol", "arg": [rows_.copy(), -1]}]
        yield {"steps": steps, "hazard": False, "plans": [{"kind": "everything", "reads": {"0": [["a0", "rowscol", [rows_.copy(), 0]]], "2": [["a1", "rowscol", [rows_.copy(), 0]]]}}]}
    # a result the caller holds (a padded matrix, a converted copy, column totals, ...) across a write to the array and a second request of the same kind
    for rows_ in ([[1, 2, 3], [4], [5, 6]], [[(3 * i + j) % 17 + 1 for j in range(1 + (i * 7) % 41)] for i in range(40)], [[i % 5 + 1] for i in range(1600)]):
        for what in sorted(prog.KEPT):
            arg = 0 if what == "getcol" else None
            steps = [{"op": "init", "v": "a0", "rows": rows_}, {"op": "obs", "u": "a0", "what": what, "arg": arg}, {"op": "ravelwrite", "u": "a0", "k": 1, "val": 777},
                     {"op": "obs", "u": "a0", "what": what, "arg": arg}, {"op": "rowwrite", "u": "a0", "i": 0, "j": 0, "val": 555}, {"op": "obs", "u": "a0", "what": what, "arg": arg},
                     {"op": "obs", "u": "a0", "what": "tolist", "arg": None}]
            yield {"steps": steps, "hazard": False, "plans": [{"kind": "everything", "reads": {"1": [["a0", what, arg]], "3": [["a0", "padded", None]]}}, {"kind": "random", "reads": {"2": [["a0", "meta", None]]}}]}
    for _ in range(120):
        yield gen_buffer_case(rng, "quick")
    for _ in range(400):
        yield gen_rlpurity(rng, "quick")
    for _ in range(500):
        yield gen_table_case(rng, "quick")
    for _ in range(250):
        yield with_plans(rng, prog.gen_program(rng, "quick"))
    for _ in range(120):
        yield with_plans(rng, prog.gen_program(rng, "quick", dtype="float64"))
    for _ in range(25):
        yield with_plans(rng, prog.gen_program(rng, "quick", big=True))
    for _ in range(40):
        yield with_plans(rng, prog.gen_program(rng, "quick", allow_hazard=True))


def random_case(rng, tier):
    if rng.random() < 0.1:
        return gen_table_case(rng, tier)
    if rng.random() < 0.1:
        return gen_rlpurity(rng, tier)
    if rng.random() < 0.12:
        return gen_buffer_case(rng, tier)
    return with_plans(rng, prog.gen_program(rng, tier, allow_hazard=rng.random() < 0.05, dtype="float64" if rng.random() < 0.3 else "int64", big=rng.random() < 0.08), 2 if tier == "quick" else 3)


def classify(case, res):
    if case.get("kind") in ("buffer", "rlpurity", "table"):
        return None
    if case.get("hazard") and any(t in ("final-differs", "raise-differs") or t.startswith("obs-differs") for t in res["tags"]):
        return "F10"
    return None
