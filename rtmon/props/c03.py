"""C03 -- assignment writes exactly the addressed cells and nothing else.

Monitor: write-footprint tap.  The target holds unique cell ids, the assigned values are
unique numbers >= 100000, and *every* live array (target, an alias ra[...], an unrelated
bystander, the value operand) is peeked before and after the write."""
import numpy as np
from ..core import CTX, attempt, held, violated, undefined, peek, short, lists_same
from .. import gen, model, contracts
from . import c02

PROP = "C03"
LEVEL_TEXT = 'Write-footprint monitor: after every assignment the whole content of the target, an alias, a bystander, the value operand and (for lazy receivers) the parent is compared with the list model; unique / hostile-float assigned values; mismatching ragged values must be refused. Exploration.'
LEVEL_NOTE = "trusts numpy 2.x, CPython (copy.copy, slice semantics, big ints) and the reference model in rtmon/props/c03.py; decides the executions it produces, nothing more"
TECHNIQUE = 'runtime monitoring: write-footprint tap (peek of every live array before/after) + list-model oracle'
DESIGN_REF = "DESIGN.md sections 0, 5 (C03), 7"
RULE = ("case = (row lengths, index expression accepted for reading with non-repeating rows (repeating ones with a scalar value) | boolean ragged mask, value kind); "
        "the whole content of the target, of an alias ra[...], of a bystander array and of the value operand is compared with the "
        "list model after the write; distinct = hash of the case; non-trivial = >= 2 rows, >= 1 addressed cell (or a value that must be refused)")
ASSUMPTIONS = ["column vectors are assigned to 2-D selections only (numpy refuses them for 1-D selections too)",
               "whether a refused assignment leaves the target untouched is recorded, not judged"]
ANCHORS = [
    "raggedarray/indexablearray.py::IndexableArray.__setitem__",
    "raggedarray/base.py::RaggedBase._set_data_range",
    "raggedshape.py::RaggedShape.broadcast_values",
    "raggedshape.py::RaggedShape._raw_broadcast",
    "raggedshape.py::RaggedView2.col_slice",
    "raggedshape.py::build_indices",
    "raggedarray/indexablearray.py::IndexableArray._get_element",
]
VK = ["scalar", "flat", "flatlist", "colvec", "collist", "ragged", "bad_same_total", "bad_total", "bad_rows", "bad_onerow"]
FLOOR_TAGS = ["vk:" + v for v in VK] + ["mask:scalar", "mask:flat", "r:int", "r:slice+1", "r:slice+k", "r:slice-", "r:list", "r:mask", "r:ell", "rows-repeat",
                                        "recv:fresh", "recv:lazyrows", "recv:lazycols+2", "recv:lazycols-1", "recv:lazychain", "recv:deepcopy", "recv:pickle", "values:hostile-floats", "valdtype:other", "valdtype:exotic", "ellipsis-padded", "seq", "seq:50+", "vk:selfsel", "overlap", "value-is-receiver",
                                        "c:none", "c:int+", "c:int-", "c:slice+1", "c:slice+k", "c:slice-", "sel-has-empty-row", "e-first", "e-last", "e-mid", "allempty", "norows"]
FLOOR_MONITORS = ["c03:footprint", "c03:must-refuse", "c03:bystander", "c03:alias", "c03:parent-untouched", "c03:pairs", "c03:selfflat", "c03:tablevalue"]
FP_STRICT = True       # a floating-point event inside the library that the dense computation does not have is a violation (shard.FpMonitor)
N_RANDOM = {"quick": 24000, "thorough": 300000}
BASE = 100000
VALDTYPES = ["int32", "uint32", "int64", "uint64", "float64", "longdouble", "object"]


def setup(lib):
    contracts.attach(lib, which=("ragged",))


HOSTILE = [1e16, 1.0, 3.0, 0.1, 0.7, float("nan"), 1.9, float("inf"), 0.3, -2.5e-7, float("-inf"), 123456.789, 0.0, -0.0, -0.0, 0.0]


def mk_case(lens, rs, cs=None, has_cs=False, vk="scalar", dtype="int64", recv="fresh", hostile=False):
    return {"lens": list(lens), "rs": rs, "cs": cs, "has_cs": bool(has_cs), "vk": vk, "dtype": dtype, "recv": recv,
            "hostile": bool(hostile and np.dtype(dtype).kind == "f")}


SCARRIERS = ["pyfloat", "f64", "f32", "i32", "u64", "pyint"]
MASK_RECVS = ["lazyrows", "lazycols+2", "lazycols-1", "lazychain", "ufunc", "deepcopy", "pickle", "copy-of-lazy", "saveload", "concat", "readonly", "subclass", "was-argument", "unsafe"]


def mk_mask_case(lens, mask, vk="scalar", dtype="int64"):
    return {"lens": list(lens), "mask": [bool(b) for b in mask], "vk": vk, "dtype": dtype}


def applicable(kind, vk, nrows_sel):
    if vk == "selfsel":
        return kind == "RA"
    if vk in ("scalar", "augmented"):
        return True
    if vk in ("flat", "flatlist"):
        return kind == "ND"
    if vk in ("colvec", "collist"):
        return kind == "RA" and nrows_sel >= 1
    if vk in ("ragged", "bad_same_total", "bad_total", "bad_rows", "bad_onerow"):
        return kind == "RA"
    return False


def bad_rows_of(sel_lens, how):
    L = list(sel_lens)
    if how == "bad_total":
        if L:
            L[-1] += 1
        else:
            L = [1]
        return L
    if how == "bad_rows":
        return L + [0] if len(L) % 2 == 0 else ([0] + L)
    if how == "bad_onerow":
        # a single row whose flat data numpy would broadcast over the selection: k != 1 selected rows, all of the same length 0 or 1
        if len(L) != 1 and len(set(L)) <= 1 and (not L or L[0] in (0, 1)):
            return [L[0] if L else 1]
        return None
    # same total, different lengths: move one cell between rows
    src = [i for i, l in enumerate(L) if l > 0]
    if not src or len(L) < 2:
        return None
    s = src[0]
    d = (s + 1) % len(L)
    L[s] -= 1
    L[d] += 1
    return L


def run_seq(case):
    """many assignments in a row on one and the same array: the list model is updated alongside and compared after every step
    (an error that builds up over repeated writes, or state left behind by one write, shows at the step where it becomes visible)"""
    RA = CTX.lib.RaggedArray
    lens = case["lens"]
    dt = np.dtype(case.get("dtype", "int64"))
    if not ids_fit(case["lens"], dt):
        return undefined("the harness's cell ids are not exactly representable in %s for %d rows" % (dt, len(case["lens"])), ["ids-do-not-fit"])
    recv = case.get("recv", "fresh")
    pyrows = gen.id_rows(lens)
    flat = np.array([v for r in pyrows for v in r], dtype=dt)
    ra, parent = c02.build_receiver(recv, flat, lens)
    parent_before = peek(parent) if parent is not None else None
    exp = [list(r) for r in pyrows]
    tags = ["seq", "recv:" + recv, "seq:%d+" % (10 * (len(case["steps"]) // 10))] + gen.empty_placement(lens)
    for si, st in enumerate(case["steps"]):
        rs, cs, has_cs, vk = st["rs"], st["cs"], st["has_cs"], st["vk"]
        kind, cells = model.select_cells(lens, rs, cs, has_cs)
        flatcells = model.flat_cells(kind, cells)
        base = BASE * (si + 2)
        if vk == "scalar":
            value = base
            for (i, j) in flatcells:
                exp[i][j] = base
        elif vk == "flat":
            vals = [base + k for k in range(len(flatcells))]
            value = np.array(vals, dtype=dt)
            for k, (i, j) in enumerate(flatcells):
                exp[i][j] = vals[k]
        elif vk == "colvec":
            col = [base + k for k in range(len(cells))]
            value = np.array(col, dtype=dt).reshape(len(cells), 1)
            for k, r in enumerate(cells):
                for (i, j) in r:
                    exp[i][j] = col[k]
        else:
            vals = [base + k for k in range(len(flatcells))]
            value = RA(np.array(vals, dtype=dt), [len(r) for r in cells])
            for k, (i, j) in enumerate(flatcells):
                exp[i][j] = vals[k]
        idx = model.make_index(rs, cs, has_cs)
        CTX.tick("c03:footprint", len(flatcells) > 0)
        out = attempt(lambda: ra.__setitem__(idx, value))
        if not out.ok:
            return violated("assignment %d of a sequence, ra[%s] = %s on rows of lengths %s, raised %s: %s" % (si, short(idx), short(value), lens, type(out.exc).__name__, out.exc), tags)
        after = attempt(peek, ra)
        if not after.ok or not lists_same(after.value, exp):
            return violated("after %d assignments in a row (last: ra[%s] = %s) the array reads %s, expected %s; steps %s" % (
                si + 1, short(idx), short(value), repr(after) if not after.ok else short(after.value, 240), short(exp, 240), short(case["steps"][:si + 1], 300)), tags + ["seq-diverged"], got=after.value if after.ok else None, expected=exp)
    if parent is not None and peek(parent) != parent_before:
        return violated("a sequence of assignments into a selection (%s) changed the array it was selected from" % recv, tags + ["parent-changed"])
    if len(ra) != len(lens) or np.asarray(ra.lengths).tolist() != list(lens):
        return violated("row structure changed by a sequence of assignments: lengths %s -> %s" % (lens, np.asarray(ra.lengths).tolist()), tags)
    return held(tags, len(lens) >= 2 and sum(lens) > 0)


def ids_fit(lens, dtype, off=0):
    """the unique cell ids of an array with these row lengths (and of its bystander) are exactly representable in the element type"""
    dt = np.dtype(dtype)
    top = 1000 * len(lens) + (max(lens) if len(lens) else 0) + 500001 + off
    if dt.kind == "f":
        return top < 2 ** (np.finfo(dt).nmant + 1)
    if dt.kind in "iu":
        return top <= np.iinfo(dt).max
    return True


def gen_seq(rng, tier, nsteps=None):
    lens, _ = gen.length_vector(rng, tier)
    n = len(lens)
    steps = []
    nsteps = nsteps or rng.choice([5, 12, 50, 60])
    for _ in range(nsteps * 3):
        if len(steps) >= nsteps:
            break
        c = random_case(rng, tier, lens=lens, plain=True)
        if c is None or "mask" in c or c["vk"] not in ("scalar", "flat", "colvec", "ragged"):
            continue
        steps.append({"rs": c["rs"], "cs": c["cs"], "has_cs": c["has_cs"], "vk": c["vk"]})
    return {"seq": True, "lens": lens, "dtype": rng.choice(["int64", "int64", "float64", "int32"]), "steps": steps,
            "recv": rng.choice(["fresh", "fresh", "lazyrows", "lazycols+2", "lazychain", "ufunc", "pickle", "saveload"])}


def run_pairs(case):
    """ra[R, C] = value with two integer index arrays (broadcast against each other): every addressed cell gets its value -- one scalar, one value
    per cell, one per row of an outer product (a column vector), one per column (a row vector) --, every other cell keeps its own"""
    lens, R, C, vk = case["lens"], case["R"], case["C"], case["vk"]
    recv = case.get("recv", "fresh")
    pyrows = gen.id_rows(lens)
    flat = np.array([v for r in pyrows for v in r], dtype=np.int64)
    tags = ["pairs:" + case.get("form", "1d"), "vk:pairs-" + vk, "recv:" + recv] + gen.empty_placement(lens)
    try:
        shape, cells = c02.pairs_model(lens, R, C)
    except model.Refused:
        return undefined("index not accepted for reading", tags)
    if len(set(cells)) != len(cells):
        return undefined("a cell is addressed twice", tags)
    k = len(cells)
    newv = (np.arange(k, dtype=np.int64) * 7 + 700001).reshape(shape)
    if vk == "scalar":
        value = 777
        newv = np.full(shape, 777, dtype=np.int64)
    elif vk == "colvec" and len(shape) == 2:
        col = np.arange(shape[0], dtype=np.int64)[:, None] * 11 + 900001
        value, newv = col, np.broadcast_to(col, shape)
    elif vk == "rowvec" and len(shape) >= 1:
        row = np.arange(shape[-1], dtype=np.int64) * 13 + 800001
        value, newv = row, np.broadcast_to(row, shape)
    else:
        vk = "full"
        value = newv.copy()
    ra, parent = c02.build_receiver(recv, flat, lens)
    parent_before = peek(parent) if parent is not None else None
    before = [np.array(x, copy=True) if isinstance(x, np.ndarray) else None for x in (R, C, value)]
    exp = [list(r) for r in pyrows]
    for (i, j), v in zip(cells, np.asarray(newv).reshape(-1).tolist()):
        exp[i][j] = v
    CTX.tick("c03:pairs")
    a = attempt(lambda: ra.__setitem__((R, C), value))
    desc = "ra[%s, %s] = %s on rows of lengths %s" % (short(R, 70), short(C, 70), short(value, 70), lens)
    if not a.ok:
        return violated("%s raised %s: %s (the same index is accepted for reading)" % (desc, type(a.exc).__name__, a.exc), tags, got=repr(a))
    for x, b4 in zip((R, C, value), before):
        if b4 is not None and not np.array_equal(x, b4):
            return violated("%s modified an argument: %s -> %s" % (desc, short(b4), short(x)), tags + ["argument-mutated"])
    got = peek(ra)
    if got != exp:
        return violated("%s leaves %s, cell by cell it must be %s" % (desc, short(got, 220), short(exp, 220)), tags, got=got, expected=exp)
    if np.asarray(ra.lengths).tolist() != list(lens):
        return violated("%s changed the row lengths" % desc, tags)
    if parent is not None and recv.startswith("lazy") is False and peek(parent) != parent_before:
        return violated("%s changed the array the receiver was derived from" % desc, tags + ["parent-touched"])
    return held(tags, len(lens) >= 2 and k >= 2)


def run_selfflat(case):
    """ra[index] = a window of ra's own flat view (ra.ravel()[off:off + k], as many cells as the index addresses): as in numpy the assigned
    values are what the window held when the assignment was made, also where window and target overlap"""
    lens, rs, cs, has_cs, off = case["lens"], case["rs"], case["cs"], case["has_cs"], case["off"]
    recv = case.get("recv", "fresh")
    tags = ["vk:selfflat", model.describe_selector(rs), model.describe_cols(cs, has_cs), "recv:" + recv] + gen.empty_placement(lens)
    try:
        kind, cells = model.select_cells(lens, rs, cs, has_cs)
    except model.Refused:
        return undefined("index not accepted for reading", tags)
    flatcells = model.flat_cells(kind, cells)
    k = len(flatcells)
    tot = sum(lens)
    if kind == "SC" or len(set(flatcells)) != k or k == 0 or off + k > tot:
        return undefined("no window of that size", tags)
    pyrows = gen.id_rows(lens)
    oldflat = [v for r in pyrows for v in r]
    flat = np.array(oldflat, dtype=np.int64)
    ra, parent = c02.build_receiver(recv, flat, lens)
    exp = [list(r) for r in pyrows]
    for n_, (i, j) in enumerate(flatcells):
        exp[i][j] = oldflat[off + n_]
    if k >= 100000:
        tags.append("selfflat:big")
    CTX.tick("c03:selfflat")
    idx = model.make_index(rs, cs, has_cs)
    a = attempt(lambda: ra.__setitem__(idx, ra.ravel()[off:off + k]))
    desc = "ra[%s] = ra.ravel()[%d:%d] on %d rows of lengths %s" % (short(idx, 80), off, off + k, len(lens), short(lens, 80))
    if not a.ok:
        return violated("%s raised %s: %s" % (desc, type(a.exc).__name__, a.exc), tags, got=repr(a))
    got = peek(ra)
    if got != exp:
        bad = [(i, j) for i, (g_, e_) in enumerate(zip(got, exp)) if g_ != e_ for j in range(min(len(g_), len(e_))) if g_[j] != e_[j]][:4]
        return violated("%s: cells %s do not hold the values the window held when the assignment was made (e.g. %s instead of %s)" % (
            desc, bad, [got[i][j] for i, j in bad], [exp[i][j] for i, j in bad]), tags + ["overlap"])
    return held(tags, len(lens) >= 2 and k >= 2)


def run_tablevalue(case):
    """ra[index] = a value shaped like the selection in numpy's terms: a 2-d table (C- or Fortran-ordered) for a selection of equally long rows, a flat
    array or a plain python list with one entry per addressed cell for any selection -- cell by cell, in reading order"""
    lens, rs, cs, has_cs, form = case["lens"], case["rs"], case["cs"], case["has_cs"], case["form"]
    recv = case.get("recv", "fresh")
    tags = ["vk:" + form, model.describe_selector(rs), model.describe_cols(cs, has_cs), "recv:" + recv] + gen.empty_placement(lens)
    try:
        kind, cells = model.select_cells(lens, rs, cs, has_cs)
    except model.Refused:
        return undefined("index not accepted for reading", tags)
    flatcells = model.flat_cells(kind, cells)
    k = len(flatcells)
    if kind != "RA" or len(set(flatcells)) != k or k == 0:
        return undefined("not a ragged selection with cells", tags)
    rl_ = [len(r) for r in cells]
    newv = [700001 + 7 * i for i in range(k)]
    if form in ("table-C", "table-F"):
        if len(set(rl_)) != 1 or rl_[0] == 0 or len(rl_) < 2 or rl_[0] < 2:
            return undefined("rows of the selection are not equally long", tags)
        t_ = np.array(newv, dtype=np.int64).reshape(len(rl_), rl_[0])
        value = np.asfortranarray(t_) if form == "table-F" else t_
    elif form == "pylist":
        value = list(newv)
        if k == len(rl_) and not all(l == 1 for l in rl_):
            tags.append("pylist:as-many-cells-as-rows")
    else:
        value = np.array(newv, dtype=np.int64)
    pyrows = gen.id_rows(lens)
    flat = np.array([v for r in pyrows for v in r], dtype=np.int64)
    ra, parent = c02.build_receiver(recv, flat, lens)
    exp = [list(r) for r in pyrows]
    for n_, (i, j) in enumerate(flatcells):
        exp[i][j] = newv[n_]
    CTX.tick("c03:tablevalue")
    a = attempt(lambda: ra.__setitem__(model.make_index(rs, cs, has_cs), value))
    desc = "ra[%s] = %s %s on rows of lengths %s" % (short(model.make_index(rs, cs, has_cs), 80), form, short(value, 80), short(lens, 80))
    if not a.ok:
        return violated("%s raised %s: %s" % (desc, type(a.exc).__name__, a.exc), tags, got=repr(a))
    got = peek(ra)
    if got != exp:
        return violated("%s leaves %s, cell by cell it must be %s" % (desc, short(got, 200), short(exp, 200)), tags, got=got, expected=exp)
    return held(tags, len(lens) >= 2 and k >= 2)


def tablevalue_cases():
    for lens in ([3, 3, 3], [2, 4, 2, 4], [2, 0, 1], [1, 2, 0, 1], [3, 3]):
        for rs, cs, h in [(Ellipsis, None, False), (slice(0, 2), None, False), ([2, 0], None, False), (slice(None), slice(0, 2), True), (slice(None, None, -1), None, False), (slice(None), slice(None, None, -1), True)]:
            for form in ("table-C", "table-F", "pylist", "flat"):
                for recv in ("fresh", "lazyrows"):
                    yield {"kind": "tablevalue", "lens": lens, "rs": rs, "cs": cs, "has_cs": h, "form": form, "recv": recv}


def selfflat_cases():
    for lens in ([2, 1, 3, 0, 1], [3, 3, 3], [0, 4, 0, 2], [1, 1, 1, 1]):
        tot = sum(lens)
        for rs, cs, h in [(slice(1, None), None, False), (slice(None, -1), None, False), (slice(None), slice(1, None), True), (slice(None, None, -1), None, False), ([2, 0], None, False), (Ellipsis, None, False), (1, None, False)]:
            for off in (0, 1, 2):
                for recv in ("fresh", "lazyrows", "astype"):
                    yield {"kind": "selfflat", "lens": lens, "rs": rs, "cs": cs, "has_cs": h, "off": off, "recv": recv}
    # more than 100000 selected rows: whatever is done in pieces must still see the window as it was
    for n_ in (100010, 200005):
        lens = [(2, 1, 3, 0, 1)[i % 5] for i in range(n_)]
        for rs, off in ((slice(1, None), 0), (slice(None, -1), 1), (slice(None, None, -1), 0), (slice(2, None), 3)):
            yield {"kind": "selfflat", "lens": lens, "rs": rs, "cs": None, "has_cs": False, "off": off, "recv": "fresh"}


def pairs_cases(rng, lens_list, recvs, per=4):
    for lens in lens_list:
        for recv in recvs:
            for k in range(per):
                g = c02.gen_pairs(rng, lens)
                if g is None:
                    continue
                vks = ["scalar", "full"] + (["colvec", "rowvec"] if g[2] in ("outer", "2d") else (["rowvec"] if np.asarray(g[1]).ndim >= 1 else []))
                yield {"kind": "pairs", "lens": list(lens), "R": g[0], "C": g[1], "form": g[2], "recv": recv, "vk": vks[k % len(vks)]}


def run(case):
    if case.get("kind") == "pairs":
        return run_pairs(case)
    if case.get("kind") == "selfflat":
        return run_selfflat(case)
    if case.get("kind") == "tablevalue":
        return run_tablevalue(case)
    if "seq" in case:
        return run_seq(case)
    if "mask" in case:
        return run_mask(case)
    lib = CTX.lib
    RA = lib.RaggedArray
    lens, rs, cs, has_cs, vk = case["lens"], case["rs"], case["cs"], case["has_cs"], case["vk"]
    dt = np.dtype(case.get("dtype", "int64"))
    recv = case.get("recv", "fresh")
    hostile = case.get("hostile", False)
    val = (lambda k: float(np.array(HOSTILE[k % len(HOSTILE)], dtype=dt))) if hostile else (lambda k: BASE + k)
    if hostile and case.get("zeros_only"):
        val = lambda k: (-0.0, 0.0, 0.0, -0.0, -0.0)[(k + 1) % 5]
    tags = ["vk:" + vk, model.describe_selector(rs), model.describe_cols(cs, has_cs), "recv:" + recv, "values:" + ("hostile-floats" if hostile else "ids")] + gen.empty_placement(lens)
    # the value operand may come in another element type than the target (numpy casts on assignment); only types that hold the ids exactly
    vdt = np.dtype(case["valdtype"]) if (case.get("valdtype") and not hostile) else dt
    if vdt != dt:
        tags.append("valdtype:other")
        if vdt.kind in "Og":
            tags.append("valdtype:exotic")
    if not ids_fit(lens, dt):
        return undefined("the harness's cell ids are not exactly representable in %s for %d rows" % (dt, len(lens)), tags)
    try:
        kind, cells = model.select_cells(lens, rs, cs, has_cs)
    except model.Refused:
        return undefined("index not accepted for reading", tags)
    flatcells = model.flat_cells(kind, cells)
    if len(set(flatcells)) != len(flatcells):
        if vk != "scalar" or case.get("scarrier") or hostile:
            return undefined("repeating rows", tags)
        tags.append("rows-repeat")          # one scalar for cells that are named more than once: they get it, every other cell keeps its own
    nsel = len(cells) if kind == "RA" else 1
    if not applicable(kind, vk, nsel):
        return undefined("value kind %s not applicable to a %s selection" % (vk, kind), tags)
    if kind == "RA" and any(len(r) == 0 for r in cells):
        tags.append("sel-has-empty-row")
    OFF = case.get("idoffset", 0) if dt in (np.dtype("int64"), np.dtype("uint64")) else 0       # cell ids far beyond 2**53: a detour of the untouched cells through doubles would show
    if OFF and not ids_fit(lens, dt, OFF + BASE + sum(lens) + 10):
        OFF = 2 ** 53 if ids_fit(lens, dt, 2 ** 53 + BASE + sum(lens) + 10) else 0          # (so many rows that the offset ids would leave the element type)
    if OFF:
        tags.append("ids:beyond-2**53")
    pyrows = gen.id_rows(lens, base=OFF)
    exp = [list(r) for r in pyrows]
    ncell = len(flatcells)
    must_refuse = False
    value_ra = None
    if vk == "augmented":
        value = None        # ra[idx] += 5  (a read of the selection followed by a write of the result)
        for (i, j) in flatcells:
            exp[i][j] = pyrows[i][j] + 5
    elif vk == "scalar":
        value = dt.type(val(0))
        if len(lens) % 2:
            value = val(0)   # plain python number
        sc_ = case.get("scarrier")
        if sc_ and not hostile:
            # the same number carried by another scalar type (a python float, a numpy float / integer scalar): it is converted to the element type on assignment
            value = {"pyfloat": float, "f64": np.float64, "f32": np.float32, "i32": np.int32, "u64": np.uint64, "pyint": int}[sc_](val(0))
            tags.append("scalar:" + sc_)
        for (i, j) in flatcells:
            exp[i][j] = val(0)
    elif vk in ("flatlist", "collist") and case.get("biglist") and dt in (np.dtype("int64"), np.dtype("uint64")) and not hostile:
        # python lists that mix exact integers beyond 2**53 with a python float: every entry is converted to the (integer) element type on its own
        tags.append("list:big-ints-and-a-float")
        nval = ncell if vk == "flatlist" else nsel
        vals = [2 ** 53 + 1 + 2 * k if k % 2 else 2 ** 62 + 3 + k for k in range(nval)]
        value = list(vals)
        if nval > 1:
            value[0] = 2.0
            vals[0] = 2
        if vk == "flatlist":
            for k, (i, j) in enumerate(flatcells):
                exp[i][j] = vals[k]
        else:
            value = [[c] for c in value]
            for k, r in enumerate(cells):
                for (i, j) in r:
                    exp[i][j] = vals[k]
    elif vk in ("flat", "flatlist"):
        vals = [val(k) for k in range(ncell)]
        value = np.array(vals, dtype=vdt) if vk == "flat" else list(vals)
        for k, (i, j) in enumerate(flatcells):
            exp[i][j] = vals[k]
    elif vk in ("colvec", "collist"):
        col = [val(k) for k in range(nsel)]
        value = np.array(col, dtype=vdt).reshape(nsel, 1) if vk == "colvec" else [[c] for c in col]
        for k, r in enumerate(cells):
            for (i, j) in r:
                exp[i][j] = col[k]
    elif vk == "selfsel":
        # the value is itself a (not yet materialised) selection of the TARGET: ra[1:] = ra[:-1].  As in numpy, the value is what the
        # source region held before the assignment started, also where source and target overlap
        rs2, cs2, h2 = case["src"]
        try:
            kind2, cells2 = model.select_cells(lens, rs2, cs2, h2)
        except model.Refused:
            return undefined("source selection refused", tags)
        if kind2 != "RA" or kind != "RA":
            return undefined("source or target is not a ragged selection", tags)
        value = None
        der_ = case.get("derive")           # the value is COMPUTED from the receiver (ra * 10, ra + 100, zeros_like(ra) + 7): it carries the receiver's own geometry object
        fder_ = {None: (lambda x_: x_), "times10": (lambda x_: x_ * 10), "plus100": (lambda x_: x_ + 100), "zeros7": (lambda x_: 7)}[der_]
        if der_:
            tags.append("value-derived-from-receiver")
        if [len(r) for r in cells2] != [len(r) for r in cells]:
            # same cells in another arrangement of rows (or other rows altogether): the row lengths differ, the value is refused
            must_refuse = True
            vlens, sel_lens = [len(r) for r in cells2], [len(r) for r in cells]
            tags.append("selfsel:mismatch")
        else:
            src_flat = model.flat_cells(kind2, cells2)
            tags.append("overlap" if set(src_flat) & set(flatcells) else "disjoint")
            for (i, j), (i2, j2) in zip(flatcells, src_flat):
                exp[i][j] = fder_(pyrows[i2][j2])
    else:
        sel_lens = [len(r) for r in cells]
        if vk == "ragged":
            vlens = sel_lens
        else:
            vlens = bad_rows_of(sel_lens, vk)
            if vlens is None:
                return undefined("no mismatching value of that kind exists", tags)
            must_refuse = True
        vals = [val(k) for k in range(sum(vlens))]
        value_ra = value = RA(np.array(vals, dtype=(vdt if vdt.kind not in "Og" else dt)), list(vlens))
        value_before = peek(value_ra)
        if not must_refuse:
            for k, (i, j) in enumerate(flatcells):
                exp[i][j] = vals[k]

    flat = np.array([v for r in pyrows for v in r], dtype=dt)
    ra, parent = c02.build_receiver(recv, flat, lens)
    alias = ra[...] if parent is None else None   # taking the alias would materialise a lazy receiver
    parent_before = peek(parent) if parent is not None else None
    by_rows = gen.id_rows(lens, base=OFF + 500000)
    bystander = RA(np.array([v for r in by_rows for v in r], dtype=dt), list(lens))
    ellpad = case.get("ellpad", 0) if (has_cs and rs is not Ellipsis) else 0
    idx = model.make_index(rs, cs, has_cs, ellpad=ellpad)
    if ellpad:
        tags.append("ellipsis-padded")

    if vk == "augmented":
        def aug():
            ra[idx] += dt.type(5)
        out = attempt(aug)
    elif vk == "selfsel":
        idx2 = model.make_index(*case["src"])
        if case["src"][0] is Ellipsis and not case["src"][2] and case.get("value_is_receiver"):
            value = "ra"                                # the receiver object itself is the value (ra[:, ::-1] = ra)
            tags.append("value-is-receiver")
            out = attempt(lambda: ra.__setitem__(idx, ra))
        elif case.get("derive"):
            value = "%s of ra[%s]" % (case["derive"], short(idx2))
            fl_ = {"times10": (lambda x_: x_ * dt.type(10)), "plus100": (lambda x_: x_ + dt.type(100)), "zeros7": (lambda x_: np.zeros_like(x_) + dt.type(7))}[case["derive"]]
            vobj = attempt(lambda: fl_(ra)[idx2] if case["src"][0] is not Ellipsis else fl_(ra))
            if not vobj.ok:
                return undefined("the derived value could not be computed", tags)
            out = attempt(lambda: ra.__setitem__(idx, vobj.value))
        else:
            value = "ra[%s]" % short(idx2)
            out = attempt(lambda: ra.__setitem__(idx, ra[idx2]))
    else:
        out = attempt(lambda: ra.__setitem__(idx, value))
    after = attempt(peek, ra)
    if not after.ok:
        return violated("target unreadable after ra[%s] = %s: %r" % (short(idx), short(value), after), tags)
    after = after.value
    nontrivial = len(lens) >= 2 and (ncell >= 1 or must_refuse)
    if must_refuse and recv == "unsafe":
        return undefined("refusals are switched off for this receiver (safe_mode=False)", tags)
    if must_refuse:
        CTX.tick("c03:must-refuse")
        if out.ok:
            return violated("a ragged value with row lengths %s was accepted for a selection with row lengths %s (ra[%s] on lengths %s); target now %s" % (
                vlens, sel_lens, short(idx), lens, short(after, 200)), tags, got=after, expected="refusal")
        if not lists_same(after, pyrows):
            # "refused" means the assignment did not take place: a refusal that has already written some cells is a partial assignment
            return violated("the mismatching ragged value (row lengths %s for a selection with row lengths %s) was refused with %s, but the target was changed first: %s, was %s" % (
                vlens, sel_lens, type(out.exc).__name__, short(after, 200), short(pyrows, 200)), tags + ["refused-but-mutated"], got=after, expected=pyrows)
        if len(ra) != len(lens) or np.asarray(ra.lengths).tolist() != list(lens):
            return violated("a refused assignment changed the row structure: lengths %s -> %s" % (lens, np.asarray(ra.lengths).tolist()), tags + ["refused-but-mutated"])
        # the array is still fully usable: the matching value is accepted right afterwards
        good = RA(np.array([val(k) for k in range(sum(sel_lens))], dtype=dt), list(sel_lens))
        again = attempt(lambda: ra.__setitem__(idx, good))
        exp2 = [list(r) for r in pyrows]
        for k, (i, j) in enumerate(flatcells):
            exp2[i][j] = val(k)
        if not again.ok or not lists_same(peek(ra), exp2):
            return violated("after the refused assignment ra[%s] = <mismatching>, the matching assignment %s" % (short(idx), ("raised %r" % (again,)) if not again.ok else "gives %s, expected %s" % (short(peek(ra), 200), short(exp2, 200))),
                            tags + ["unusable-after-refusal"])
        return held(tags, nontrivial)
    CTX.tick("c03:footprint", ncell > 0)
    if not out.ok:
        return violated("ra[%s] = %s on rows of lengths %s raised %s: %s" % (short(idx), short(value), lens, type(out.exc).__name__, out.exc), tags, got=repr(out))
    if not lists_same(after, exp):
        changed = [(i, j) for i in range(len(exp)) if i < len(after) for j in range(min(len(exp[i]), len(after[i]))) if after[i][j] != pyrows[i][j]]
        addressed = set(flatcells)
        stray = [c for c in changed if c not in addressed]
        return violated("ra[%s] = %s on rows of lengths %s: target is %s, expected %s%s" % (
            short(idx), short(value), lens, short(after, 240), short(exp, 240), ("; cells outside the addressed ones were written: %s" % stray[:6]) if stray else ""),
            tags + (["stray-write"] if stray else []), got=after, expected=exp)
    if hostile and dt.kind == "f":
        # zeros keep their sign (a column made only of zeros of both signs is not a constant column)
        import math
        za = [math.copysign(1.0, x) for r in after for x in r if x == 0]
        ze = [math.copysign(1.0, x) for r in exp for x in r if x == 0]
        if za != ze:
            return violated("ra[%s] = %s on rows of lengths %s: the zeros of the target have signs %s, the assigned zeros have signs %s" % (short(idx), short(value), lens, short(za, 80), short(ze, 80)),
                            tags + ["sign-of-zero"], got=after, expected=exp)
    CTX.tick("c03:bystander")
    if peek(bystander) != by_rows:
        return violated("ra[%s] = ... changed an unrelated array" % short(idx), tags + ["bystander-changed"])
    if alias is not None:
        CTX.tick("c03:alias")
        if not lists_same(peek(alias), exp):
            return violated("after ra[%s] = ..., the alias ra[...] reads %s but ra reads %s" % (short(idx), short(peek(alias), 200), short(after, 200)), tags + ["alias-diverged"])
    else:
        CTX.tick("c03:parent-untouched")
        if peek(parent) != parent_before:
            return violated("assigning into a selection (%s) changed the array it was selected from: %s -> %s" % (recv, short(parent_before, 160), short(peek(parent), 160)), tags + ["parent-changed"])
    if value_ra is not None and not lists_same(peek(value_ra), value_before):
        return violated("the value operand was modified by the assignment", tags + ["value-mutated"])
    if len(ra) != len(lens) or np.asarray(ra.lengths).tolist() != list(lens):
        return violated("row structure changed by assignment: lengths %s -> %s" % (lens, np.asarray(ra.lengths).tolist()), tags)
    return held(tags, nontrivial)


def run_mask(case):
    RA = CTX.lib.RaggedArray
    lens, vk = case["lens"], case["vk"]
    dt = np.dtype(case.get("dtype", "int64"))
    if not ids_fit(case["lens"], dt):
        return undefined("the harness's cell ids are not exactly representable in %s for %d rows" % (dt, len(case["lens"])), ["ids-do-not-fit"])
    m = np.array(case["mask"], dtype=bool)
    tags = ["mask:" + vk] + gen.empty_placement(lens)
    OFF = case.get("idoffset", 0) if dt in (np.dtype("int64"), np.dtype("uint64")) else 0
    if OFF and not ids_fit(lens, dt, OFF + BASE + sum(lens) + 10):
        OFF = 2 ** 53 if ids_fit(lens, dt, 2 ** 53 + BASE + sum(lens) + 10) else 0
    pyrows = gen.id_rows(lens, base=OFF)
    cells = [(i, j) for i in range(len(lens)) for j in range(lens[i])]
    hit = [c for c, b in zip(cells, m.tolist()) if b]
    exp = [list(r) for r in pyrows]
    if OFF:
        tags.append("ids:beyond-2**53")
    if vk == "scalar":
        value = BASE
        sc_ = case.get("scarrier")
        if sc_:
            value = {"pyfloat": float, "f64": np.float64, "f32": np.float32, "i32": np.int32, "u64": np.uint64, "pyint": int}[sc_](BASE)
            tags.append("scalar:" + sc_)
        for (i, j) in hit:
            exp[i][j] = BASE
    else:
        vals = [BASE + k for k in range(len(hit))]
        value = np.array(vals, dtype=dt)
        for k, (i, j) in enumerate(hit):
            exp[i][j] = vals[k]
    ra = RA(np.array([v for r in pyrows for v in r], dtype=dt), list(lens))
    # the mask may itself be derived: an unmaterialised selection of a larger boolean array, the result of a ufunc, a copy, ... (case["maskrecv"])
    mrecv = case.get("maskrecv", "fresh")
    mask, mask_parent = c02.build_receiver(mrecv, m.copy(), list(lens))
    tags = tags + ["maskrecv:" + mrecv]
    by_rows = gen.id_rows(lens, base=OFF + 500000)
    bystander = RA(np.array([v for r in by_rows for v in r], dtype=dt), list(lens))
    CTX.tick("c03:footprint", len(hit) > 0)
    out = attempt(lambda: ra.__setitem__(mask, value))
    if not out.ok:
        return violated("ra[mask] = %s with mask %s raised %r" % (short(value), short(peek(mask), 120), out), tags)
    after = peek(ra)
    if after != exp:
        return violated("ra[mask] = %s with mask %s: target is %s, expected %s" % (short(value), short(peek(mask), 120), short(after, 200), short(exp, 200)), tags, got=after, expected=exp)
    if peek(bystander) != by_rows or peek(mask) != [r.tolist() for r in gen.split_rows(m, lens)]:
        return violated("mask assignment changed another array", tags)
    return held(tags, len(lens) >= 2 and len(hit) >= 1)


# ----------------------------------------------------------------------------- workloads

def signed_zero_cases():
    """values that consist only of zeros of both signs (column vectors, flat rows, ragged values, scalars): every cell gets ITS zero"""
    for lens in ([2, 3, 1, 2], [1, 1, 1], [3, 0, 2]):
        for vk in ("colvec", "collist", "flat", "ragged", "scalar", "flatlist"):
            for dtype in ("float64", "float32"):
                for rs in (slice(None), [len(lens) - 1, 0], slice(None, None, -1)):
                    yield dict(mk_case(lens, rs, None, False, vk, dtype, "fresh", hostile=True), zeros_only=True)
                    yield dict(mk_case(lens, rs, slice(None, None, -1), True, vk, dtype, "lazyrows", hostile=True), zeros_only=True)


def longrow_cases():
    """assignments into a few rows of thousands / millions of cells through every kind of column slice (see c02.longrow_cases)"""
    for lens in c02.LONGROW_SHAPES:
        n = len(lens)
        big = max(lens) > 100000
        for ci, cs in enumerate(c02.LONGROW_COLS):
            for ri, rs in enumerate((slice(None), [n - 1, 0], 0)):
                for vi, vk in enumerate(("scalar", "flat", "colvec", "ragged")):
                    if rs == 0 and vk in ("colvec", "ragged"):
                        continue
                    if big and (ci + ri + vi) % 3:
                        continue
                    yield mk_case(lens, rs, cs, True, vk, "int64" if (ci + vi) % 2 else "float64")
                    if not big and (ci + ri + vi) % 4 == 0:
                        yield mk_case(lens, rs, cs, True, vk, "int64", ("lazyrows", "lazycols+2", "lazychain", "ufunc")[(ci + ri) % 4])


def directed():
    for c in longrow_cases():
        yield c
    for c in signed_zero_cases():
        yield c
    writable = [r_ for r_ in c02.RECVS[1:] if r_ != "readonly"]
    q = 0
    for c in _directed():
        yield c
        if "mask" not in c:
            q += 1
            yield dict(c, recv=writable[q % len(writable)])
            if c["vk"] in ("scalar", "flat", "colvec", "collist", "ragged", "flatlist"):
                yield dict(c, dtype="float64", hostile=True)
                yield dict(c, dtype="float32", hostile=True, recv=writable[(q + 5) % len(writable)])
    # rectangular contents (all rows equally long) on receivers built from / converted to a 2-D numpy array, hostile float values
    for recv in ("fromnumpy", "tonumpy-called", "fresh"):
        for lens in ([3, 3, 3], [1, 1], [2, 2, 2, 2]):
            for rs, cs, h in [(Ellipsis, None, False), (slice(None), None, False), ([2, 0], None, False) if len(lens) > 2 else ([1, 0], None, False), (slice(None), slice(0, 1), True), (Ellipsis, slice(None, None, -1), True)]:
                for vk in ("colvec", "collist", "scalar", "ragged", "flat"):
                    for dtype in ("float64", "float32"):
                        yield mk_case(lens, rs, cs, h, vk, dtype, recv, hostile=True)
    # more than 100000 selected rows, with gaps and empty rows among them (any chunked index construction must agree with the plain one)
    import random
    rng = random.Random(303)
    # cells addressed by two integer index arrays (pairs, outer products, matrices)
    for c in pairs_cases(random.Random(3033), ([3, 2, 4, 1, 2], [2, 0, 3], [1, 1, 1], [4], [0, 5, 0, 2], [3, 3, 3], [2, 5, 2, 5]), ("fresh", "lazyrows", "lazycols+2", "lazychain", "fromnumpy", "astype"), per=8):
        yield c
    for c in selfflat_cases():
        yield c
    for c in tablevalue_cases():
        yield c
    # one scalar through row lists that name a row more than once (ascending, descending, as lists and as arrays, also with a column selector)
    import itertools
    for lens_ in ([2, 3, 3, 1, 2], [1, 1, 1, 1], [4, 2, 2, 4, 0, 4]):
        for rs_ in itertools.combinations_with_replacement(range(len(lens_)), 3):
            if len(set(rs_)) == 3:
                continue
            for form_ in (list(rs_), np.array(rs_[::-1]), [r_ - len(lens_) for r_ in rs_]):
                yield mk_case(lens_, form_, None, False, "scalar")
            yield mk_case(lens_, list(rs_), slice(0, 1), True, "scalar", recv="lazyrows")
    for k in range(40):
        yield gen_seq(rng, "quick", nsteps=[5, 12, 50, 60][k % 4])
    for k in range(150):
        yield gen_selfsel(rng, "quick")
    # consecutive writes through long index arrays (more than 1000 entries) that agree in their first and last entries and differ in between
    for nrows in (1300, 2500):
        ll = [(i * 5) % 3 + 1 for i in range(nrows)]
        a1 = [0, 1, 2] + list(range(10, 1104)) + [nrows - 3, nrows - 2, nrows - 1]
        a2 = [0, 1, 2] + list(range(110, 1204)) + [nrows - 3, nrows - 2, nrows - 1]
        if len(set(a2)) == len(a2):
            m1 = [i % 3 != 1 for i in range(nrows)]
            m2 = m1[:3] + [i % 4 != 1 for i in range(3, nrows - 3)] + m1[-3:]
            yield {"seq": True, "lens": ll, "dtype": "int64", "recv": "fresh", "steps": [
                {"rs": np.array(a1), "cs": None, "has_cs": False, "vk": "scalar"}, {"rs": np.array(a2), "cs": None, "has_cs": False, "vk": "scalar"},
                {"rs": np.array(m1), "cs": None, "has_cs": False, "vk": "scalar"}, {"rs": np.array(m2), "cs": None, "has_cs": False, "vk": "ragged"},
                {"rs": np.array(a1), "cs": slice(0, 1), "has_cs": True, "vk": "colvec"}, {"rs": np.array(a2), "cs": slice(0, 1), "has_cs": True, "vk": "scalar"}]}
    hl = [(i * 7) % 3 for i in range(130001)]
    yield mk_case(hl, slice(None, None, 2), None, False, "scalar")
    yield mk_case(hl, slice(3, None, 1), slice(None, None, -1), True, "colvec")
    yield mk_case(hl, np.array([i % 5 != 2 for i in range(130001)]), None, False, "scalar")
    yield mk_case(hl, np.arange(1, 130001, 1)[::-1].copy(), None, False, "ragged")


def _directed():
    L = [3, 1, 0, 2, 4]
    sels = [(1, None, False), (-1, None, False), (slice(1, 4), None, False), (slice(None, None, 2), None, False), (slice(None, None, -1), None, False),
            ([4, 0, 2], None, False), ([-1, 1], None, False), (np.array([True, False, True, True, False]), None, False), (Ellipsis, None, False),
            (0, 2, True), (0, -3, True), (3, -1, True), ([0, 3, 4], 1, True), ([0, 3, 4], -2, True), (slice(3, None), 0, True),
            (slice(None), slice(1, None), True), (slice(None), slice(None, None, -1), True), (slice(None), slice(None, None, 2), True),
            ([4, 2, 0], slice(-2, None), True), ([4, 2, 0], slice(None, None, -2), True), (Ellipsis, slice(0, 2), True), (Ellipsis, slice(2, None, -1), True),
            (3, slice(None, None, -1), True), (2, slice(None), True), (slice(None, None, -2), slice(1, 9, 2), True), ([], None, False), (slice(0, 0), slice(None), True)]
    for rs, cs, h in sels:
        for vk in VK:
            yield mk_case(L, rs, cs, h, vk)
    for lens in [[], [0], [0, 0, 0], [0, 2, 3], [2, 3, 0], [2, 0, 0, 3], [5], [1, 1, 1]]:
        for rs in [slice(None), slice(None, None, -1), Ellipsis]:
            for cs, h in [(None, False), (slice(None, None, -1), True), (slice(1, None), True)]:
                for vk in ["scalar", "colvec", "ragged", "bad_total", "bad_rows", "bad_same_total"]:
                    yield mk_case(lens, rs, cs, h, vk)
    for dtype in ["float64", "int32"]:
        yield mk_case(L, slice(None), slice(None, None, -1), True, "colvec", dtype)
        yield mk_case(L, [3, 0], None, False, "ragged", dtype)
        yield mk_case(L, 4, None, False, "flat", dtype)
    # README forms
    for lens_ in ([1, 1, 1], [1, 1], [0, 0, 0], [1, 2, 1, 1]):
        yield mk_case(lens_, slice(None), None, False, "bad_onerow")
        yield mk_case(lens_, [0, 2] if len(lens_) > 2 else [0, 1], slice(0, 1), True, "bad_onerow")
        yield mk_case(lens_, slice(0, 0), None, False, "bad_onerow")
    yield mk_case([2, 3, 1], 0, None, False, "flatlist")
    yield mk_case([2, 3, 1, 0], slice(1, 3), None, False, "collist")
    for lens, mask in [([3, 1, 0, 2], [1, 0, 1, 1, 0, 1]), ([3, 1, 0, 2], [0] * 6), ([3, 1, 0, 2], [1] * 6), ([0, 0], []), ([], []), ([0, 4, 0], [0, 1, 1, 0])]:
        for vk in ("scalar", "flat"):
            yield mk_mask_case(lens, mask, vk)
            for mr in MASK_RECVS:
                yield dict(mk_mask_case(lens, mask, vk), maskrecv=mr)


def sweep(tier):
    """the clamping sweep of C02, each swept index followed by a scalar / column write"""
    import itertools
    bounds = [None, -4, -2, -1, 0, 1, 2, 4] if tier == "quick" else [None] + list(range(-5, 6))
    steps = [1, 2, -1, -2] if tier == "quick" else [1, 2, 3, -1, -2, -3]
    shapes = [list(s) for n in range(1, 3 if tier == "quick" else 4) for s in itertools.product(range(4), repeat=n)]
    for lens in shapes:
        n = len(lens)
        for a in bounds:
            for b in bounds:
                for st in steps:
                    cs = slice(a, b, st)
                    yield mk_case(lens, slice(None), cs, True, "scalar")
                    yield mk_case(lens, slice(None, None, -1), cs, True, "colvec")
                    if tier != "quick":
                        yield mk_case(lens, list(range(n)), cs, True, "ragged")


def gen_selfsel(rng, tier):
    """target and source are selections of the same array with the same row lengths (rectangular arrays make that easy)"""
    n = rng.randint(2, 6)
    k = rng.randint(1, 4)
    lens = [k] * n
    m = rng.randint(1, n - 1)
    a, b = rng.randint(0, n - m), rng.randint(0, n - m)
    forms = [((slice(a, a + m), None, False), (slice(b, b + m), None, False)),
             ((slice(a, a + m), None, False), (slice(b + m - 1, b - 1 if b else None, -1), None, False)),
             ((list(range(a, a + m)), None, False), (list(range(b, b + m))[::-1], None, False)),
             ((slice(None), slice(1, None), True), (slice(None), slice(None, -1), True)),
             ((slice(None), slice(None, -1), True), (slice(None), slice(1, None), True)),
             ((slice(None), slice(None), True), (slice(None, None, -1), slice(None, None, -1), True)),
             ((Ellipsis, None, False), (slice(None, None, -1), None, False))]
    tgt, src = rng.choice(forms)
    isrecv = False
    if rng.random() < 0.3:
        # the whole receiver as the value of a non-identity target of the same shape
        tgt, src, isrecv = rng.choice([(slice(None), slice(None, None, -1), True), (slice(None, None, -1), None, False), (list(range(n))[::-1], None, False), (slice(None, None, -1), slice(None, None, -1), True)]), (Ellipsis, None, False), True
    if rng.random() < 0.35:
        # rows of different lengths: the receiver, or something computed from it, as the value of a target that holds all its cells in another row order
        # (accepted only where the rows line up again -- palindromic lengths -- and refused otherwise)
        lens = [rng.randint(0, 4) for _ in range(n)]
        if rng.random() < 0.3:
            lens = lens[:n // 2] + lens[:(n + 1) // 2][::-1]
        perm = list(range(len(lens)))
        rng.shuffle(perm)
        tgt = rng.choice([(slice(None, None, -1), None, False), (perm, None, False), (slice(None), None, False), (Ellipsis, None, False)])
        src, isrecv = (Ellipsis, None, False), rng.random() < 0.3
    c = mk_case(lens, tgt[0], tgt[1], tgt[2], "selfsel", rng.choice(["int64", "float64", "int32"]), rng.choice(["fresh", "fresh", "fromnumpy", "ufunc", "pickle"]))
    c["src"] = list(src)
    if isrecv:
        c["value_is_receiver"] = True
    elif rng.random() < 0.5:
        c["derive"] = rng.choice(["times10", "plus100", "zeros7"])
    return c


def random_case(rng, tier, lens=None, plain=False):
    if not plain and rng.random() < 0.03:
        return gen_seq(rng, tier)
    if not plain and rng.random() < 0.04:
        return gen_selfsel(rng, tier)
    if not plain and lens is None and rng.random() < 0.04:
        L_, _ = gen.length_vector(rng, tier)
        for c_ in pairs_cases(rng, [L_], [rng.choice([r_ for r_ in c02.RECVS if r_ != "readonly"]) if rng.random() < 0.3 else "fresh"], per=1):
            return c_
    if lens is None:
        lens, _ = gen.length_vector(rng, tier)
    n = len(lens)
    dtype = rng.choice(["int64", "int64", "int32", "float64", "float64", "float32"])
    if dtype == "float32" and not ids_fit(lens, dtype):
        dtype = "float64"       # the cell ids (1000 * row + column + 1) of this many rows are not exactly representable in float32
    if not plain and rng.random() < 0.12:
        p = rng.choice([0.0, 0.3, 0.6, 1.0])
        c = mk_mask_case(lens, [rng.random() < p for _ in range(sum(lens))], rng.choice(["scalar", "flat"]), dtype)
        if rng.random() < 0.5:
            c["maskrecv"] = rng.choice(MASK_RECVS)
        if rng.random() < 0.4:
            c["scarrier"] = rng.choice(SCARRIERS)
        if rng.random() < 0.4:
            c["dtype"] = rng.choice(["int64", "uint64"])
            c["idoffset"] = rng.choice([2 ** 53, 2 ** 62, 2 ** 63 - 10 ** 7])
        return c
    for _ in range(20):
        rs = c02.random_selector(rng, n, allow_oob=False)
        is_list = isinstance(rs, (list, np.ndarray)) and not (isinstance(rs, np.ndarray) and rs.dtype == bool) and not (isinstance(rs, list) and rs and isinstance(rs[0], bool))
        if is_list and n and len({int(i) % n for i in np.asarray(rs).reshape(-1).tolist()}) == len(np.asarray(rs).reshape(-1)):
            is_list = False        # already non-repeating (e.g. a block of consecutive rows with the interior permuted): keep it
        if is_list:
            # non-repeating rows
            idxs = rng.sample(range(n), rng.randint(0, n)) if n else []
            rs = [i if rng.random() < 0.5 else i - n for i in idxs]
            if rng.random() < 0.3:
                rs = np.array(rs, dtype=np.int64)
        if isinstance(rs, np.ndarray) and rs.ndim == 0:
            rs = int(rs)
        ck = rng.choice(["none", "none", "int", "slice", "slice"])
        maxl = max(lens) if lens else 0
        if ck == "none":
            cs, h = None, False
        elif ck == "int":
            cs, h = rng.randint(-maxl, max(0, maxl - 1)), True
        else:
            cs, h = gen.gen_slice(rng, maxl, far=True), True
        try:
            kind, cells = model.select_cells(lens, rs, cs, h)
        except model.Refused:
            continue
        nsel = len(cells) if kind == "RA" else 1
        vks = [v for v in VK if applicable(kind, v, nsel)]
        recv = rng.choice([r_ for r_ in c02.RECVS if r_ != "readonly"]) if rng.random() < 0.4 else "fresh"
        c = dict(mk_case(lens, rs, cs, h, rng.choice(vks), dtype, recv, hostile=rng.random() < 0.5), ellpad=(rng.choice([1, 2, 3]) if rng.random() < 0.08 else 0))
        u_ = rng.random()
        if u_ < 0.15:
            c["scarrier"] = rng.choice(SCARRIERS)
        if u_ < 0.25 or (0.5 < u_ < 0.6):
            c.update(dtype=rng.choice(["int64", "uint64"]), idoffset=rng.choice([2 ** 53, 2 ** 62, 2 ** 63 - 10 ** 7]), hostile=False)
        if 0.6 < u_ < 0.75 and c["vk"] in ("flatlist", "collist"):
            c.update(dtype=rng.choice(["int64", "uint64"]), biglist=True, hostile=False)
        if rng.random() < 0.25:
            c["valdtype"] = rng.choice(VALDTYPES)
        return c
    return mk_case(lens, Ellipsis, None, False, "scalar", dtype)


def classify(case, res):
    if "seq" in case:
        return None
    if "mask" in case or case.get("kind") in ("pairs", "selfflat", "tablevalue"):
        return None
    return c02.classify(case, res)
