"""C16 -- arithmetic on run-length arrays equals arithmetic on the dense arrays.

Oracle: numpy on the *decoded* operands (to_array() of each operand).  The relative
alignment of the two operands' run boundaries is constructed, not hoped for."""
import numpy as np
from ..core import CTX, attempt, held, violated, undefined, same_array, short, scribble
from .. import gen, contracts, rl

PROP = "C16"
LEVEL_TEXT = 'numpy on the decoded operands, exact incl. dtype; boundary alignments constructed (identical / coincident / nested / interleaved / constant / derived-from-first) and exhaustively enumerated for lengths <=4 (quick) / <=6 (thorough); reductions incl. of derived encodings; operands unchanged. Exploration.'
LEVEL_NOTE = "trusts numpy 2.x, CPython (copy.copy, slice semantics, big ints) and the reference model in rtmon/props/c16.py; decides the executions it produces, nothing more"
TECHNIQUE = 'runtime monitoring: reference-model oracle (numpy on decoded operands) + exhaustive enumeration of boundary alignments'
DESIGN_REF = "DESIGN.md sections 0, 5 (C16), 7"
RULE = ("case = (length, boundary set A, boundary set B built as identical / coincident / nested / interleaved / constant / independent, dtypes, values, "
        "ufunc | scalar operand and side | reduction | histogram | concatenate); oracle = numpy on decoded operands; distinct = hash of the case; "
        "non-trivial = length >= 2 and at least one operand with >= 2 runs")
ASSUMPTIONS = ["chains of operations never use an empty (length 0) run-length array as an operand (the statement quantifies over arrays of length >= 1)", "reductions use values whose sums stay below 2**53 and dyadic floats; they are compared numerically (mean: rtol 1e-12, float32 1e-6)",
               "events for which numpy raises on the decoded operands are 'undefined'", "histogram: non-boolean, finite values"]
ANCHORS = ["runlengtharray.py::RunLengthArray.__array_ufunc__", "runlengtharray.py::RunLengthArray._apply_binary_func", "runlengtharray.py::RunLengthArray.sum",
           "runlengtharray.py::RunLengthArray.any", "runlengtharray.py::RunLengthArray.all", "runlengtharray.py::RunLengthArray.max", "runlengtharray.py::RunLengthArray.mean",
           "runlengtharray.py::histogram", "runlengtharray.py::concatenate", "runlengtharray.py::RunLengthArray.__array_function__"]
UNARY = ["negative", "absolute", "logical_not", "invert", "sqrt", "square", "sign", "isnan"]
BINARY = ["add", "subtract", "multiply", "true_divide", "floor_divide", "remainder", "power", "maximum", "minimum", "equal", "not_equal", "less", "less_equal",
          "greater", "greater_equal", "bitwise_and", "bitwise_or", "bitwise_xor", "left_shift", "right_shift", "logical_and", "logical_or", "logical_xor", "hypot", "gcd", "lcm", "fmod", "copysign", "logaddexp"]
ALIGN = ["identical", "coincident", "nested", "interleaved", "constA", "constB", "independent"]
REDS = ["sum", "any", "all", "max", "mean", "np.sum", "np.any", "np.all", "np.mean"]
KINDS = ["unary", "rl", "rl_derived", "inplace", "pyscalar", "npscalar", "reduce", "concat", "hist"]
FLOOR_TAGS = ["operand:subclass-R", "operand:subclass-L"] + ["k:" + k for k in KINDS] + ["align:" + a for a in ALIGN] + ["side:L", "side:R", "kind:b", "kind:i", "kind:u", "kind:f", "noncommutative"] + ["red:" + r for r in REDS] + ["via:cmp-mixed", "k:loop", "k:chain", "step:binary", "step:slice", "step:mask", "step:concat", "step:astype", "step:scalar", "step:unary"]
FLOOR_MONITORS = ["c16:compare", "c16:operands-unchanged", "c16:canonical", "inv:rla"]
FP_STRICT = True       # a floating-point event inside the library that the dense computation does not have is a violation (shard.FpMonitor)
N_RANDOM = {"quick": 36000, "thorough": 400000}
PYSCALARS = [2, 3, -1, 0, 2.5, True, False]
NONCOMM = {"subtract", "true_divide", "floor_divide", "remainder", "power", "less", "less_equal", "greater", "greater_equal", "left_shift", "right_shift"}


def setup(lib):
    contracts.attach(lib, which=("rla", "ragged"))


def from_runs(bounds, vals, L, dtype):
    """dense array: run k covers [bounds[k], bounds[k+1])"""
    b = list(bounds) + [L]
    out = np.zeros(L, dtype=dtype)
    for k in range(len(bounds)):
        out[b[k]:b[k + 1]] = vals[k]
    return out


def snapshot(r):
    return (np.asarray(r.to_array()).copy(), np.asarray(r.starts).copy(), np.asarray(r.values).copy())


def snap_same(a, b):
    return all(same_array(x, y) for x, y in zip(a, b))


_PLAIN_SUBS = {}


def _plain_subclass(RLA):
    if RLA not in _PLAIN_SUBS:
        _PLAIN_SUBS[RLA] = type("Track", (RLA,), {})
    return _PLAIN_SUBS[RLA]


def run(case):
    RLA = CTX.lib.RunLengthArray
    kind = case["kind"]
    dt = np.dtype(case["dtype"])
    v = np.array(case["vals"]).astype(dt)
    if case.get("swap") and dt.kind in "iu" and dt.itemsize > 1:
        v = v.astype(dt.newbyteorder())          # the same values in non-native byte order (what reading a big-endian file gives)
        tags_swap = ["byteswapped"]
    else:
        tags_swap = []
    L = len(v)
    tags = ["k:" + kind, "kind:" + dt.kind, "v:" + case.get("vclass", "small")] + tags_swap
    r = RLA.from_array(v.copy())
    dv = np.asarray(r.to_array())         # the decoded operand is the oracle's input (-0.0 may have merged into 0.0)
    before = snapshot(r)
    nruns = len(np.asarray(r.values))
    nontrivial = L >= 2 and nruns >= 2
    other = rw = None
    joined = False
    if kind == "unary":
        uf = getattr(np, case["uf"])
        o = attempt(uf, dv)
        a = attempt(uf, r)
        what = "%s(rla)" % case["uf"]
    elif kind == "rl":
        uf = getattr(np, case["uf"])
        w = np.array(case["vals2"]).astype(case["dtype2"])
        rw = RLA.from_array(w.copy())
        if case.get("subside"):
            # one operand is an instance of a user subclass that overrides nothing (numpy then asks the subclass operand first, whichever side it is on)
            Sub_ = _plain_subclass(RLA)
            if case["subside"] == "R":
                rw = Sub_.from_array(w.copy())
            else:
                r = Sub_.from_array(v.copy())
                before = snapshot(r)
            tags.append("operand:subclass-" + case["subside"])
        dw = np.asarray(rw.to_array())
        before2 = snapshot(rw)
        tags += ["align:" + case.get("align", "independent"), "uf:" + case["uf"]]
        if case["uf"] in NONCOMM:
            tags.append("noncommutative")
        o = attempt(uf, dv, dw)
        a = attempt(uf, r, rw)
        joined = True
        nontrivial = L >= 2 and (nruns >= 2 or len(np.asarray(rw.values)) >= 2)
        what = "%s(rla, encoded %s %s)" % (case["uf"], w.dtype, short(w, 100))
    elif kind == "rl_derived":
        # the second operand is *derived from the first one* (scalar / unary ufunc, astype): it shares the run boundaries, possibly the same array object
        uf = getattr(np, case["uf"])
        via = case["via"]
        if via == "times2":
            rw, w = (r * 2, dv * 2) if dt.kind != "b" else (np.logical_not(r), np.logical_not(dv))
        elif via == "neg":
            rw, w = (-r, -dv) if dt.kind not in "bu" else (r + 1, dv + 1) if dt.kind == "u" else (np.logical_not(r), np.logical_not(dv))
        elif via == "astype":
            rw, w = r.astype(np.float64), dv.astype(np.float64)
        else:
            rw, w = r, dv
        dw = np.asarray(rw.to_array())
        before2 = snapshot(rw)
        tags += ["via:" + via, "side:" + case["side"], "uf:" + case["uf"]]
        if case["uf"] in NONCOMM:
            tags.append("noncommutative")
        if case["side"] == "R":
            o, a = attempt(uf, dv, dw), attempt(uf, r, rw)
        else:
            o, a = attempt(uf, dw, dv), attempt(uf, rw, r)
        joined = True
        what = "%s(%s)" % (case["uf"], "rla, %s(rla)" % via if case["side"] == "R" else "%s(rla), rla" % via)
    elif kind == "inplace":
        # x op= y: afterwards the name x must hold the ufunc of the two operands (whether or not the object was updated in place)
        import operator
        iop = {"add": operator.iadd, "subtract": operator.isub, "multiply": operator.imul, "bitwise_xor": operator.ixor, "floor_divide": operator.ifloordiv}[case["uf"]]
        uf = getattr(np, case["uf"])
        if case.get("scalar") is not None:
            y, dw = case["scalar"], case["scalar"]
        else:
            w = np.array(case["vals2"]).astype(case["dtype2"])
            rw = RLA.from_array(w.copy())
            y, dw = rw, np.asarray(rw.to_array())
            before2 = snapshot(rw)
        o = attempt(uf, dv, dw)
        x = RLA.from_array(v.copy())
        a = attempt(iop, x, y)
        if a.ok and isinstance(a.value, RLA):
            # the result object must be fully usable: decode, then use it in another operation
            a2 = attempt(lambda: (a.value + 0).to_array())
            if a2.ok and o.ok and not same_array(a2.value, np.asarray(o.value), dtype=False):
                return violated("%s= on encoded %s %s: the result decodes differently when used in a further operation: %s" % (case["uf"], dt, short(v, 120), short(a2.value, 120)), tags + ["inplace-stale"])
        r = x if False else r
        what = "x %s= %s" % (case["uf"], "scalar %r" % (y,) if case.get("scalar") is not None else "encoded %s" % short(dw, 80))
    elif kind in ("pyscalar", "npscalar"):
        uf = getattr(np, case["uf"])
        s = case["scalar"] if kind == "pyscalar" else np.dtype(case["dtype2"]).type(case["scalar"])
        side = case["side"]
        tags += ["side:" + side, "uf:" + case["uf"]]
        if case["uf"] in NONCOMM:
            tags.append("noncommutative")
        if side == "R":
            o, a = attempt(uf, dv, s), attempt(uf, r, s)
        else:
            o, a = attempt(uf, s, dv), attempt(uf, s, r)
        what = "%s(%s)" % (case["uf"], "rla, %r" % (s,) if side == "R" else "%r, rla" % (s,))
    elif kind == "reduce":
        name = case["name"]
        tags.append("red:" + name)
        if name.startswith("np."):
            f = getattr(np, name[3:])
            o, a = attempt(f, dv), attempt(f, r)
        else:
            o, a = attempt(lambda: getattr(dv, name)()), attempt(lambda: getattr(r, name)())
        desc = "%s of encoded %s %s" % (name, dt, short(v, 140))
        if not o.ok:
            return undefined("numpy raises: %r" % o, tags)
        CTX.tick("c16:compare")
        if not a.ok:
            return violated("%s raised %r" % (desc, a), tags)
        g, e = np.asarray(a.value), np.asarray(o.value)
        if g.shape != e.shape:
            return violated("%s returned %s, numpy gives %s" % (desc, short(a.value), short(o.value)), tags)
        if "mean" in name and dt.kind in "iub":
            ex = sum(int(x) for x in dv.tolist()) / len(dv)
            mag = sum(abs(int(x)) for x in dv.tolist()) / len(dv)
            ok = abs(float(g) - ex) <= 1e-9 * max(1.0, mag)
        elif "mean" in name:
            wide_ = np.complex128 if "c" in (g.dtype.kind, e.dtype.kind) else np.float64
            single_ = (dt.kind == "f" and dt.itemsize <= 4) or (dt.kind == "c" and dt.itemsize <= 8)
            ok = np.allclose(g.astype(wide_), e.astype(wide_), rtol=1e-6 if single_ else 1e-12, atol=0, equal_nan=True)
        else:
            wide_ = np.complex128 if "c" in (g.dtype.kind, e.dtype.kind) else np.float64
            ok = same_array(g.astype(wide_) if g.dtype.kind != "b" else g, e.astype(wide_) if e.dtype.kind != "b" else e, dtype=False)
        if not ok:
            return violated("%s gives %s, numpy on the decoded array gives %s" % (desc, short(a.value), short(o.value)), tags, got=g, expected=e)
        CTX.tick("c16:operands-unchanged")
        if not snap_same(snapshot(r), before):
            return violated("%s modified its operand" % desc, tags)
        return held(tags, nontrivial)
    elif kind == "concat":
        mdt = case.get("moredt") or [case["dtype"]] * len(case["more"])       # the operands may differ in element type (numpy promotes all of them together)
        parts = [v] + [np.array(p).astype(d_) for p, d_ in zip(case["more"], mdt)]
        if len(set([str(dt)] + [str(np.dtype(d_)) for d_ in mdt])) > 1:
            tags.append("concat:mixed-dtypes")
        encs = [r] + [RLA.from_array(p.copy()) for p in parts[1:]]
        o = attempt(lambda: np.concatenate([np.asarray(e.to_array()) for e in encs]))
        a = attempt(lambda: np.concatenate(encs))
        what = "np.concatenate of %d encoded arrays %s" % (len(parts), short([p.tolist() for p in parts[1:]], 100))
    elif kind == "hist":
        bins = case["bins"]
        kw = {k_: (tuple(v_) if k_ == "range" else v_) for k_, v_ in (case.get("kw") or {}).items()}
        if case.get("positional") and "range" in kw:
            # numpy's signature is histogram(a, bins, range, density, weights): the same arguments passed by position
            pos = (kw["range"],) + ((kw["density"],) if "density" in kw else ())
            tags.append("hist:positional")
            o = attempt(lambda: np.histogram(dv, bins, *pos))
            a = attempt(lambda: np.histogram(r, bins, *pos))
        else:
            o = attempt(lambda: np.histogram(dv, bins, **kw))
            a = attempt(lambda: np.histogram(r, bins, **kw))
        desc = "np.histogram(encoded %s %s, bins=%s, %s)" % (dt, short(v, 120), bins, kw)
        if not o.ok:
            return undefined("numpy raises: %r" % o, tags)
        CTX.tick("c16:compare")
        if not a.ok:
            return violated("%s raised %r" % (desc, a), tags)
        try:
            ok = np.allclose(np.asarray(a.value[0], dtype=np.float64), np.asarray(o.value[0], dtype=np.float64), rtol=1e-9, atol=0, equal_nan=True) and np.allclose(a.value[1], o.value[1])
        except Exception:
            ok = False
        if not ok:
            return violated("%s gives %s, numpy on the decoded array gives %s" % (desc, short(a.value, 200), short(o.value, 200)), tags)
        return held(tags, nontrivial)
    else:
        raise ValueError(kind)

    desc = "%s on encoded %s %s" % (what, dt, short(v, 140))
    if not o.ok:
        return undefined("numpy raises on the decoded operands: %r" % o, tags)
    CTX.tick("c16:compare")
    if not a.ok:
        return violated("%s raised %s: %s" % (desc, type(a.exc).__name__, a.exc), tags, got=repr(a))
    g = a.value
    if not isinstance(g, RLA):
        return violated("%s returned a %s" % (desc, type(g).__name__), tags)
    d = attempt(g.to_array)
    if not d.ok:
        return violated("%s: result cannot be decoded: %r" % (desc, d), tags)
    exp = np.asarray(o.value)
    if exp.ndim == 0:
        exp = np.full(L, exp)
    if not same_array(d.value, exp, dtype=True) and exp.dtype.kind == "f" and kind in ("rl", "rl_derived") and d.value.shape == exp.shape:
        # numpy has two answers for some float ufuncs (power): the scalar code path and the array loop can differ in the last bit.
        # The run-length implementation applies the ufunc to run values, i.e. legitimately uses either; accept numpy's scalar-path answer too.
        alt = attempt(lambda: np.array([uf(x, y) for x, y in (zip(dv, dw) if (kind == "rl" or case.get("side") == "R") else zip(dw, dv))]).astype(exp.dtype))
        if alt.ok and alt.value.shape == exp.shape:
            pick = np.where(d.value == alt.value, alt.value, exp)
            if same_array(d.value, pick, dtype=True):
                tags.append("numpy-scalar-fastpath")
                exp = d.value
    if not same_array(d.value, exp, dtype=True):
        return violated("%s decodes to %s %s, numpy on the decoded operands gives %s %s" % (desc, d.value.dtype, short(d.value, 160), exp.dtype, short(exp, 160)), tags, got=d.value, expected=exp)
    CTX.tick("c16:canonical")
    c = rl.canonical(g, joined=joined)
    if c:
        return violated("%s is not canonical: %s" % (desc, c), tags + ["not-canonical"])
    scribble(d.value)
    scribble(dv)
    CTX.tick("c16:operands-unchanged")
    if not snap_same(snapshot(r), before) or (rw is not None and not snap_same(snapshot(rw), before2)):
        return violated("%s modified an operand" % desc, tags)
    return held(tags, nontrivial)


# ----------------------------------------------------------------------------- workloads

def run_values(rng, dtype, k, vclass):
    """k run values, adjacent ones different where the dtype allows"""
    vals = gen.values(rng, dtype, k, vclass).tolist()
    for i in range(1, k):
        tries = 0
        while vals[i] == vals[i - 1] and tries < 5:
            vals[i] = gen.values(rng, dtype, 1, vclass).tolist()[0]
            tries += 1
    return vals


def boundaries(rng, L, align):
    inner = list(range(1, L))
    pick = lambda k: sorted(rng.sample(inner, min(k, len(inner))))
    A = [0] + pick(rng.randint(0, min(5, L - 1)))
    if align == "identical":
        B = list(A)
    elif align == "coincident":
        B = sorted(set([0] + [b for b in A[1:] if rng.random() < 0.6] + pick(rng.randint(0, 2))))
    elif align == "nested":
        # all of B's boundaries inside one run of A, or B refines A
        if rng.random() < 0.5 and len(A) >= 1:
            k = rng.randrange(len(A))
            lo, hi = A[k], (A[k + 1] if k + 1 < len(A) else L)
            B = [0] + sorted(set(rng.sample(range(lo + 1, hi), min(rng.randint(0, 3), max(0, hi - lo - 1))))) if hi - lo > 1 else [0]
        else:
            B = sorted(set(A + pick(rng.randint(1, 3))))
    elif align == "interleaved":
        B = [0]
        ext = A[1:] + [L]
        prev = 0
        for b in ext:
            if b - prev >= 2:
                B.append(rng.randint(prev + 1, b - 1))
            prev = b
        B = sorted(set(B))
    elif align == "constA":
        A = [0]
        B = [0] + pick(rng.randint(1, 4))
    elif align == "constB":
        A = [0] + pick(rng.randint(1, 4))
        B = [0]
    else:
        B = [0] + pick(rng.randint(0, min(5, L - 1)))
    return A, B


def gen_case(rng, tier, kind=None, dtype=None, align=None, uf=None):
    dtype = dtype or (rng.choice(gen.DT_ALL) if rng.random() < 0.92 else rng.choice(gen.DT_EXOTIC))
    k = np.dtype(dtype).kind
    kind = kind or rng.choice(KINDS)
    maxlen = 14 if tier == "quick" else 60
    vclass = rng.choice(["small", "small", "extreme", "nonfinite", "sparse"]) if kind in ("unary", "rl", "pyscalar", "npscalar") else "small"
    if vclass == "nonfinite" and k != "f":
        vclass = "extreme"
    if kind == "rl":
        L = rng.randint(1, maxlen)
        align = align or rng.choice(ALIGN)
        A, B = boundaries(rng, L, align) if L > 1 else ([0], [0])
        dtype2 = rng.choice(gen.DT_ALL)
        v = from_runs(A, run_values(rng, dtype, len(A), vclass), L, dtype)
        w = from_runs(B, run_values(rng, dtype2, len(B), vclass if np.dtype(dtype2).kind == "f" or vclass != "nonfinite" else "extreme"), L, dtype2)
        c_ = {"kind": "rl", "dtype": dtype, "vals": v.tolist(), "dtype2": dtype2, "vals2": w.tolist(), "uf": uf or rng.choice(BINARY), "align": align, "vclass": vclass}
        if rng.random() < 0.15:
            c_["subside"] = rng.choice("LR")
        return c_
    v, style = rl.gen_runs(rng, dtype, vclass, maxlen)
    c = {"kind": kind, "dtype": dtype, "vals": v.tolist(), "vclass": vclass}
    if kind == "unary":
        c["uf"] = uf or rng.choice(UNARY)
    elif kind == "pyscalar":
        c.update(uf=uf or rng.choice(BINARY), scalar=rng.choice(PYSCALARS), side=rng.choice("LR"))
    elif kind == "npscalar":
        d2 = rng.choice(gen.DT_ALL)
        c.update(uf=uf or rng.choice(BINARY), dtype2=d2, scalar=gen.values(rng, d2, 1, "small").tolist()[0], side=rng.choice("LR"))
    elif kind == "inplace":
        c["uf"] = rng.choice(["add", "subtract", "multiply", "bitwise_xor" if k in "iub" else "add", "floor_divide"])
        c["vclass"] = "small"
        c["vals"] = rl.gen_runs(rng, dtype, "small", maxlen)[0].tolist()
        if rng.random() < 0.3:
            c["scalar"] = rng.choice([1, 2, 3])
        else:
            w, _ = rl.gen_runs(rng, dtype, "small", maxlen, length=len(c["vals"]))
            c.update(vals2=(np.asarray(w) + (1 if c["uf"] == "floor_divide" and k != "b" else 0)).tolist() if k != "b" else np.asarray(w).tolist(), dtype2=dtype)
    elif kind == "rl_derived":
        c.update(uf=uf or rng.choice(BINARY), via=rng.choice(["times2", "neg", "astype", "self"]), side=rng.choice("LR"))
    elif kind == "reduce":
        c["name"] = rng.choice(REDS)
        if ("any" in c["name"] or "all" in c["name"] or rng.random() < 0.2) and k != "b":
            c["vals"] = rl.gen_runs(rng, dtype, "sparse", maxlen)[0].tolist()
            c["vclass"] = "sparse"
        if "mean" in c["name"] and k in "iu" and rng.random() < 0.5:
            c["vals"] = rl.gen_runs(rng, dtype, "extreme", maxlen)[0].tolist()
            c["vclass"] = "extreme"
    elif kind == "concat":
        c["more"] = [rl.gen_runs(rng, dtype, "small", 6)[0].tolist() for _ in range(rng.randint(0, 3))]
        if rng.random() < 0.4 and c["more"]:
            # operands of several element types, in any order (three or more of them: the promotion of all is not the promotion pair by pair)
            c["moredt"] = [rng.choice(rl.DT_RL) for _ in c["more"]]
            c["more"] = [rl.gen_runs(rng, d_, "small", 6)[0].tolist() for d_ in c["moredt"]]
    elif kind == "hist":
        if k in "bc":
            c["dtype"] = "int64"          # (no histogram of complex numbers in numpy)
            c["vals"] = [int(x.real) if isinstance(x, complex) else int(x) for x in c["vals"]]
        c["bins"] = rng.choice([3, 10, [0, 1, 2, 5], [-100, 0, 100]])
        if rng.random() < 0.35 and np.dtype(c["dtype"]).kind in "iu":
            # consecutive integer edges that end exactly on the largest value (numpy's last bin is closed on the right), one short of it, one past it
            lo_, hi_ = int(min(c["vals"])), int(max(c["vals"]))
            if hi_ - lo_ <= 400:
                c["bins"] = list(range(lo_, hi_ + rng.choice([0, 1, 1, 2]) + 0)) if hi_ > lo_ + 1 else [lo_, lo_ + 1, lo_ + 2]
                if len(c["bins"]) < 2:
                    c["bins"] = [lo_, lo_ + 1]
        u = rng.random()
        if u < 0.3:
            c["kw"] = {"density": True}
        elif u < 0.5 and isinstance(c["bins"], int):
            lo_, hi_ = min(c["vals"]), max(c["vals"])
            c["kw"] = {"range": [float(lo_), float(lo_ + max(1, (hi_ - lo_) // 2))], "density": rng.random() < 0.5}
            c["positional"] = rng.random() < 0.5
    return c


def directed():
    import random
    rng = random.Random(1616)
    for c in _chains():
        yield c
    for k_ in range(12):
        yield {"kind": "loop", "dtype": ["int64", "float64", "uint8"][k_ % 3], "vals": [3, 3, 5, 5, 5, 1, 8, 8, 2, 2][: 6 + k_ % 5], "uf": ["subtract", "less", "add", "maximum"][k_ % 4], "side": "LR"[k_ % 2], "n": 40, "rseed": k_}
    for dtype in gen.DT_ALL:
        for kind in KINDS:
            for _ in range(4):
                yield gen_case(rng, "quick", kind, dtype)
        for name in REDS:
            c = gen_case(rng, "quick", "reduce", dtype)
            c["name"] = name
            yield c
    for align in ALIGN:
        for uf in BINARY:
            for dtype in ["int64", "uint8", "float64"]:
                yield gen_case(rng, "quick", "rl", dtype, align, uf)
    for uf in sorted(NONCOMM) + ["add", "maximum"]:
        for via in ("times2", "neg", "astype", "self"):
            for side in "LR":
                yield {"kind": "rl_derived", "dtype": "int64", "vals": [3, 3, 5, 5, 5, 1, 8], "uf": uf, "via": via, "side": side, "vclass": "small"}
    for vals, dtype in (([2 ** 62, 2 ** 62, 2 ** 62, 5], "int64"), ([2 ** 63 - 1, 7, 7], "int64"), ([-2 ** 63, -2 ** 63, 0], "int64"), ([2 ** 64 - 1, 2 ** 64 - 1, 3], "uint64")):
        for name in ("mean", "np.mean"):
            yield {"kind": "reduce", "dtype": dtype, "vals": vals, "name": name, "vclass": "extreme"}
    for a_, b_ in (([1, 2, 2, 3, 3, 3], [4, 5, 5, 5, 5, 5]), ([7, 7, 7, 7], [1, 2, 3, 4]), ([1, 2, 3, 4], [9, 9, 9, 9]), ([5, 5, 6, 6], [1, 1, 2, 2])):
        for uf_ in ("subtract", "add", "multiply", "floor_divide"):
            yield {"kind": "inplace", "dtype": "int64", "vals": a_, "dtype2": "int64", "vals2": b_, "uf": uf_, "vclass": "small"}
    # operands whose runs switch at the SAME positions between values of very different magnitude: every aligned pair is harmless,
    # a pair taken across the common boundary (new value of one, old value of the other) would overflow / be invalid
    for a_, b_, ufs in (([1e200] * 3 + [1e-200] * 2, [1e-200] * 3 + [1e200] * 2, ("multiply",)),
                        ([1e-200] * 2 + [1e200] * 4, [1e-200] * 2 + [1e200] * 4, ("true_divide", "subtract")),
                        ([float("inf")] * 2 + [1.0] * 2 + [float("inf")], [1.0] * 2 + [float("inf")] * 2 + [1.0], ("subtract", "true_divide", "multiply")),
                        ([0.0] * 3 + [float("inf")] * 2, [float("inf")] * 3 + [0.0] * 2, ("add", "maximum")),
                        ([3e38, 3e38, -3e38, -3e38, 1.0], [-3e38, -3e38, 3e38, 3e38, 1.0], ("add",))):
        for uf_ in ufs:
            for dtype_ in ("float64",) if max(abs(x) for x in a_ + b_ if x == x and abs(x) != float("inf")) > 1e39 else ("float64", "float32"):
                yield {"kind": "rl", "dtype": dtype_, "vals": a_, "dtype2": dtype_, "vals2": b_, "uf": uf_, "align": "coincident", "vclass": "extreme"}
                yield {"kind": "rl", "dtype": dtype_, "vals": b_, "dtype2": dtype_, "vals2": a_, "uf": uf_, "align": "coincident", "vclass": "extreme"}
    for kw_ in ({"density": True}, {"range": [1.0, 4.0]}, {"range": [1.0, 4.0], "density": True}, {"range": [3.0, 20.0], "density": True}):
        yield {"kind": "hist", "dtype": "int64", "vals": [1, 1, 2, 5, 5, 5, 9, 9, 3], "bins": 4, "kw": kw_, "vclass": "small"}
        if "range" in kw_:
            yield {"kind": "hist", "dtype": "int64", "vals": [1, 1, 2, 5, 5, 5, 9, 9, 3], "bins": 4, "kw": kw_, "vclass": "small", "positional": True}
        yield {"kind": "hist", "dtype": "float64", "vals": [0.5, 0.5, 2.25, 7.0, 7.0, 1.0], "bins": 3, "kw": kw_, "vclass": "small"}
    # integer steps absorbed by the other operand (an infinity, a magnitude beyond 2**53 / 2**24) with NO run boundary in common: neighbouring results are equal
    for dtA_, dtB_, big_ in (("int64", "float64", float("inf")), ("int64", "float64", 2.0 ** 60), ("int32", "float32", 2.0 ** 30), ("uint8", "float64", float("-inf")), ("float64", "int64", None)):
        for uf_ in ("add", "subtract"):
            ia_ = [1, 1, 2, 2, 3, 3, 4]
            fb_ = ([big_] * 3 + [7.0] * 4) if big_ is not None else None
            if fb_ is None:
                yield {"kind": "rl", "dtype": dtA_, "vals": [float("inf")] * 3 + [7.0] * 4, "dtype2": dtB_, "vals2": ia_, "uf": uf_, "align": "independent", "vclass": "extreme"}
            else:
                yield {"kind": "rl", "dtype": dtA_, "vals": ia_, "dtype2": dtB_, "vals2": fb_, "uf": uf_, "align": "independent", "vclass": "extreme"}
                yield {"kind": "rl", "dtype": dtB_, "vals": fb_, "dtype2": dtA_, "vals2": ia_, "uf": uf_, "align": "independent", "vclass": "extreme"}
    # constant operand on either side of a non-commutative ufunc
    for uf in sorted(NONCOMM):
        yield {"kind": "rl", "dtype": "int64", "vals": [9] * 6, "dtype2": "int64", "vals2": [0, 0, 1, 1, 1, 4], "uf": uf, "align": "constA", "vclass": "small"}
        yield {"kind": "rl", "dtype": "int64", "vals": [0, 0, 1, 1, 1, 4], "dtype2": "int64", "vals2": [9] * 6, "uf": uf, "align": "constB", "vclass": "small"}
    # any/all on encodings that carry equal neighbouring runs (results of scalar ufuncs, concatenation of equal ends) are C16 reductions of C16 results:
    for vals in ([1, 1, 2, 2, 3], [0, 0, 0], [5, 6, 7]):
        for name in ("any", "np.any", "all", "np.all", "sum", "max"):
            yield {"kind": "reduce2", "dtype": "int64", "vals": vals, "name": name, "via": "gt9"}
            yield {"kind": "reduce2", "dtype": "int64", "vals": vals, "name": name, "via": "mul0"}
            yield {"kind": "reduce2", "dtype": "int64", "vals": vals, "name": name, "via": "concat"}
            yield {"kind": "reduce2", "dtype": "int64", "vals": vals, "name": name, "via": "astype"}
    for vals, cmp_, thr in (([1, 1, 2, 2, 2, 7, 7, 3], "gt", 5), ([1, 1, 2, 2, 2, 7, 7, 3], "lt", 5), ([1, 1, 2, 2, 2, 7, 7, 3], "ne", 7), ([1, 1, 2, 2, 2, 7, 7, 3], "eq", 3),
                            ([4, 4, 4, 9], "eq", 9), ([9, 4, 4, 4], "ne", 9), ([1, 2, 3, 4, 5, 6], "ge", 6)):
        for name in ("any", "np.any", "all", "np.all", "sum", "mean", "max"):
            yield {"kind": "reduce2", "dtype": "int64", "vals": vals, "name": name, "via": "cmp", "cmp": cmp_, "thr": thr}


def _chains():
    import random
    from .. import rlprog
    rng = random.Random(1616)
    for k in range(150):
        yield rlprog.gen_chain(rng, "quick", dtype=["int64", "bool", "uint8", "float64", "int8"][k % 5])


def sweep(tier):
    """every pair of run-boundary sets of two arrays of length 1..4 (thorough: ..6) x non-commutative / merging ufuncs:
    all relative alignments of the boundaries, exhaustively"""
    import itertools
    maxL = 4 if tier == "quick" else 6
    ufs = ["subtract", "maximum", "less", "bitwise_xor"] if tier == "quick" else ["subtract", "maximum", "less", "bitwise_xor", "floor_divide", "equal", "add"]
    for L in range(1, maxL + 1):
        inner = list(range(1, L))
        subsets = [list(c) for k in range(len(inner) + 1) for c in itertools.combinations(inner, k)]
        for A in subsets:
            for B in subsets:
                va = [3 * k + 1 + (k % 2) * 5 for k in range(len(A) + 1)]
                vb = [7 - 2 * k + (k % 3) * 4 for k in range(len(B) + 1)]
                v = from_runs([0] + A, va, L, "int64").tolist()
                w = from_runs([0] + B, vb, L, "int64").tolist()
                for uf in ufs:
                    yield {"kind": "rl", "dtype": "int64", "vals": v, "dtype2": "int64", "vals2": w, "uf": uf, "align": "independent", "vclass": "small"}


def _with_swap(rng, c):
    """one case in eight with integer elements gets them in non-native byte order"""
    if isinstance(c, dict) and "dtype" in c and np.dtype(c["dtype"]).kind in "iu" and rng.random() < 0.12:
        c["swap"] = True
    return c


def const_case(rng, tier, s, form):
    """a number taken from the library source (+-1) as the number of runs of ONE operand of a binary ufunc (the other has few, or as many), with boundaries that
    partly coincide; otherwise through the forced first size of the case generator"""
    if form in ("rows", "nonempty") and 8 <= s <= 300000:
        gen.FORCED["used"] += 1
        rs = np.random.RandomState(rng.randrange(2 ** 32))
        dtype, dtype2 = rng.choice(["int64", "float64", "int16", "uint8", "bool"]), rng.choice(["int64", "float64", "int8", "bool"])
        L = s * rng.choice([1, 2, 3]) + rng.randint(1, 5)
        many = np.sort(rs.choice(np.arange(1, L), size=s - 1, replace=False)) if L - 1 >= s - 1 else np.arange(1, L)
        few_n = rng.choice([1, 2, 5, max(2, s // 12), max(2, s // 13), s // 2])
        few = np.sort(np.unique(np.r_[rs.choice(many, size=min(len(many), max(1, few_n // 2)), replace=False), rs.randint(1, L, size=max(1, few_n // 2))]))      # some boundaries coincide
        out = []
        for A, B in ((few, many), (many, few)):
            va = from_runs([0] + A.tolist(), run_values(rng, dtype, len(A) + 1, "small"), L, dtype)
            vb = from_runs([0] + B.tolist(), run_values(rng, dtype2, len(B) + 1, "small"), L, dtype2)
            out.append({"kind": "rl", "dtype": dtype, "vals": va.tolist(), "dtype2": dtype2, "vals2": vb.tolist(), "uf": rng.choice(["multiply", "subtract", "add", "maximum", "less", "bitwise_xor" if (dtype != "float64" and dtype2 != "float64") else "minimum"]),
                        "align": "asymmetric", "vclass": "small"})
        return out
    c = random_case(rng, tier)
    return c if gen.FORCED["used"] else None


def random_case(rng, tier):
    if rng.random() < 0.02:
        v, _ = rl.gen_runs(rng, "int64", "small", 12, length=rng.randint(4, 12))
        return {"kind": "loop", "dtype": rng.choice(["int64", "float64", "int32"]), "vals": v.tolist(), "uf": rng.choice(["subtract", "add", "less", "maximum", "multiply"]), "side": rng.choice("LR"), "n": 25, "rseed": rng.randrange(10 ** 6)}
    if rng.random() < 0.08:
        from .. import rlprog
        return rlprog.gen_chain(rng, tier)
    if rng.random() < 0.1:
        v, _ = rl.gen_runs(rng, "int64", "small", 10)
        c = {"kind": "reduce2", "dtype": "int64", "vals": v.tolist(), "name": rng.choice(REDS), "via": rng.choice(["gt9", "mul0", "concat", "neg", "astype", "cmp", "cmp", "cmp"])}
        if c["via"] == "cmp":
            c.update(cmp=rng.choice(["gt", "lt", "eq", "ne", "ge"]), thr=rng.choice(v.tolist()), name=rng.choice(["any", "all", "np.any", "np.all", "sum", "np.sum", "mean", "max"]))
        return c
    c = gen_case(rng, tier)
    return _with_swap(rng, c) if c.get("kind") in ("unary", "rl", "pyscalar", "npscalar", "red", "concat", "rl_derived") else c


_run_plain = run


def run_loop(case):
    """one long-lived operand combined, one after the other, with many short-lived operands whose run boundaries all differ
    (each temporary is dropped before the next is made, so object ids are reused): anything remembered per operand identity goes stale"""
    import gc
    RLA = CTX.lib.RunLengthArray
    dt = np.dtype(case["dtype"])
    v = np.array(case["vals"]).astype(dt)
    left = RLA.from_array(v.copy())
    uf = getattr(np, case["uf"])
    tags = ["k:loop", "kind:" + dt.kind, "uf:" + case["uf"], "side:" + case["side"]]
    L = len(v)
    import random as _random
    rr = _random.Random(case["rseed"])
    for it in range(case["n"]):
        cuts = sorted(rr.sample(range(1, L), min(L - 1, rr.randint(1, 4)))) if L > 1 else []
        w = np.zeros(L, dtype=dt)
        for k_, c_ in enumerate([0] + cuts):
            w[c_:] = (k_ * 3 + it) % 7 + 1
        o = attempt(uf, v, w) if case["side"] == "R" else attempt(uf, w, v)
        if not o.ok:
            continue
        CTX.tick("c16:compare")
        tmp = RLA.from_array(w.copy())
        a = attempt(uf, left, tmp) if case["side"] == "R" else attempt(uf, tmp, left)
        del tmp
        if it % 13 == 0:
            gc.collect()
        if not a.ok:
            return violated("iteration %d of a loop combining one run-length array with fresh partners: %s raised %r" % (it, case["uf"], a), tags)
        d = attempt(lambda: np.asarray(a.value.to_array()))
        if not d.ok or not same_array(d.value, np.asarray(o.value), dtype=True):
            return violated("iteration %d of a loop %s(%s, fresh partner %s): decodes to %s, numpy gives %s" % (it, case["uf"], short(v, 80), short(w, 80), repr(d) if not d.ok else short(d.value, 120), short(o.value, 120)), tags + ["loop-diverged"])
        c = rl.canonical(a.value, joined=True)
        if c:
            return violated("iteration %d of a loop: result not canonical: %s" % (it, c), tags + ["not-canonical"])
    if not same_array(np.asarray(left.to_array()), v, dtype=True):
        return violated("the long-lived operand changed during the loop", tags + ["operand-mutated"])
    return held(tags, L >= 2)


def run(case):   # noqa: F811  -- adds reductions of *derived* encodings (which may carry equal adjacent runs) and chains of operations
    if case["kind"] == "chain":
        from .. import rlprog
        return rlprog.run_chain(case)
    if case["kind"] == "loop":
        return run_loop(case)
    if case["kind"] != "reduce2":
        return _run_plain(case)
    RLA = CTX.lib.RunLengthArray
    v = np.array(case["vals"], dtype=case["dtype"])
    r = RLA.from_array(v.copy())
    via, name = case["via"], case["name"]
    tags = ["k:reduce2", "via:" + via, "red:" + name, "kind:i"]
    if via == "astype":
        d, dense = r.astype(bool), v.astype(bool)
    elif via == "gt9":
        d, dense = r > 100, v > 100
    elif via == "cmp":
        # a comparison with one of the array's own values: a boolean encoding that keeps the operand's runs (F F T F ...)
        uf = {"gt": np.greater, "lt": np.less, "eq": np.equal, "ne": np.not_equal, "ge": np.greater_equal}[case["cmp"]]
        d, dense = uf(r, case["thr"]), uf(v, case["thr"])
        tags.append("via:cmp-mixed" if (dense.any() and not dense.all()) else "via:cmp-constant")
    elif via == "mul0":
        d, dense = r * 0, v * 0
    elif via == "neg":
        d, dense = -r, -v
    else:
        d, dense = np.concatenate([r, r]), np.concatenate([v, v])
    if name.startswith("np."):
        f = getattr(np, name[3:])
        o, a = attempt(f, dense), attempt(f, d)
    else:
        o, a = attempt(lambda: getattr(dense, name)()), attempt(lambda: getattr(d, name)())
    CTX.tick("c16:compare")
    desc = "%s of the result of '%s' on encoded %s" % (name, via, v.tolist())
    if not o.ok:
        return undefined("numpy raises", tags)
    if not a.ok:
        return violated("%s raised %r" % (desc, a), tags)
    if not np.allclose(np.asarray(a.value, dtype=np.float64), np.asarray(o.value, dtype=np.float64), rtol=1e-12, atol=0):
        return violated("%s gives %s, numpy gives %s" % (desc, short(a.value), short(o.value)), tags)
    return held(tags, len(v) >= 2)


def classify(case, res):
    if case["kind"] == "npscalar" and case.get("dtype2") == "bool":
        return "F04b"
    return None
