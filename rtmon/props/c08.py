"""C08 -- structural array functions preserve row structure and element order.

Oracle: the list model (row-major coordinates for nonzero, cell-wise pick for where,
per-row windows for ragged_slice, row concatenation, padding)."""
import numpy as np
from ..core import CTX, attempt, held, violated, undefined, same_array, peek, short, lists_same, same_dtype
from .. import gen, contracts
from . import c02

PROP = "C08"
LEVEL_TEXT = 'List-model oracle for concatenate (both axes, mixed dtypes), *_like, padded matrix, nonzero, where, subset / mask indexing, ragged_slice on ragged / 1-D / 2-D inputs, fresh and lazy receivers. Exploration.'
LEVEL_NOTE = "trusts numpy 2.x, CPython (copy.copy, slice semantics, big ints) and the reference model in rtmon/props/c08.py; decides the executions it produces, nothing more"
TECHNIQUE = 'runtime monitoring: reference-model oracle (list model) at the API boundary'
DESIGN_REF = "DESIGN.md sections 0, 5 (C08), 7"
RULE = ("case = (operation, operand row lengths / dtypes / values, masks, per-row starts/ends, receiver kind); oracle = list model; "
        "distinct = hash of the case; non-trivial = >= 2 rows in total and >= 1 cell")
ASSUMPTIONS = ["where: ragged mask, ragged x, ragged or scalar y (a scalar x is outside the statement)", "as_padded_matrix needs >= 1 row",
               "ragged_slice starts lie within the rows; ends may be absent, inside, negative or beyond the row end"]
ANCHORS = [
    "arrayfunctions.py::concatenate", "arrayfunctions.py::zeros_like", "arrayfunctions.py::ones_like", "arrayfunctions.py::empty_like",
    "arrayfunctions.py::where", "raggedarray/__init__.py::RaggedArray.nonzero", "raggedshape.py::ViewBase.unravel_multi_index",
    "raggedarray/indexablearray.py::IndexableArray.subset", "raggedarray/indexablearray.py::IndexableArray._get_row_subset",
    "raggedarray/raggedslice.py::ragged_slice", "mixin.py::NPSIndexable.__getitem__", "raggedarray/__init__.py::RaggedArray._as_padded_matrix",
]
OPS = ["concat0", "concat1", "like", "padded", "nonzero", "where", "subset", "maskidx", "rslice_ra", "rslice_1d", "rslice_2d", "nps"]
FLOOR_TAGS = ["op:" + o for o in OPS] + ["ends:none", "ends:inside", "ends:negative", "ends:beyond", "where:xy", "where:xs", "where:xx", "operands:same-object", "where:scalar-other-kind", "where:mask-not-bool", "bounds:narrow-type", "bounds:cells-exceed-type", "matrix:rows-strided", "matrix:cols-block", "matrix:fortran", "mask:allfalse", "mask:alltrue",
                                         "operand:norows", "operand:allempty", "side:left", "side:right", "recv:fresh", "recv:lazyrows", "recv:lazycols+2", "starts:none"]
FLOOR_MONITORS = ["c08:compare", "c08:arguments-unchanged"]
FP_STRICT = True       # a floating-point event inside the library that the dense computation does not have is a violation (shard.FpMonitor)
N_RANDOM = {"quick": 30000, "thorough": 400000}


def setup(lib):
    contracts.attach(lib, which=("ragged",))


def arr(spec):
    """spec = {"lens", "dtype", "vals", ["recv"]} -> (RaggedArray, rows, parent)"""
    flat = np.array(spec["vals"], dtype=spec["dtype"])
    if spec.get("dense") and spec["lens"] and len(set(spec["lens"])) == 1:
        # a plain 2-D numpy array as a (non-first) operand of a column-wise join, which the library accepts
        return flat.copy().reshape(len(spec["lens"]), spec["lens"][0]), gen.split_rows(flat, spec["lens"]), None
    ra, parent = c02.build_receiver(spec.get("recv", "fresh"), flat, spec["lens"])
    return ra, gen.split_rows(flat, spec["lens"]), parent


def spec(rng, lens, dtype, recv="fresh", vclass="small"):
    return {"lens": list(lens), "dtype": dtype, "vals": gen.values(rng, dtype, sum(lens), vclass).tolist(), "recv": recv}


def check_rows(got, exp, desc, tags, dtype=None):
    RA = CTX.lib.RaggedArray
    if not isinstance(got, RA):
        return violated("%s returned a %s" % (desc, type(got).__name__), tags, got=short(got))
    grows = list(got)
    if [len(r) for r in grows] != [len(e) for e in exp]:
        return violated("%s has row lengths %s, expected %s" % (desc, [len(r) for r in grows], [len(e) for e in exp]), tags,
                        got=[np.asarray(r).tolist() for r in grows], expected=[np.asarray(e).tolist() for e in exp])
    for i, (g, e) in enumerate(zip(grows, exp)):
        if not same_array(g, e, dtype=False):
            return violated("%s: row %d is %s, expected %s" % (desc, i, short(g, 140), short(np.asarray(e), 140)), tags,
                            got=[np.asarray(r).tolist() for r in grows], expected=[np.asarray(x).tolist() for x in exp])
    if dtype is not None and not same_dtype(got.dtype, dtype):
        return violated("%s has dtype %s, expected %s" % (desc, got.dtype, dtype), tags + ["dtype-differs"])
    return None


def run(case):
    lib = CTX.lib
    op = case["op"]
    tags = ["op:" + op]
    CTX.tick("c08:compare")
    if op in ("concat0", "concat1"):
        parts = [arr(s) for s in case["parts"]]
        if case.get("same_object"):
            parts = [parts[0]] * case["same_object"]          # the same array object several times in the list of operands
            case = dict(case, parts=[case["parts"][0]] * case["same_object"])
            tags.append("operands:same-object")
        for s in case["parts"]:
            tags.append("recv:" + s.get("recv", "fresh"))
            if not s["lens"]:
                tags.append("operand:norows")
            elif sum(s["lens"]) == 0:
                tags.append("operand:allempty")
        before = [peek(p[0]) if not isinstance(p[0], np.ndarray) else p[0].tolist() for p in parts]
        if any(isinstance(p[0], np.ndarray) for p in parts):
            tags.append("operand:dense-2d")
        desc = "np.concatenate(axis=%s) of arrays with row lengths %s" % (0 if op == "concat0" else -1, [s["lens"] for s in case["parts"]])
        if op == "concat0":
            exp = [r for p in parts for r in p[1]]
            edt = np.concatenate([np.array(s["vals"], dtype=s["dtype"]) for s in case["parts"]]).dtype
            a = attempt(lambda: np.concatenate([p[0] for p in parts]))
        else:
            n = len(case["parts"][0]["lens"])
            exp = [np.concatenate([p[1][i] for p in parts]) for i in range(n)]
            edt = np.result_type(*[np.dtype(s_["dtype"]) for s_ in case["parts"]])
            a = attempt(lambda: np.concatenate([p[0] for p in parts], axis=-1))
        if not a.ok:
            return violated("%s raised %r" % (desc, a), tags)
        r = check_rows(a.value, exp, desc, tags, edt)
        if r:
            return r
        if not all(lists_same(peek(p[0]) if not isinstance(p[0], np.ndarray) else p[0].tolist(), b) for p, b in zip(parts, before)):
            return violated("%s modified an operand" % desc, tags)
        return held(tags, len(exp) >= 2 and sum(len(e) for e in exp) >= 1)

    if op == "rslice_1d" or op == "nps" or op == "rslice_2d":
        return run_dense_slice(case, tags)

    ra, rows, parent = arr(case["a"])
    lens = case["a"]["lens"]
    dt = np.dtype(case["a"]["dtype"])
    n, tot = len(lens), sum(lens)
    tags += ["recv:" + case["a"].get("recv", "fresh"), "kind:" + dt.kind] + gen.empty_placement(lens)
    nontrivial = n >= 2 and tot >= 1
    before = peek(ra)

    def unchanged():
        return lists_same(peek(ra), before)

    if op == "like":
        fn = getattr(np, case["fn"])
        kw = {} if case.get("dtype2") is None else {"dtype": np.dtype(case["dtype2"])}
        a = attempt(lambda: fn(ra, **kw))
        desc = "np.%s%s of rows with lengths %s" % (case["fn"], kw, lens)
        if not a.ok:
            return violated("%s raised %r" % (desc, a), tags)
        edt = np.dtype(case["dtype2"]) if case.get("dtype2") else dt
        fill = {"zeros_like": 0, "ones_like": 1, "empty_like": None}[case["fn"]]
        g = a.value
        if not isinstance(g, lib.RaggedArray) or np.asarray(g.lengths).tolist() != lens or not same_dtype(g.dtype, edt) or len(g) != n:
            return violated("%s gives lengths %s dtype %s" % (desc, short(getattr(g, "lengths", None)), getattr(g, "dtype", None)), tags)
        if fill is not None and not np.all(g.ravel() == fill):
            return violated("%s is not filled with %s: %s" % (desc, fill, short(g)), tags)
        # the result must not share memory with its operand
        if tot and fill is not None:
            g[...] = 1 - fill if dt.kind != "b" or case.get("dtype2") else (not fill)
        return held(tags, nontrivial) if unchanged() else violated("%s: writing into the result changed the operand" % desc, tags)

    if op == "padded":
        if n == 0:
            return undefined("no rows", tags)
        first = attempt(lambda: ra.as_padded_matrix(fill_value=case["fill"], side="left" if case["side"] == "right" else "right"))   # an earlier conversion of the same object
        side, fv = case["side"], case["fill"]
        tags.append("side:" + side)
        side = "".join(list(side)) if (n + tot) % 2 else np.str_(side)       # the keyword as a string made at run time (read from a file, .lower()ed), not the literal in this source
        M = max(lens)
        exp = np.full((n, M), fv, dtype=dt)
        for i, r in enumerate(rows):
            if side == "right":
                exp[i, :len(r)] = r
            else:
                exp[i, M - len(r):] = r
        a = attempt(lambda: ra.as_padded_matrix(fill_value=fv, side=side))
        desc = "as_padded_matrix(fill_value=%s, side=%s) of %s rows %s" % (fv, side, dt, short([r.tolist() for r in rows], 160))
        if not a.ok:
            return violated("%s raised %r" % (desc, a), tags)
        if not (isinstance(a.value, np.ndarray) and same_array(a.value, exp, dtype=True)):
            return violated("%s gives %s, expected %s" % (desc, short(a.value, 200), short(exp, 200)), tags, got=a.value, expected=exp)
        # result independence: the matrix belongs to the caller.  A second conversion of the same object (other side / other fill value) must not change
        # the first matrix, and overwriting the first matrix must not show in the array or in a third conversion
        CTX.tick("c08:padded-independent")
        side2, fv2 = ("left" if side == "right" else "right"), np.array([fv]).astype(dt)[0] + np.array([1]).astype(dt)[0]
        b = attempt(lambda: ra.as_padded_matrix(fill_value=fv2, side=side2))
        if not b.ok:
            return violated("a second as_padded_matrix(fill_value=%s, side=%s) on the same object raised %r" % (fv2, side2, b), tags)
        if not same_array(a.value, exp, dtype=True):
            return violated("%s: the returned matrix changed when the same array was converted again (fill_value=%s, side=%s): now %s" % (desc, fv2, side2, short(a.value, 200)), tags + ["result-shared"], got=a.value, expected=exp)
        if a.value.size and a.value.flags.writeable:
            keep = a.value.copy()
            from ..core import scribble
            scribble(a.value)
            c_ = attempt(lambda: ra.as_padded_matrix(fill_value=fv, side=side))
            if not c_.ok or not same_array(c_.value, keep, dtype=True):
                return violated("%s: after the caller overwrote the returned matrix, the same conversion gives %s, expected %s" % (desc, repr(c_) if not c_.ok else short(c_.value, 200), short(keep, 200)), tags + ["result-shared"])
        return held(tags, nontrivial) if unchanged() else violated("%s modified its operand" % desc, tags)

    if op == "nonzero":
        exp = [(i, j) for i, r in enumerate(rows) for j, v in enumerate(r.tolist()) if v]
        a = attempt(lambda: ra.nonzero() if case["spelling"] == "method" else np.nonzero(ra))
        desc = "nonzero (%s) of %s rows %s" % (case["spelling"], dt, short([r.tolist() for r in rows], 160))
        if not a.ok:
            return violated("%s raised %r" % (desc, a), tags)
        try:
            got = list(zip(np.asarray(a.value[0]).tolist(), np.asarray(a.value[1]).tolist()))
        except Exception as e:
            return violated("%s returned %s" % (desc, short(a.value)), tags)
        if got != exp or len(a.value) != 2:
            return violated("%s gives coordinates %s, expected %s" % (desc, got[:12], exp[:12]), tags, got=got, expected=exp)
        return held(tags, nontrivial) if unchanged() else violated("%s modified its operand" % desc, tags)

    if op == "rslice_ra":
        starts, ends = case["starts"], case["ends"]
        tags.append("ends:" + case["endmode"])
        if starts is None:
            tags.append("starts:none")
        exp = [r[(0 if starts is None else starts[i]):(None if ends is None else ends[i])] for i, r in enumerate(rows)]
        sa = None if starts is None else np.array(starts, dtype=np.int64)
        ea = None if ends is None else np.array(ends, dtype=np.int64)
        a = attempt(lambda: lib.ragged_slice(ra, sa, ea))
        desc = "ragged_slice(rows %s, starts=%s, ends=%s)" % (short([r.tolist() for r in rows], 140), starts, ends)
        if not a.ok:
            return violated("%s raised %r" % (desc, a), tags)
        r = check_rows(a.value, exp, desc, tags, dt)
        if r:
            return r
        # the caller's starts / ends arrays are arguments, not scratch space: unchanged, and a second call with the same objects agrees
        CTX.tick("c08:arguments-unchanged")
        if (sa is not None and sa.tolist() != list(starts)) or (ea is not None and ea.tolist() != list(ends)):
            return violated("%s modified its starts/ends arguments: now starts=%s ends=%s" % (desc, None if sa is None else sa.tolist(), None if ea is None else ea.tolist()), tags + ["argument-mutated"])
        a2 = attempt(lambda: lib.ragged_slice(ra, sa, ea))
        if not a2.ok or check_rows(a2.value, exp, desc, tags, dt):
            return violated("%s called a second time with the same argument objects gives %s" % (desc, repr(a2) if not a2.ok else short(a2.value, 160)), tags + ["second-call-differs"])
        return held(tags, nontrivial) if unchanged() else violated("%s modified its operand" % desc, tags)
    # operations with a boolean ragged mask
    # where() takes the truth value of the mask cells (numpy's rule): flags kept as 0/1 integers, counts, the operand itself, floats
    m = np.array(case["mask"], dtype=case.get("mask_dtype", "bool") if op == "where" else bool)
    if m.dtype.kind != "b":
        tags.append("where:mask-not-bool")
    mrows = gen.split_rows(m, lens)
    mask, _ = c02.build_receiver(case.get("mask_recv", "fresh"), m, lens)
    if tot and not m.any():
        tags.append("mask:allfalse")
    if tot and m.all():
        tags.append("mask:alltrue")
    if op == "where":
        form = case["form"]
        tags.append("where:" + form)
        yspec = case.get("y")
        if form == "xx":
            exp = [np.where(mm, x, x) for mm, x in zip(mrows, rows)]      # both branches are the same object
            a = attempt(lambda: np.where(mask, ra, ra))
        elif form == "xy":
            y, yrows, _ = arr(yspec)
            exp = [np.where(mm, x, yy) for mm, x, yy in zip(mrows, rows, yrows)]
            a = attempt(lambda: np.where(mask, ra, y))
        else:
            s = case["scalar"]
            exp = [np.where(mm, x, s) for mm, x in zip(mrows, rows)]
            if not isinstance(s, (bool, int)) or isinstance(s, np.generic) or (dt.kind == "b" and not isinstance(s, bool)):
                tags.append("where:scalar-other-kind")
            a = attempt(lambda: np.where(mask, ra, s))
        desc = "np.where(mask, x, %s) with mask %s, x %s" % ("y" if form == "xy" else repr(case.get("scalar")), short([r.tolist() for r in mrows], 120), short([r.tolist() for r in rows], 120))
        if not a.ok:
            return violated("%s raised %r" % (desc, a), tags)
        r = check_rows(a.value, exp, desc, tags, dtype=(np.concatenate(exp).dtype if (tot and exp) else None))
        if r:
            return r
        if not unchanged():
            return violated("%s modified its operand" % desc, tags)
        # the result is a new array: overwriting it leaves x (and the mask) as they were
        if tot and isinstance(a.value, lib.RaggedArray) and a.value.ravel().flags.writeable:
            CTX.tick("c08:where-result-independent", bool(m.all()))
            fl_ = a.value.ravel()
            fl_[...] = np.logical_not(fl_) if fl_.dtype.kind == "b" else fl_ + np.ones(1, dtype=fl_.dtype)[0]
            if not unchanged() or not same_array(np.asarray(mask.ravel()), m):
                return violated("%s: overwriting the result changed an operand" % desc, tags + ["result-shares-memory"])
        return held(tags, nontrivial)
    if op == "subset":
        exp = [r[mm] for r, mm in zip(rows, mrows)]
        a = attempt(lambda: ra.subset(mask))
        desc = "subset(mask) with mask %s of %s" % (short([r.tolist() for r in mrows], 120), short([r.tolist() for r in rows], 120))
        if not a.ok:
            return violated("%s raised %r" % (desc, a), tags)
        r = check_rows(a.value, exp, desc, tags, dt)
        if r:
            return r
        return held(tags, nontrivial) if unchanged() else violated("%s modified its operand" % desc, tags)
    if op == "maskidx":
        exp = np.concatenate([r[mm] for r, mm in zip(rows, mrows)]) if rows else np.zeros(0, dtype=dt)
        a = attempt(lambda: ra[mask])
        desc = "ra[mask] with mask %s of %s" % (short([r.tolist() for r in mrows], 120), short([r.tolist() for r in rows], 120))
        if not a.ok:
            return violated("%s raised %r" % (desc, a), tags)
        if not (isinstance(a.value, np.ndarray) and same_array(a.value, exp, dtype=True)):
            return violated("%s gives %s, expected %s" % (desc, short(a.value, 160), short(exp, 160)), tags, got=a.value, expected=exp)
        return held(tags, nontrivial) if unchanged() else violated("%s modified its operand" % desc, tags)
    raise ValueError(op)


def run_dense_slice(case, tags):
    lib = CTX.lib
    op = case["op"]
    dt = np.dtype(case["dtype"])
    bdt = case.get("bdtype", "int64")        # the bounds in any integer type that holds them (not necessarily the number of cells of the input)
    if any(not (np.iinfo(bdt).min <= x <= np.iinfo(bdt).max) for x in list(case["starts"]) + list(case["ends"])):
        bdt = "int64"
    starts = np.array(case["starts"], dtype=bdt)
    ends = np.array(case["ends"], dtype=bdt)
    if bdt != "int64":
        tags.append("bounds:narrow-type")
    if op == "rslice_2d":
        vals_ = case["vals"] if not isinstance(case["vals"], str) else (np.arange(case["shape"][0] * case["shape"][1]) % 251).tolist()
        M = np.array(vals_, dtype=dt).reshape(case["shape"])
        lay_ = case.get("layout")
        if lay_ and M.size:
            # the same matrix as a view into a larger one: every second row, a block of columns, a transposed (Fortran-ordered) matrix
            if lay_ == "rows-strided":
                big_ = np.zeros((2 * M.shape[0], M.shape[1]), dtype=dt); big_[::2] = M; M = big_[::2]
            elif lay_ == "cols-block":
                big_ = np.zeros((M.shape[0], M.shape[1] + 5), dtype=dt); big_[:, 2:2 + M.shape[1]] = M; M = big_[:, 2:2 + M.shape[1]]
            else:
                M = np.asfortranarray(M)
            tags.append("matrix:" + lay_)
        if M.size > np.iinfo(bdt).max:
            tags.append("bounds:cells-exceed-type")
        exp = [M[i, s:e] for i, (s, e) in enumerate(zip(starts.tolist(), ends.tolist()))]
        a = attempt(lambda: lib.ragged_slice(M, starts, ends))
        desc = "ragged_slice(%s matrix %s, %s, %s)" % (dt, short(M, 100), starts.tolist(), ends.tolist())
        nt = M.shape[0] >= 2 and M.size >= 1
    else:
        v = np.array(case["vals"], dtype=dt)
        exp = [v[s:e] for s, e in zip(starts.tolist(), ends.tolist())]
        if op == "nps":
            from npstructures.mixin import NPSArray
            a = attempt(lambda: v.view(NPSArray)[starts:ends])
        else:
            a = attempt(lambda: lib.ragged_slice(v, starts, ends))
        desc = "%s(%s vector %s, %s, %s)" % (op, dt, short(v, 100), starts.tolist(), ends.tolist())
        nt = len(starts) >= 2 and len(v) >= 1
    if not a.ok:
        return violated("%s raised %r" % (desc, a), tags)
    r = check_rows(a.value, exp, desc, tags, dt)
    return r or held(tags, nt)


# ----------------------------------------------------------------------------- workloads

def gen_case(rng, tier, op=None, lens=None, dtype=None, recv=None):
    op = op or rng.choice(OPS)
    dtype = dtype or rng.choice(gen.DT_ALL)
    rv = lambda: recv if recv is not None else (rng.choice(c02.RECVS) if rng.random() < 0.3 else "fresh")
    L = lambda: list(lens) if lens is not None else gen.length_vector(rng, tier)[0]
    if op == "concat0":
        k = rng.randint(1, 5)
        dts = [dtype] * k if rng.random() < 0.8 else [rng.choice(gen.DT_INT) for _ in range(k)]
        c_ = {"op": op, "parts": [spec(rng, L() if i == 0 else gen.length_vector(rng, tier)[0], dts[i], rv()) for i in range(k)]}
        if rng.random() < 0.12:
            c_["same_object"] = rng.randint(2, 4)
        return c_
    if op == "concat1":
        k = rng.randint(1, 3)
        n = len(L())
        dts = [dtype] * k if rng.random() < 0.6 else [rng.choice(gen.DT_ALL) for _ in range(k)]
        parts = [spec(rng, [rng.choice([0, 0, 1, 2, 3]) for _ in range(n)], dts[i], rv()) for i in range(k)]
        if k > 1 and n and rng.random() < 0.2:
            w_ = rng.randint(1, 3)
            parts[-1] = dict(spec(rng, [w_] * n, dts[-1]), dense=True)
        c_ = {"op": op, "parts": parts}
        if rng.random() < 0.12:
            c_["same_object"] = rng.randint(2, 3)
        return c_
    if op in ("rslice_1d", "nps"):
        Lv = rng.randint(1, 9)
        k = rng.randint(0, 5)
        st = [rng.randint(0, Lv) for _ in range(k)]
        return {"op": op, "dtype": dtype, "vals": gen.values(rng, dtype, Lv, "small").tolist(), "starts": st, "ends": [rng.randint(s, Lv) for s in st],
                "bdtype": rng.choice(["int64", "int64", "int32", "int16", "uint8"])}
    if op == "rslice_2d":
        r_, c_ = rng.randint(0, 4), rng.randint(0, 5)
        st = [rng.randint(0, c_) for _ in range(r_)]
        return {"op": op, "dtype": dtype, "shape": [r_, c_], "vals": gen.values(rng, dtype, r_ * c_, "small").tolist(), "starts": st, "ends": [rng.randint(s, c_) for s in st],
                "bdtype": rng.choice(["int64", "int64", "int32", "int16", "int8", "uint8", "uint64"]), "layout": rng.choice([None, None, "rows-strided", "cols-block", "fortran"])}
    lens_ = L()
    a = spec(rng, lens_, dtype, rv(), "sparse" if op in ("nonzero", "padded") and rng.random() < 0.8 else "small")
    c = {"op": op, "a": a}
    tot = sum(lens_)
    if op == "like":
        c["fn"] = rng.choice(["zeros_like", "ones_like", "empty_like"])
        c["dtype2"] = rng.choice([None, None, "int64", "float32", "bool"])
    elif op == "padded":
        c["side"] = rng.choice(["left", "right"])
        c["fill"] = rng.choice([0, 7]) if np.dtype(dtype).kind != "b" else bool(rng.choice([0, 1]))
    elif op == "nonzero":
        c["spelling"] = rng.choice(["method", "np"])
    else:
        p = rng.choice([0.0, 0.3, 0.6, 1.0])
        c["mask"] = [rng.random() < p for _ in range(tot)]
        c["mask_recv"] = rv() if op != "rslice_ra" else "fresh"
        if op == "where":
            if rng.random() < 0.3:
                c["mask_dtype"] = rng.choice(["int64", "uint8", "int32", "float64", "int8"])
                c["mask"] = [(rng.choice([1, 1, 2, 3, min(tot + 5, 120), 255 if c["mask_dtype"] == "uint8" else -1]) if b else 0) for b in c["mask"]]
            c["form"] = rng.choice(["xy", "xs", "xy", "xs", "xx"])
            if c["form"] == "xy":
                c["y"] = spec(rng, lens_, dtype, rv())
            else:
                # the scalar may be of another kind / width than x's elements: numpy promotes (python scalars weakly, numpy scalars by type)
                c["scalar"] = rng.choice([5 if np.dtype(dtype).kind != "b" else True, 5 if np.dtype(dtype).kind != "b" else True, 0.5, float("nan"), 7, -1, True,
                                          np.int64(1000), np.float32(2.5), np.uint8(3), np.float64(-0.25), np.int8(-3)])
                if np.dtype(dtype).kind == "u" and isinstance(c["scalar"], int) and not isinstance(c["scalar"], bool) and c["scalar"] < 0:
                    c["scalar"] = 7        # a negative python int next to an unsigned array is an OverflowError in numpy itself
        if op == "rslice_ra":
            del c["mask"], c["mask_recv"]
            st = [rng.randint(0, l) for l in lens_]
            mode = rng.choice(["none", "inside", "negative", "beyond"])
            if mode == "inside":
                en = [rng.randint(s, l) for s, l in zip(st, lens_)]
            elif mode == "negative":
                en = [-rng.randint(1, max(1, l + 1)) for l in lens_]
            elif mode == "beyond":
                en = [l + rng.randint(0, 3) for l in lens_]
                if rng.random() < 0.3:
                    # far beyond every row, also beyond 32 bits (an "open" end written as a huge number): the window ends with the row
                    en = [rng.choice([2 ** 31 - 1, 2 ** 31, 2 ** 31 - 1 - sum(lens_[:i]), 2 ** 40, 2 ** 62, l + 1]) for i, l in enumerate(lens_)]
            else:
                en = None
            c["starts"] = st if rng.random() < 0.8 else None
            c["ends"] = en
            c["endmode"] = mode
    return c


def directed():
    import random
    rng = random.Random(808)
    # column-wise joins of more than 10000 rows (row order inside the joined rows must survive any grouping by row number)
    for nrows_ in (10001, 25000):
        l1 = [(i * 7) % 3 for i in range(nrows_)]
        l2 = [(i * 5) % 2 + 1 for i in range(nrows_)]
        yield {"op": "concat1", "parts": [{"lens": l1, "dtype": "int32", "vals": list(range(sum(l1))), "recv": "fresh"}, {"lens": l2, "dtype": "int32", "vals": list(range(100000, 100000 + sum(l2))), "recv": "fresh"},
                                          {"lens": l1, "dtype": "int32", "vals": list(range(500000, 500000 + sum(l1))), "recv": "fresh"}]}
    # several hundred thousand short rows and a single longer one near the start: any block-wise padding must agree on the common width
    for nrows_ in (300000, 262145):
        ll = [(i * 7) % 3 for i in range(nrows_)]
        ll[17] = 4
        for side_ in ("left", "right"):
            yield {"op": "padded", "a": {"lens": ll, "dtype": "int8", "vals": [(i % 5) + 1 for i in range(sum(ll))], "recv": "fresh"}, "side": side_, "fill": -1}
    # 1-D input: windows that overlap and leave a gap of the same size -- first starts at 0, last ends at the end, lengths add up to the length of the vector
    import itertools
    for Lv_ in (5, 6, 7):
        for st_ in itertools.product(range(Lv_), repeat=2):
            for ln_ in itertools.product(range(1, Lv_), repeat=3):
                starts_ = [0, st_[0], st_[1]]
                ends_ = [starts_[i] + ln_[i] for i in range(3)]
                if sum(ln_) != Lv_ or ends_[2] != Lv_ or max(ends_) > Lv_ or (ends_[0] == starts_[1] and ends_[1] == starts_[2]):
                    continue
                for op_ in ("rslice_1d", "nps"):
                    yield {"op": op_, "dtype": "int64", "vals": [10 * (i + 1) + i for i in range(Lv_)], "starts": starts_, "ends": ends_}
    # matrices with more cells than the integer type of the window bounds can count (every bound itself is small)
    for (r_, c_), bd_ in (((300, 150), "int16"), ((200, 100), "int8"), ((2, 200), "uint8"), ((40000, 2), "int16"), ((600, 120), "uint16")):
        st_ = [(i * 7) % (c_ // 2) for i in range(r_)]
        yield {"op": "rslice_2d", "dtype": "int32", "shape": [r_, c_], "vals": "arange", "starts": st_, "ends": [s_ + (i % (c_ // 2)) for i, s_ in enumerate(st_)], "bdtype": bd_}
    shapes = [[], [0], [0, 0], [3], [0, 2, 3], [2, 3, 0], [2, 0, 0, 3], [1, 1, 1], [0, 12, 1], [4, 1, 0, 2]]
    for lens in shapes:
        for op in OPS:
            for dtype in ["int64", "bool", "float64", "uint8"]:
                for recv in ["fresh", "lazyrows", "lazycols+2", "lazychain"]:
                    for _ in range(2):
                        yield gen_case(rng, "quick", op, lens, dtype, recv)
    # mixed element types: the result type is numpy's promotion of all operands, whatever their order
    for d1, d2 in [("int64", "float64"), ("bool", "int64"), ("int32", "int64"), ("uint8", "int8"), ("float32", "int64"), ("int8", "bool")]:
        for axis_op in ("concat0", "concat1"):
            yield {"op": axis_op, "parts": [spec(rng, [2, 0, 1], d1), spec(rng, [1, 2, 0], d2)]}
            yield {"op": axis_op, "parts": [spec(rng, [0, 0], d1), spec(rng, [1, 2], d2), spec(rng, [0, 1], d1)]}
    # operands without rows / with only empty rows in the middle of a concatenation
    for mid in [[], [0, 0], [0]]:
        for dtype in ["int64", "float32"]:
            yield {"op": "concat0", "parts": [spec(rng, [2, 1], dtype), spec(rng, mid, dtype), spec(rng, [3], dtype)]}
            yield {"op": "concat0", "parts": [spec(rng, mid, dtype), spec(rng, [1, 2], dtype)]}
            yield {"op": "concat0", "parts": [spec(rng, [1, 2], dtype), spec(rng, mid, dtype)]}
    for L in ([2, 0, 3], [0, 0, 4], [3, 1, 0]):
        for mode, en in [("none", None), ("inside", [l // 2 for l in L]), ("negative", [-1] * 3), ("negative", [-5] * 3), ("beyond", [l + 2 for l in L])]:
            for st in (None, [0, 0, 0], [min(1, l) for l in L], list(L)):
                for recv in ("fresh", "lazyrows", "lazycols-1"):
                    yield {"op": "rslice_ra", "a": spec(rng, L, "int64", recv), "starts": st, "ends": en, "endmode": mode}


def random_case(rng, tier):
    return gen_case(rng, tier)


def classify(case, res):
    a = case.get("a") or {}
    lazy = a.get("recv", "fresh") != "fresh"
    if case["op"] == "padded" and a.get("lens") and max(a["lens"]) == 0:
        return "F08a"
    if case["op"] == "padded" and lazy:
        return "F06e"
    if case["op"] in ("maskidx",) and lazy:
        return "F06c"
    return None
