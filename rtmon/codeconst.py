"""Code-constant dictionary (DESIGN section 0, "sizes taken from the code under test").

The numeric literals of the library source that is being monitored -- thresholds, chunk sizes, block widths, cut-over points
between two algorithms -- are harvested from RTMON_REPO at run time (ast, constant expressions such as `1 << 18` or `2**16`
folded) and turned into *sizes* of the workload: numbers of rows, cells, keys, samples, runs, packed values, row lengths, runs of
empty rows of exactly c-1, c, c+1.  A dormant branch behind `if n > 3000:` is invisible to a workload whose sizes were chosen
before the branch existed; its constant is not.  This is the fuzzer's dictionary, built from the tree the check runs against.

The constants of the tree the harness was written against (BASELINE) are always part of the plan, so the machinery runs --
and is known to be silent -- on the unchanged tree; constants that are not in BASELINE ("novel") come first and get every form.
Nothing here decides anything: the cases are ordinary cases of the driver, decided by the driver's oracle."""
import ast
import os

BASELINE = (3, 4, 8, 10, 16, 20, 25, 64, 100, 1000, 100000)
# capacities of the narrow integer types (one past the largest int8 / uint8 / int16 / uint16): thresholds a library can have without writing them
# down (np.min_scalar_type, an index kept in the type of the caller's numbers).  Always part of the plan, like the BASELINE constants.
CAPACITY = (128, 256, 32768, 65536)
LO, HI = 3, 1 << 26
_cache = {}


def _fold(node):
    try:
        v = eval(compile(ast.Expression(node), "<const>", "eval"), {"__builtins__": {}})
    except Exception:
        return None
    return v


def harvest(repo):
    """{constant: sorted list of source files} for integer-valued constants LO <= |c| <= HI in <repo>/npstructures/**/*.py"""
    repo = os.path.realpath(repo)
    if repo in _cache:
        return _cache[repo]
    out = {}
    pk = os.path.join(repo, "npstructures")
    for root, _, files in sorted(os.walk(pk)):
        for f in sorted(files):
            if not f.endswith(".py"):
                continue
            p = os.path.join(root, f)
            try:
                tree = ast.parse(open(p, encoding="utf-8", errors="replace").read())
            except Exception:
                continue
            for n in ast.walk(tree):
                v = None
                if isinstance(n, ast.Constant) and isinstance(n.value, (int, float)) and not isinstance(n.value, bool):
                    v = n.value
                elif isinstance(n, (ast.BinOp, ast.UnaryOp)):
                    v = _fold(n)
                if isinstance(v, float):
                    v = int(v) if (v == v and abs(v) < 1e18 and v == int(v)) else None
                if isinstance(v, int) and not isinstance(v, bool) and LO <= abs(v) <= HI:
                    out.setdefault(abs(v), set()).add(os.path.relpath(p, pk))
    out = {k: sorted(v) for k, v in sorted(out.items())}
    _cache[repo] = out
    return out


FORMS_SMALL = ("rows", "cells", "rowlen", "emptyrun", "nonempty")
FORMS_BIG = ("rows", "rowlen", "cells", "nonempty")


def plan(repo, tier, cap=300000, files=None, cap_cells=1 << 23):
    """[(size, form, reps, novel)] -- novel constants first.  `files`: only constants that occur in one of these source files
    (None = all).  Sizes above `cap` are used as numbers of cells / lengths of one row only (up to `cap_cells`, novel constants only);
    anything larger is left out (resource limit of the workload, recorded in the evidence)."""
    consts = harvest(repo)
    novel = [c for c in consts if c not in BASELINE and c not in CAPACITY and (files is None or any(f in files for f in consts[c]))]
    # a large constant may be a budget in bytes or in bits: the element counts it corresponds to (item sizes 2, 4, 8 bytes; 8 bits) count as well
    derived = []
    for c in novel:
        if c >= 4096:
            derived += [c // k for k in (2, 4, 8) if c % k == 0 and c // k not in BASELINE and c // k not in CAPACITY and c // k not in consts]
    novel = novel[:16] + sorted(set(derived))[:24]
    base = sorted(set(BASELINE) | set(CAPACITY))
    out = []
    seen = set()
    for grp, isnovel in ((novel, True), (base, False)):
        for c in grp:
            for d in ((0, 1, -1) if (isnovel or c <= 1000 or c in CAPACITY) else (0, 1)):
                s = c + d
                if s < 2 or (s, isnovel) in seen or s > (cap_cells if isnovel else cap):
                    continue
                seen.add((s, isnovel))
                big = s > 20000
                forms = (FORMS_BIG + ("emptyrun",)) if big else FORMS_SMALL
                if not isnovel and big and c not in CAPACITY:
                    forms = FORMS_BIG[:2]
                if s > (cap if not isnovel else max(cap, 1 << 20)):
                    forms = ("cells", "rowlen")
                for form in forms:
                    reps = (3 if isnovel else 1) if big else (6 if isnovel else 2)
                    if tier != "quick":
                        reps *= 3
                    out.append((s, form, reps, isnovel))
    return out


def summary(repo, cap=300000, cap_cells=1 << 23):
    consts = harvest(repo)
    return {"constants": {str(k): v for k, v in consts.items()}, "novel": [c for c in consts if c not in BASELINE and c not in CAPACITY], "capacity_boundaries": list(CAPACITY),
            "only_as_cells_or_row_length": [c for c in consts if cap < c + 1 <= cap_cells], "left_out": [c for c in consts if c + 1 > max(cap, cap_cells)]}
