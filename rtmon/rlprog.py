"""Straight-line programs over run-length arrays (used by C16, canonical form checked as in C14).

A program keeps a few variables; each holds a RunLengthArray and, as its mirror, the dense numpy
array the same operations give.  Steps: ufunc with a scalar on either side, unary ufunc, binary ufunc of
two variables of equal length (which may be derived from each other), slice, mask indexing with a mask
computed from the variable itself, concatenation, astype.  After *every* step the new variable is decoded and
compared with its mirror (values, dtype, length) and its run boundaries are checked; at the end reductions and
element reads are compared and all earlier variables are decoded again (no step may have changed them).

Programs are generated on the dense mirrors only (numpy decides what is defined)."""
import numpy as np
from .core import CTX, attempt, held, violated, undefined, same_array, short
from . import rl

BIN = ["add", "subtract", "multiply", "maximum", "minimum", "greater", "less", "equal", "not_equal", "bitwise_and", "bitwise_or", "bitwise_xor", "logical_and", "logical_or", "floor_divide"]
UNARY = ["negative", "absolute", "logical_not", "square", "invert"]
CMP = ["greater", "less", "equal", "not_equal", "greater_equal"]
REDS = ["sum", "any", "all", "max", "mean"]


def _apply(step, env, encode=None):
    """execute one step on env (dense arrays or run-length arrays); returns the new value"""
    op = step["op"]
    x = env[step["x"]] if "x" in step else None
    if op == "scalar":
        uf = getattr(np, step["uf"])
        return uf(x, step["s"]) if step["side"] == "R" else uf(step["s"], x)
    if op == "unary":
        return getattr(np, step["uf"])(x)
    if op == "binary":
        return getattr(np, step["uf"])(x, env[step["y"]])
    if op == "slice":
        return x[step["s"]]
    if op == "mask":
        return x[getattr(np, step["uf"])(x, step["t"])]
    if op == "concat":
        return np.concatenate([x, env[step["y"]]])
    if op == "astype":
        return x.astype(step["dtype"])
    if op == "iscalar":
        # x op= scalar: the name gets the result; whether the old object is updated in place is the implementation's choice,
        # but no OTHER variable (the array x was sliced from, a sibling slice) may change
        import operator
        iop = {"add": operator.iadd, "subtract": operator.isub, "multiply": operator.imul}[step["uf"]]
        if isinstance(x, np.ndarray):
            x = x.copy()         # the dense mirror must not alias (numpy slices are views; run-length slices are values)
        return iop(x, step["s"])
    raise ValueError(op)


def gen_chain(rng, tier="quick", nsteps=None, dtype=None):
    from . import gen
    dtype = dtype or rng.choice(["int64", "int64", "int32", "uint8", "bool", "float64", "int8"])
    L = rng.choice([rng.randint(1, 12), rng.randint(1, 12), rng.randint(13, 40), 64])
    init = []
    for _ in range(rng.randint(1, 2)):
        v, _style = rl.gen_runs(rng, dtype, "small", length=L)
        init.append(np.resize(v, L).tolist())
    dense = [np.array(v).astype(dtype) for v in init]
    steps = []
    dead_g = set()
    nsteps = nsteps or rng.randint(3, 7 if tier == "quick" else 12)
    tries = 0
    while len(steps) < nsteps and tries < nsteps * 8:
        tries += 1
        alive = [i for i in range(len(dense)) if i not in dead_g]
        xi = rng.choice(alive) if rng.random() < 0.4 else alive[-1]
        x = dense[xi]
        op = rng.choice(["scalar", "scalar", "unary", "binary", "binary", "slice", "slice", "mask", "concat", "astype", "iscalar"])
        st = {"op": op, "x": xi}
        if op == "scalar":
            st.update(uf=rng.choice(BIN), s=rng.choice([2, 3, 1, 0, -1, 5, 2.5, True]), side=rng.choice("LR"))
            if x.dtype.kind == "u" and isinstance(st["s"], int) and st["s"] < 0:
                st["s"] = 3
        elif op == "iscalar":
            if x.dtype.kind == "b":
                continue
            st.update(uf=rng.choice(["add", "subtract", "multiply"]), s=rng.choice([1, 2, 10, 3]))
        elif op == "unary":
            st["uf"] = rng.choice(UNARY)
        elif op in ("binary", "concat"):
            same = [i for i, d in enumerate(dense) if len(d) == len(x) and i not in dead_g] if op == "binary" else alive
            st["y"] = rng.choice(same)
            if op == "binary":
                st["uf"] = rng.choice(BIN)
            elif len(x) + len(dense[st["y"]]) > 400:
                continue
        elif op == "slice":
            st["s"] = gen.gen_slice(rng, len(x))
        elif op == "mask":
            if len(x) == 0:
                continue
            st.update(uf=rng.choice(CMP), t=rng.choice(x.tolist()))
        else:
            st["dtype"] = rng.choice(["int64", "float64", "bool", "int32", "uint8"])
        with np.errstate(all="ignore"):
            o = attempt(_apply, st, dense)
        if not o.ok or not isinstance(o.value, np.ndarray) or o.value.ndim != 1 or o.value.dtype.kind not in "biuf":
            continue
        if len(o.value) == 0:
            continue      # C14 / C16 quantify over arrays of length >= 1: an empty selection is a legal *result* (checked in C15) but not an operand
        if o.value.dtype.kind == "f" and not np.all(np.isfinite(o.value)):
            continue      # keep the mirrors exactly comparable
        if o.value.dtype.kind in "iu" and len(o.value) and (np.abs(o.value.astype(np.float64)).max() > 2 ** 40):
            continue
        dense.append(o.value)
        steps.append(st)
        if op == "iscalar":
            dead_g.add(xi)       # the old object is not used again: whether it was updated in place is the implementation's business
    return {"kind": "chain", "dtype": dtype, "init": init, "steps": steps, "red": rng.choice(REDS)}


def run_chain(case):
    RLA = CTX.lib.RunLengthArray
    dt = np.dtype(case["dtype"])
    dense = [np.array(v).astype(dt) for v in case["init"]]
    enc = [RLA.from_array(d.copy()) for d in dense]
    # the decoded initial operands are the mirrors (-0.0 may have merged into 0.0 in an encoding)
    dense = [np.asarray(e.to_array()) for e in enc]
    tags = ["k:chain", "kind:" + dt.kind, "chain:%d" % len(case["steps"])]
    dead = set()
    desc = lambda k: "chain on encoded %s %s: %s" % (dt, short(case["init"], 120), short(case["steps"][:k + 1], 400))
    for k, st in enumerate(case["steps"]):
        tags.append("step:" + st["op"])
        o = attempt(_apply, st, dense)      # (no errstate override here: the floating-point-event tap must see what numpy does on the dense data)
        if not o.ok:
            return undefined("numpy raises at step %d" % k, tags)
        CTX.tick("c16:compare")
        a = attempt(_apply, st, enc)
        if not a.ok:
            return violated("%s: step %d raised %s: %s" % (desc(k), k, type(a.exc).__name__, a.exc), tags)
        g = a.value
        if not isinstance(g, RLA):
            # some selections may legitimately come back dense: compare as arrays, then re-encode to continue
            if isinstance(g, np.ndarray) and same_array(g, o.value, dtype=True):
                g = RLA.from_array(np.asarray(g).copy()) if len(g) else None
                if g is None:
                    return held(tags, True)
            else:
                return violated("%s: step %d returned %s, numpy gives %s" % (desc(k), k, short(g, 120), short(o.value, 120)), tags)
        d = attempt(lambda: np.asarray(g.to_array()))
        if not d.ok:
            return violated("%s: the result of step %d cannot be decoded: %r" % (desc(k), k, d), tags)
        if not same_array(d.value, o.value, dtype=True):
            return violated("%s: after step %d the encoded value decodes to %s %s, numpy gives %s %s" % (desc(k), k, d.value.dtype, short(d.value, 160), o.value.dtype, short(o.value, 160)), tags + ["chain-diverged"],
                            got=d.value, expected=o.value)
        if len(g) != len(o.value):
            return violated("%s: after step %d len() is %d, numpy's result has %d elements" % (desc(k), k, len(g), len(o.value)), tags)
        CTX.tick("c16:canonical")
        joined = (st["op"] == "binary") or (st["op"] == "slice" and (st["s"].step not in (None, 1)))
        c = rl.canonical(g, joined=joined) if len(o.value) else None
        if c:
            return violated("%s: the result of step %d is not canonical: %s" % (desc(k), k, c), tags + ["not-canonical"])
        dense.append(o.value)
        enc.append(g)
        if st["op"] == "iscalar":
            dead.add(st["x"])
    # reductions / element reads of the last value
    last, dl = enc[-1], dense[-1]
    if len(dl):
        name = case.get("red", "sum")
        if True:
            o = attempt(lambda: getattr(dl, name)())
        a = attempt(lambda: getattr(last, name)())
        if o.ok:
            if not a.ok:
                return violated("%s: %s() of the final value raised %r" % (desc(len(case["steps"])), name, a), tags)
            if not np.allclose(np.asarray(a.value, dtype=np.float64), np.asarray(o.value, dtype=np.float64), rtol=1e-9, atol=0, equal_nan=True):
                return violated("%s: %s() of the final value gives %s, numpy gives %s" % (desc(len(case["steps"])), name, short(a.value), short(o.value)), tags + ["red:" + name])
        for i in (0, -1, len(dl) // 2):
            a = attempt(lambda: np.asarray(last[i]))
            if not a.ok or not same_array(a.value, np.asarray(dl[i]), dtype=False):
                return violated("%s: element %d of the final value gives %s, numpy gives %s" % (desc(len(case["steps"])), i, repr(a) if not a.ok else a.value, dl[i]), tags)
    # no step changed any earlier variable
    CTX.tick("c16:operands-unchanged")
    for i, (e, dd) in enumerate(zip(enc, dense)):
        if i in dead:
            continue         # the left operand of an in-place operator may or may not have been updated in place
        d = attempt(lambda: np.asarray(e.to_array()))
        if not d.ok or not same_array(d.value, dd, dtype=True):
            return violated("%s: variable %d was changed by a later step: it decodes to %s, was %s" % (desc(len(case["steps"])), i, repr(d) if not d.ok else short(d.value, 120), short(dd, 120)), tags + ["operand-mutated"])
    return held(tags, len(case["steps"]) >= 3)
