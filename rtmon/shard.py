"""One shard = one child process: runs the cases of one property against the library
imported from RTMON_REPO, with taps on, and appends one JSON line per decided event to
its log.  The parent (runner.py) is the offline checker over these logs."""
import argparse
import importlib
import json
import os
import random
import sys
import time
import traceback
import warnings


class CaseTimeout(BaseException):
    pass


def load_lib(repo):
    repo = os.path.realpath(repo)
    sys.path.insert(0, repo)
    import npstructures  # noqa
    f = os.path.realpath(npstructures.__file__)
    if not f.startswith(repo + os.sep):
        raise RuntimeError("npstructures imported from %s, not from %s" % (f, repo))
    return npstructures


def global_state():
    """process-global state a library call could leak into: numpy print options / error state, the index-width switch"""
    import numpy as np
    st = {"printoptions": {k: (v if isinstance(v, (int, float, str, bool, type(None))) else repr(v)) for k, v in np.get_printoptions().items()}, "geterr": np.geterr()}
    try:
        from npstructures.raggedshape import ViewBase
        st["index_width"] = np.dtype(ViewBase._dtype).name
    except Exception:
        pass
    return st


class _EnvCategories:
    def __iter__(self):
        from .core import env_categories
        return iter(env_categories())


ENV_CATEGORIES = _EnvCategories()


class FpMonitor:
    """Floating-point-event tap.  numpy's error mode is set to 'call' around every case; the callback sees every divide / overflow /
    underflow / invalid event and attributes it to the library (some frame of the raising call lies in the library's source directory)
    or to the rest (the oracle's numpy calls on the dense data, the harness).  Behaviour is unchanged ('call' neither warns nor raises).
    An event kind that occurs inside the library but nowhere in the oracle's computation means: under np.seterr(all='raise') (or with
    warnings as errors) the library raises FloatingPointError on an input for which numpy on the dense data does not."""

    def __init__(self):
        self.libdir = None
        self.lib = {}
        self.other = set()

    def callback(self, kind, flag):
        f = sys._getframe(1)
        depth = 0
        where = None
        while f is not None and depth < 60:
            fn = f.f_code.co_filename
            if fn.startswith(self.libdir):
                where = "%s:%s" % (os.path.basename(fn), f.f_code.co_name)
                break
            f = f.f_back
            depth += 1
        if where:
            self.lib.setdefault(kind, where)
        else:
            self.other.add(kind)

    def run(self, prop, case):
        import numpy as np
        self.lib, self.other = {}, set()
        old = np.seterrcall(self.callback)
        self.err_leak = None
        try:
            with np.errstate(all="call"):
                res = prop.run(case)
                # the error mode / callback as the case leaves them (the context manager restores the mode on exit, which would hide a leak)
                now = np.geterr()
                if any(v != "call" for v in now.values()) or np.geterrcall() != self.callback:
                    self.err_leak = {k: v for k, v in now.items() if v != "call"} or {"errcall": "replaced"}
                return res
        finally:
            np.seterrcall(old)


FP = FpMonitor()


def warm_other_classes(lib):
    """Used by the odd-numbered shards before their first case: the *other* public classes of the library (subclasses and siblings that share
    modules, base classes and class-level attributes with the class under test) are created and used first.  A process in which some other
    part of the library ran earlier must give the same answers (state shared through class attributes / module tables / caches)."""
    import numpy as np
    done = []
    try:
        from npstructures.bitarray import BitMask, BitArray
        m = BitMask.zeros(200)
        m[[3, 17, 150]] = True
        BitArray.pack(np.array([1, 0, 3, 2, 1], dtype=np.uint8), 2).unpack()
        done.append("BitMask")
    except Exception:
        pass
    try:
        c = lib.Counter(np.array([3, 7, 11], dtype=np.int16))
        c.count(np.array([3, 3, 99], dtype=np.int16))
        hs = lib.HashSet(np.array([5, 9], dtype=np.uint8))
        hs.contains(np.array([5, 6], dtype=np.uint8))
        t = lib.HashTable(np.array([1, 2, 40]), np.array([0.5, 1.5, 2.5]), mod=3)
        t[np.array([2, 40])]
        done.append("hashtable")
    except Exception:
        pass
    try:
        r2 = lib.RunLength2dArray.from_array(np.array([[1, 1, 2], [3, 3, 3]], dtype=np.int8))
        r2.to_array()
        rr = lib.RunLengthRaggedArray.from_ragged_array(lib.RaggedArray([[1.5, 1.5], [2.0]]))
        rr.to_array()
        lib.RunLengthArray.from_array(np.array([True, True, False])).to_array()
        done.append("runlength")
    except Exception:
        pass
    try:
        ra = lib.RaggedArray(np.arange(6, dtype=np.uint8), [1, 0, 5])
        ra.sum(axis=-1), ra[1:], np.bitwise_and.reduce(ra, axis=-1), ra.max(axis=-1), str(ra), ra[:, ::-1].tolist()
        lib.RaggedArray.from_numpy_array(np.zeros((2, 3)))
        done.append("ragged")
    except Exception:
        pass
    try:
        B = lib.npdataclass(type("WarmBase", (), {"__annotations__": {"a": np.ndarray}}))
        B(np.arange(3))[1:]
        done.append("npdataclass")
    except Exception:
        pass
    return done


def run_one(prop, case, ctx):
    from .core import Result, INCONCLUSIVE, VIOLATED, violated
    ctx.take_alerts()
    watch = getattr(prop, "GLOBAL_STATE_MONITOR", False)
    before = global_state() if watch else None
    import signal

    def on_alarm(signum, frame):
        raise CaseTimeout()
    old = signal.signal(signal.SIGALRM, on_alarm)
    signal.alarm(int(os.environ.get("RTMON_CASE_TIMEOUT", "150")))      # generous wall-clock watchdog: firing is inconclusive, never a verdict
    try:
        with warnings.catch_warnings(record=True) as wlog:
            # warning tap: deprecation-class warnings attributed to a line of the library itself are recorded (everything else stays ignored)
            from . import core as core_
            core_.ENV_MODE[0] = "always"
            core_.quiet_filters()
            ctx.tick("warning-tap-armed")
            try:
                if os.environ.get("RTMON_ERRSTATE") == "raise":
                    import numpy as np
                    with np.errstate(all="raise"):
                        res = prop.run(case)
                else:
                    res = FP.run(prop, case)
                if wlog and res["verdict"] == "held" and not os.environ.get("RTMON_NO_ENV_TWIN"):
                    # environment twin: the same case once more in a process that treats these warnings as errors (python -W error,
                    # pytest's filterwarnings = error): the driver's own oracle decides whether the calls are still answered
                    ctx.tick("env-twin:warnings-as-errors")
                    first_ = wlog[0]
                    where_ = "%s:%s %s: %s" % (os.path.basename(str(first_.filename)), first_.lineno, first_.category.__name__, str(first_.message)[:160])
                    with warnings.catch_warnings():
                        core_.ENV_MODE[0] = "error"
                        core_.quiet_filters()
                        try:
                            res2 = FP.run(prop, case)
                        except tuple(ENV_CATEGORIES) as w_:
                            # the warning-turned-error left the library in a call the driver makes on its way (building the receiver, reading a
                            # result back): the first pass went through the very same calls without an exception
                            res2 = violated("%s: %s" % (type(w_).__name__, str(w_)[:200]), list(res["tags"]))
                        finally:
                            core_.ENV_MODE[0] = "always"
                    if res2["verdict"] == VIOLATED:
                        res = violated("with deprecation warnings turned into errors (python -W error, pytest filterwarnings=error) -- the library line %s -- the same case fails: %s" % (where_, res2.get("msg")),
                                       list(res2["tags"]) + ["env:warnings-as-errors"])
                    else:
                        res["tags"] = list(res["tags"]) + ["warning-in-library"]
            finally:
                signal.alarm(0)
                signal.signal(signal.SIGALRM, old)
        if watch:
            ctx.tick("global-state")
            after = global_state()
            if getattr(FP, "err_leak", None):
                after = dict(after, geterr=dict(after["geterr"], **{k: "%s (left behind by the operations of the case)" % v for k, v in FP.err_leak.items()}))
            if after != before and res["verdict"] != VIOLATED:
                changed = {k: (before[k], after[k]) for k in before if before[k] != after.get(k)}
                import numpy as np
                np.set_printoptions(**{k: v for k, v in before["printoptions"].items() if k in ("linewidth", "precision", "threshold", "edgeitems", "suppress")})
                res = violated("the operations of this case changed process-global state that later outcomes depend on: %s" % (changed,), list(res["tags"]) + ["global-state-leak"])
    except CaseTimeout:
        return Result(INCONCLUSIVE, ["case-timeout"], "the case did not finish within the per-case watchdog", False)
    except Exception as exc_:
        # An exception that left the driver.  If the deepest frame that belongs to either the harness or the library is a line of the LIBRARY,
        # the library raised while the driver was using what it had been given (reading back a returned array, iterating, building the next
        # operand from a result): the result is unusable -- a violation, as for a monitored call.  Anything else is a failure of the harness
        # itself (generator / model / tap): never a violation, never a pass.
        deepest = None
        tb_ = exc_.__traceback__
        here_ = os.path.dirname(os.path.abspath(__file__)) + os.sep
        while tb_ is not None:
            fn_ = tb_.tb_frame.f_code.co_filename
            if FP.libdir and fn_.startswith(FP.libdir):
                deepest = ("lib", "%s:%d %s" % (os.path.basename(fn_), tb_.tb_lineno, tb_.tb_frame.f_code.co_name))
            elif fn_.startswith(here_):
                deepest = ("harness", None)
            tb_ = tb_.tb_next
        if deepest and deepest[0] == "lib" and not isinstance(exc_, (MemoryError, RecursionError)):
            return violated("while the driver was reading back / using a result, the library raised %s: %s (at %s)\n%s" % (
                type(exc_).__name__, str(exc_)[:200], deepest[1], traceback.format_exc(limit=6)[-900:]), ["raised-outside-monitored-call"])
        return Result(INCONCLUSIVE, ["harness-error"], traceback.format_exc(limit=8), False)
    if FP.libdir and FP.lib:
        ctx.tick("fp-events-in-library")
        only = sorted(k for k in FP.lib if k not in FP.other and k != "underflow")
        if only:
            res["tags"] = list(res["tags"]) + ["fp-lib-only:" + k for k in only]
            if getattr(prop, "FP_STRICT", False) and res["verdict"] == "held":
                k = only[0]
                where0_ = FP.lib[k]
                # confirm on a second execution of the same case (an event that does not come back is recorded, not reported)
                try:
                    with warnings.catch_warnings():
                        warnings.simplefilter("ignore")
                        FP.run(prop, case)
                    again_ = k in FP.lib and k not in FP.other
                except Exception:
                    again_ = False
                ctx.take_alerts()
                if not again_:
                    ctx.tick("fp-event-not-reproduced")
                    res["tags"] = list(res["tags"]) + ["fp-event-not-reproduced"]
                    return res
                FP.lib[k] = where0_
                res = violated("the library's computation hits a floating-point '%s' event (in %s) that numpy's computation on the same data does not have: with np.seterr(all='raise') "
                               "or warnings turned into errors this call raises FloatingPointError although the dense computation succeeds" % (k, FP.lib[k]), list(res["tags"]) + ["fp-event"])
    alerts = ctx.take_alerts()
    if alerts and res["verdict"] != VIOLATED:
        name, msg = alerts[0]
        res = violated("contract %s: %s" % (name, msg), list(res["tags"]) + ["contract:" + name])
    return res


def main(argv=None):
    ap = argparse.ArgumentParser()
    ap.add_argument("--prop", required=True)
    ap.add_argument("--tier", default="quick")
    ap.add_argument("--seed", type=int, default=0)
    ap.add_argument("--shard", type=int, default=0)
    ap.add_argument("--nshards", type=int, default=1)
    ap.add_argument("--out", required=True)
    ap.add_argument("--budget", type=float, default=60.0, help="wall-clock cap for the random part (s)")
    ap.add_argument("--replay", default=None)
    a = ap.parse_args(argv)

    t0 = time.time()
    repo = os.environ.get("RTMON_REPO", "/repo")
    lib = load_lib(repo)
    from . import cov, codec
    from .core import CTX, HELD, VIOLATED, UNDEFINED, INCONCLUSIVE
    cov_on = cov.start(os.path.join(repo, "npstructures"))
    FP.libdir = os.path.join(os.path.realpath(repo), "npstructures") + os.sep
    CTX.lib = lib
    prop = importlib.import_module("rtmon.props." + a.prop.lower())
    if hasattr(prop, "setup"):
        prop.setup(lib)
    CTX.shard = a.shard
    warmed = warm_other_classes(lib) if (a.shard % 2 == 1 and not a.replay) else []
    if a.replay and json.load(open(a.replay)).get("other_classes_used_first"):
        warmed = warm_other_classes(lib)

    # self-test of the warning tap: a deprecation warning attributed to a module of the library is recorded, one attributed to other code is not
    with warnings.catch_warnings(record=True) as wl_:
        from . import core as core_
        core_.quiet_filters()
        warnings.warn_explicit("self-test", DeprecationWarning, "selftest.py", 1, module="npstructures.selftest")
        warnings.warn_explicit("self-test", DeprecationWarning, "selftest.py", 2, module="rtmon.selftest")
        CTX.tick("warning-tap-selftest", len(wl_) == 1)

    out = open(a.out, "w")
    kept = {}

    def emit(src, idx, case, res):
        h = codec.case_hash(case)
        fid = None
        if res["verdict"] == VIOLATED and hasattr(prop, "classify"):
            try:
                fid = prop.classify(case, res)
            except Exception:
                fid = None
        ev = {"src": src, "i": idx, "h": h, "v": res["verdict"], "tags": res["tags"], "nt": res["nontrivial"]}
        if fid:
            ev["fid"] = fid
        if warmed and res["verdict"] != HELD:
            ev["warm"] = True      # the shard had used the library's other classes first (needed to replay)
        keep = res["verdict"] not in (HELD,)
        key = (res["verdict"],) + tuple(sorted(res["tags"]))[:4]
        huge = isinstance(case, dict) and any(isinstance(v_, (list, tuple, str)) and len(v_) > 2000 for v_ in case.values())        # (bodies of big cases are kept only when they are needed for a replay)
        if not huge and isinstance(case, dict):
            try:
                huge = len(json.dumps(codec.enc(case), allow_nan=False)) > 40000
            except Exception:
                huge = True
        if not keep and kept.get(key, 0) < 2 and len(kept) < 400 and not huge:
            keep = True
        if keep:
            kept[key] = kept.get(key, 0) + 1
            if kept[key] <= 25:
                ev["case"] = codec.enc(case)
                if res.get("msg"):
                    ev["msg"] = str(res["msg"])[:1500]
                for k in ("got", "expected"):
                    if k in res:
                        ev[k] = codec.enc(res[k]) if not isinstance(res[k], str) else res[k][:600]
        out.write(json.dumps(ev, allow_nan=False) + "\n")

    n = 0
    if a.replay:
        case = codec.dec(json.load(open(a.replay))["case"])
        res = run_one(prop, case, CTX)
        emit("replay", 0, case, res)
        n = 1
    else:
        idx = 0
        for src, gen in (("directed", getattr(prop, "directed", None)), ("sweep", getattr(prop, "sweep", None))):
            if gen is None:
                continue
            it = gen() if src == "directed" else gen(a.tier)
            for case in it:
                if idx % a.nshards == a.shard:
                    emit(src, idx, case, run_one(prop, case, CTX))
                    n += 1
                idx += 1
        # ---- sizes taken from the numeric constants of the source that is being monitored (rtmon/codeconst.py)
        from . import codeconst, gen as _gen
        cc = {"planned": 0, "run": 0, "no_size_drawn": 0, "stopped_early": False}
        try:
            cplan = codeconst.plan(repo, a.tier, cap=getattr(prop, "CONST_CAP", 300000), cap_cells=getattr(prop, "CONST_CAP_CELLS", 1 << 23))
        except Exception:
            cplan = []
        t_cc = time.time()
        mine_cc = [(ci, e_) for ci, e_ in enumerate(cplan) if ci % a.nshards == a.shard]
        crngs = {ci: random.Random(a.seed * 7919 + e_[0] * 131 + codeconst.FORMS_SMALL.index(e_[1])) for ci, e_ in mine_cc}
        # repetition-major: every (size, form) of this shard gets its first case before any gets its second (a wall-clock stop then thins all of them alike)
        for rep_ in range(max([e_[2] for _, e_ in mine_cc] or [0])):
            if cc["stopped_early"]:
                break
            for ci, (s_, form_, reps_, novel_) in mine_cc:
                if rep_ >= reps_:
                    continue
                crng = crngs[ci]
                cc["planned"] += 1
                if time.time() - t_cc > (8 if novel_ else 3) * a.budget:       # (constants the harness has not seen before get a larger share of wall-clock)
                    cc["stopped_early"] = True
                    break
                _gen.FORCED = {"size": s_, "form": form_, "used": 0, "novel": bool(novel_)}
                try:
                    if hasattr(prop, "const_case"):
                        case = prop.const_case(crng, a.tier, s_, form_)
                        used = case is not None
                    else:
                        case = prop.random_case(crng, a.tier)
                        used = _gen.FORCED["used"] > 0
                except Exception:
                    from .core import Result
                    emit("codeconst", ci, {"generator-error": True, "size": s_, "form": form_}, Result(INCONCLUSIVE, ["harness-error"], traceback.format_exc(limit=8), False))
                    continue
                finally:
                    _gen.FORCED = None
                if not used:
                    cc["no_size_drawn"] += 1
                    continue
                for case_ in (case if isinstance(case, list) else [case]):
                    res = run_one(prop, case_, CTX)
                    res["tags"] = list(res["tags"]) + ["codeconst", "codeconst:" + form_] + (["codeconst:novel"] if novel_ else [])
                    emit("codeconst", ci, case_, res)
                    cc["run"] += 1
                    n += 1
        rng = random.Random(a.seed * 1000003 + a.shard)
        total = prop.N_RANDOM.get(a.tier, 0)
        mine = total // a.nshards + (1 if a.shard < total % a.nshards else 0)
        t_rand = time.time()
        done = 0
        stopped_early = False
        for k in range(mine):
            if time.time() - t_rand > a.budget:
                stopped_early = True
                break
            try:
                case = prop.random_case(rng, a.tier)
            except Exception:
                from .core import Result
                emit("random", k, {"generator-error": True}, Result(INCONCLUSIVE, ["harness-error"], traceback.format_exc(limit=8), False))
                continue
            emit("random", k, case, run_one(prop, case, CTX))
            done += 1
            n += 1
        if hasattr(prop, "finish"):
            for case, res in prop.finish():
                emit("finish", 0, case, res)
    summ = {"summary": True, "shard": a.shard, "events": n, "mon": CTX.mon, "cov": cov.hits() if cov_on else None,
            "cov_on": cov_on, "wall_s": round(time.time() - t0, 2), "probe_alerts": CTX.probe_alerts,
            "lib_file": os.path.realpath(lib.__file__), "other_classes_used_first": warmed}
    if not a.replay:
        summ["codeconst"] = cc
        summ["random_planned"] = mine
        summ["random_done"] = done
        summ["stopped_early"] = stopped_early
    out.write(json.dumps(summ) + "\n")
    out.close()
    return 0


if __name__ == "__main__":
    sys.exit(main())
