from common import *
import warnings; warnings.simplefilter('ignore')
from c04c_vals import gen_vals
from npstructures import ragged_slice
from npstructures.mixin import NPSArray
rng = random.Random(10)
res = collections.defaultdict(list)
N=collections.Counter()
def mkra(rng, lens=None, dt=None):
    if lens is None: _, lens, dt0 = gen_rows(rng); dt = dt or dt0
    flat = gen_vals(rng, dt, sum(lens), False)
    offs = np.insert(np.cumsum(lens),0,0).astype(int)
    return RaggedArray(flat.copy(), lens), [flat[offs[i]:offs[i+1]] for i in range(len(lens))], lens, dt
def rowseq(got, exp):
    if not isinstance(got, RaggedArray): return 'notRA:'+type(got).__name__
    g=list(got)
    if [len(x) for x in g]!=[len(x) for x in exp]: return 'lens'
    for x,y in zip(g,exp):
        if not np.array_equal(x,np.asarray(y)): return 'value'
    return None
def rec(op, key, info, **tags):
    if key: res[(op,key)+tuple(sorted(tags.items()))].append(info)
for t in range(40000):
    op = rng.choice(['concat0','concat1','like','padded','nonzero','where','subset','maskidx','maskset','rslice_ra','rslice_1d','rslice_2d','nps'])
    N[op]+=1
    if op=='concat0':
        k=rng.randint(1,4); dt=rng.choice(DT)
        parts=[mkra(rng, dt=dt) for _ in range(k)]
        a=ex(lambda: np.concatenate([p[0] for p in parts]))
        exp=[r for p in parts for r in p[1]]
        rec(op, ('raised:'+a[1]+a[2][:40]) if a[0]=='exc' else rowseq(a[1],exp), ([p[2] for p in parts], dt.__name__), anyzero=any(len(p[2])==0 for p in parts), alltot0=all(sum(p[2])==0 for p in parts))
    elif op=='concat1':
        k=rng.randint(1,3); n=rng.randint(0,4); dt=rng.choice(DT)
        parts=[mkra(rng, lens=[rng.choice([0,0,1,2,3]) for _ in range(n)], dt=dt) for _ in range(k)]
        a=ex(lambda: np.concatenate([p[0] for p in parts], axis=-1))
        exp=[np.concatenate([p[1][i] for p in parts]) for i in range(n)]
        key = ('raised:'+a[1]+a[2][:40]) if a[0]=='exc' else rowseq(a[1],exp)
        if key is None and a[1].size and a[1].dtype!=np.dtype(dt): key='dtype'
        rec(op, key, ([p[2] for p in parts], dt.__name__), n0=(n==0), tot0=all(sum(p[2])==0 for p in parts))
    elif op=='like':
        ra, rows, lens, dt = mkra(rng)
        fn = rng.choice([np.zeros_like, np.ones_like, np.empty_like])
        a=ex(lambda: fn(ra))
        if a[0]=='exc': rec(op, 'raised:'+a[1], (lens,))
        else:
            r=a[1]
            key=None
            if not isinstance(r,RaggedArray) or list(r.lengths)!=lens or r.dtype!=ra.dtype: key='shape/dtype'
            elif fn is np.zeros_like and np.any(r.ravel()!=0): key='value'
            elif fn is np.ones_like and np.any(r.ravel()!=1): key='value'
            rec(op,key,(lens,fn.__name__))
    elif op=='padded':
        ra, rows, lens, dt = mkra(rng)
        side=rng.choice(['left','right']); fv = rng.choice([0,7])
        if dt is np.bool_: fv = bool(fv)
        a=ex(lambda: ra.as_padded_matrix(fill_value=fv, side=side))
        def oracle():
            M=max(lens); out=np.full((len(lens),M), fv, dtype=dt)
            for i,r in enumerate(rows):
                if side=='right': out[i,:len(r)]=r
                else: out[i,M-len(r):]=r
            return out
        o=ex(oracle)
        key=None
        if o[0]=='exc' and a[0]=='exc': key=None
        elif o[0]=='exc': key='oracle-raises'
        elif a[0]=='exc': key='raised:'+a[1]+':'+a[2][:40]
        elif a[1].shape!=o[1].shape: key='shape %s'%(a[1].shape,)
        elif not np.array_equal(a[1],o[1]): key='value'
        rec(op,key,(lens,side,fv,[r.tolist() for r in rows], a[1].tolist() if a[0]=='ok' else a), M0=(max(lens,default=0)==0), lastempty=bool(lens and lens[-1]==0))
    elif op=='nonzero':
        ra, rows, lens, dt = mkra(rng)
        a=ex(lambda: ra.nonzero() if rng.random()<.5 else np.nonzero(ra))
        exp=[(i,j) for i,r in enumerate(rows) for j,v in enumerate(r) if v]
        key=None
        if a[0]=='exc': key='raised:'+a[1]
        elif list(zip(a[1][0].tolist(), a[1][1].tolist()))!=exp: key='value'
        rec(op,key,(lens,[r.tolist() for r in rows], a))
    elif op=='where':
        ra, rows, lens, dt = mkra(rng)
        rb, rows2, _, _ = mkra(rng, lens=lens, dt=dt)
        m, mrows, _, _ = mkra(rng, lens=lens, dt=np.bool_)
        form = rng.choice(['xy','xs','sy'])
        if form=='xy': a=ex(lambda: np.where(m, ra, rb)); exp=[np.where(mm,x,y) for mm,x,y in zip(mrows,rows,rows2)]
        elif form=='xs': a=ex(lambda: np.where(m, ra, 5)); exp=[np.where(mm,x,5) for mm,x in zip(mrows,rows)]
        else: a=ex(lambda: np.where(m, 5, rb)); exp=[np.where(mm,5,y) for mm,y in zip(mrows,rows2)]
        key = ('raised:'+a[1]+':'+a[2][:50]) if a[0]=='exc' else rowseq(a[1],exp)
        rec(op,key,(lens,form,dt.__name__), form=form)
    elif op in('subset','maskidx','maskset'):
        ra, rows, lens, dt = mkra(rng)
        m, mrows, _, _ = mkra(rng, lens=lens, dt=np.bool_)
        if op=='subset':
            a=ex(lambda: ra.subset(m)); exp=[r[mm] for r,mm in zip(rows,mrows)]
            key = ('raised:'+a[1]+':'+a[2][:50]) if a[0]=='exc' else rowseq(a[1],exp)
        elif op=='maskidx':
            a=ex(lambda: ra[m]); exp=np.concatenate([r[mm] for r,mm in zip(rows,mrows)]) if rows else np.zeros(0,dtype=dt)
            key = ('raised:'+a[1]+':'+a[2][:50]) if a[0]=='exc' else (None if np.array_equal(a[1],exp) else 'value')
        else:
            a=ex(lambda: ra.__setitem__(m, 9 if dt is not np.bool_ else True))
            exp=[np.where(mm, 9 if dt is not np.bool_ else True, r) for r,mm in zip(rows,mrows)]
            key = ('raised:'+a[1]+':'+a[2][:50]) if a[0]=='exc' else rowseq(ra,exp)
        rec(op,key,(lens,[x.tolist() for x in mrows]), n0=len(lens)==0)
    elif op=='rslice_ra':
        ra, rows, lens, dt = mkra(rng)
        n=len(lens)
        starts=np.array([rng.randint(0,l) for l in lens],dtype=int)
        endmode = rng.choice(['pos','neg','none','beyond'])
        if endmode=='pos': ends=np.array([rng.randint(s,l) for s,l in zip(starts,lens)],dtype=int)
        elif endmode=='neg': ends=np.array([-rng.randint(1,max(1,l-s)) if l-s>0 else -1 for s,l in zip(starts,lens)],dtype=int)
        elif endmode=='beyond': ends=np.array([l+rng.randint(0,3) for l in lens],dtype=int)
        else: ends=None
        usestarts = rng.random()<.8
        a=ex(lambda: ragged_slice(ra, starts if usestarts else None, ends))
        exp=[r[(s if usestarts else 0):(None if ends is None else ends[i])] for i,(r,s) in enumerate(zip(rows,starts))]
        key = ('raised:'+a[1]+':'+a[2][:50]) if a[0]=='exc' else rowseq(a[1],exp)
        rec(op,key,(lens,starts.tolist(),None if ends is None else ends.tolist(), a if a[0]=='exc' else a[1].tolist(), [e.tolist() for e in exp]), endmode=endmode, n0=(n==0), hasempty=(0 in lens))
    elif op in('rslice_1d','nps'):
        L=rng.randint(1,8); dt=rng.choice(DT); v=gen_vals(rng,dt,L,False)
        k=rng.randint(0,4)
        starts=np.array([rng.randint(0,L) for _ in range(k)],dtype=int)
        ends=np.array([rng.randint(s,L) for s in starts],dtype=int)
        if op=='nps': a=ex(lambda: v.view(NPSArray)[starts:ends])
        else: a=ex(lambda: ragged_slice(v, starts, ends))
        exp=[v[s:e] for s,e in zip(starts,ends)]
        key = ('raised:'+a[1]+':'+a[2][:50]) if a[0]=='exc' else rowseq(a[1],exp)
        rec(op,key,(L,starts.tolist(),ends.tolist()), k0=(k==0))
    elif op=='rslice_2d':
        r_,c_=rng.randint(0,4),rng.randint(0,5); dt=rng.choice(DT); M=gen_vals(rng,dt,r_*c_,False).reshape(r_,c_)
        starts=np.array([rng.randint(0,c_) for _ in range(r_)],dtype=int)
        ends=np.array([rng.randint(s,c_) for s in starts],dtype=int)
        a=ex(lambda: ragged_slice(M, starts, ends))
        exp=[M[i,s:e] for i,(s,e) in enumerate(zip(starts,ends))]
        key = ('raised:'+a[1]+':'+a[2][:50]) if a[0]=='exc' else rowseq(a[1],exp)
        rec(op,key,(M.shape,starts.tolist(),ends.tolist()), r0=(r_==0))
print(N)
for k in sorted(res, key=str):
    v=res[k]; print(k, len(v)); print('    ', str(v[0])[:400])
