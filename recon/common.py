import numpy as np, random, collections, traceback
from npstructures import RaggedArray
def ex(f):
    try: return ('ok', f())
    except Exception as e: return ('exc', type(e).__name__, str(e)[:80])
DT = [np.bool_, np.int8, np.int16, np.int32, np.int64, np.uint8, np.uint16, np.uint32, np.uint64, np.float32, np.float64]
def gen_rows(rng, dt=None, maxrows=6, maxlen=5, allow_empty=True, minrows=0):
    nrows = rng.randint(minrows, maxrows)
    style = rng.random()
    lens = []
    for _ in range(nrows):
        if allow_empty and rng.random() < (0.6 if style<0.2 else 0.25): lens.append(0)
        else: lens.append(rng.randint(1, maxlen))
    dt = dt or rng.choice(DT)
    rows = []
    for L in lens:
        if dt is np.bool_: rows.append(np.array([rng.random()<.5 for _ in range(L)], dtype=bool))
        elif np.issubdtype(dt, np.unsignedinteger): rows.append(np.array([rng.randint(0,100) for _ in range(L)], dtype=dt))
        else: rows.append(np.array([rng.randint(-100,100) for _ in range(L)]).astype(dt))
    return rows, lens, dt
def mk(rows, dt):
    lens=[len(r) for r in rows]
    flat = np.concatenate(rows).astype(dt) if len(rows) else np.zeros(0,dtype=dt)
    return RaggedArray(flat.copy(), lens)
def aslist(x):
    if isinstance(x, RaggedArray): return ('RA', x.tolist())
    if isinstance(x, np.ndarray): return ('ND', x.tolist())
    if isinstance(x, (np.generic,)): return ('SC', x.item())
    return ('??', x)
def gen_slice(rng, n):
    def b(): 
        return rng.choice([None, None, rng.randint(-n-2, n+2)])
    st = rng.choice([None, 1, 1, 2, 3, -1, -1, -2, -3])
    return slice(b(), b(), st)
