import sys, re, io, contextlib, hashlib, json, os, traceback
os.chdir('/tmp/recon'); sys.path.insert(0,'/tmp/recon')
scale=int(os.environ.get('RECON_DIV','10'))
scripts=['c01.py','c02.py','c03.py','c04c.py','c05.py','c06a.py','c06c.py','c06e.py','c07.py','c08.py','c09.py','c10.py','c11.py','c11b.py','c12.py','c13.py','c14.py','c15.py','c16.py','c17.py','c17b.py','c17c.py','c18.py','c19.py','l7.py']
out={}
for s in scripts:
    src=open(s).read()
    src=re.sub(r'range\((\d{4,6})\)', lambda m: 'range(%d)'%max(200,int(m.group(1))//scale), src)
    src=src.replace("pickle.dump(dict(res), open('c06b.pkl','wb'))","")
    buf=io.StringIO()
    with contextlib.redirect_stdout(buf), contextlib.redirect_stderr(io.StringIO()):
        try: exec(compile(src, s, 'exec'), {'__name__':'__main__'})
        except BaseException as e: buf.write('\nCRASH %s %s' % (type(e).__name__, str(e)[:100]))
    txt=buf.getvalue()
    txt=re.sub(r'0x[0-9a-f]+','0x',txt)
    out[s]=hashlib.sha1(txt.encode()).hexdigest()[:12]
    if os.environ.get('RECON_DUMP'): open(os.environ['RECON_DUMP']+'.'+s+'.txt','w').write(txt)
json.dump(out, sys.stdout)
