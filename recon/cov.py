import sys, runpy, ast, os, re, io, contextlib
mon=sys.monitoring; TID=3
mon.use_tool_id(TID,'cov'); hits=set()
def line_cb(code, line):
    if '/npstructures/' in code.co_filename: hits.add((code.co_filename, line))
    return mon.DISABLE
mon.register_callback(TID, mon.events.LINE, line_cb)
mon.set_events(TID, mon.events.LINE)
scripts = sys.argv[1:]
for s in scripts:
    src=open(s).read()
    src=re.sub(r'range\((\d{4,6})\)', lambda m: 'range(%d)'%max(300,int(m.group(1))//20), src)
    with contextlib.redirect_stdout(io.StringIO()):
        try: exec(compile(src, s, 'exec'), {'__name__':'__main__'})
        except SystemExit: pass
        except Exception as e: print('ERR',s,e, file=sys.stderr)
mon.set_events(TID, 0)
# statement lines per function
import npstructures
root=os.path.dirname(npstructures.__file__)
for dirpath,_,files in os.walk(root):
    for f in files:
        if not f.endswith('.py'): continue
        p=os.path.join(dirpath,f)
        tree=ast.parse(open(p).read())
        for node in ast.walk(tree):
            if isinstance(node,(ast.FunctionDef,)):
                lines=set()
                for n in ast.walk(node):
                    if isinstance(n, ast.stmt) and n is not node and not isinstance(n,(ast.FunctionDef,ast.ClassDef)):
                        # skip docstrings
                        if isinstance(n, ast.Expr) and isinstance(n.value, ast.Constant) and isinstance(n.value.value,str): continue
                        lines.add(n.lineno)
                if not lines: continue
                hit={l for l in lines if (p,l) in hits}
                miss=sorted(lines-hit)
                if miss:
                    print('%-34s %-28s %d/%d  miss %s' % (os.path.relpath(p,root), node.name, len(hit), len(lines), miss[:18]))
