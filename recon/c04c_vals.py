import numpy as np
def gen_vals(rng, dt, L, extreme):
    if dt is np.bool_: return np.array([rng.random()<.5 for _ in range(L)], dtype=bool)
    if np.issubdtype(dt, np.integer):
        ii = np.iinfo(dt)
        pool = [0,1,2,3,5] + ([ii.min, ii.max, ii.max-1, ii.min+1] if extreme else [])
        if ii.min<0: pool += [-1,-2,-7]
        return np.array([rng.choice(pool) for _ in range(L)], dtype=dt)
    pool = [0.0, 1.0, -1.5, 2.25, 100.0] + ([np.nan, np.inf, -np.inf, -0.0, 1e30, 2.0**53+2] if extreme else [])
    return np.array([rng.choice(pool) for _ in range(L)], dtype=dt)
