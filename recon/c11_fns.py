import numpy as np
KD = [np.int8,np.int16,np.int32,np.int64,np.uint8,np.uint16,np.uint32,np.uint64, None]
def gen_keys(rng):
    kd = rng.choice(KD)
    nk = rng.randint(1,8)
    style = rng.choice(['small','neg','big','dense'])
    if kd is None: lo,hi = -50,50
    else:
        ii=np.iinfo(kd); lo,hi = int(ii.min), int(ii.max)
    if style=='small': lo2,hi2 = max(lo,0), min(hi,40)
    elif style=='neg': lo2,hi2 = max(lo,-40), min(hi,40)
    elif style=='big': lo2,hi2 = max(lo,-2**62), min(hi,2**62)
    else: lo2,hi2 = max(lo,0), min(hi,nk+2)
    pool=set()
    tries=0
    while len(pool)<nk and tries<100:
        pool.add(rng.randint(lo2,hi2)); tries+=1
    keys=list(pool); rng.shuffle(keys)
    mod = rng.choice([None,None,1,2,3,7,len(keys),17,1000])
    return keys, kd, mod, style, (lo,hi)
