import numpy as np, random, collections, warnings
warnings.simplefilter('ignore')
from npstructures import RunLengthArray, RunLengthRaggedArray, RaggedArray
from common import ex, DT, gen_slice
from c04c_vals import gen_vals
from c14_fns import gen_runs, canon, eqarr
rng = random.Random(16)
res = collections.defaultdict(list)
N=collections.Counter()
def dense(x):
    if isinstance(x, RunLengthArray): return x.to_array()
    if isinstance(x, RunLengthRaggedArray): return x.to_array()
    return x
for t in range(60000):
    dt=rng.choice(DT)
    v=gen_runs(rng,dt,False,maxlen=12); L=len(v)
    rl=RunLengthArray.from_array(v)
    kind=rng.choice(['int','list','arr','mask','rlmask','slice','slice','windows'])
    N[kind]+=1
    tag=()
    if kind=='int':
        i=rng.randint(-L-2,L+1); o=ex(lambda: v[i]); a=ex(lambda: rl[i]); idx=i
        tag=('inrange' if -L<=i<L else 'oob',)
    elif kind in('list','arr'):
        q=[rng.randint(-L,L-1) for _ in range(rng.randint(1,6))]; idx=q if kind=='list' else np.array(q)
        o=ex(lambda: v[idx]); a=ex(lambda: rl[idx])
    elif kind=='mask':
        m=np.array([rng.random()<.5 for _ in range(L)]); idx=m
        o=ex(lambda: v[m]); a=ex(lambda: rl[m])
    elif kind=='rlmask':
        m=gen_runs(rng,np.bool_,False,maxlen=L); 
        m=np.resize(m,L).astype(bool); idx=m
        o=ex(lambda: v[m]); a=ex(lambda: dense(rl[RunLengthArray.from_array(m)]))
        tag=('anytrue' if m.any() else 'allfalse',)
    elif kind=='slice':
        s=gen_slice(rng,L); idx=s
        o=ex(lambda: v[s]); 
        r_=ex(lambda: rl[s])
        a=r_ if r_[0]=='exc' else ex(lambda: dense(r_[1]))
        st=s.step or 1
        def oob(x): return x is not None and (x>L or x<-L)
        tag=('step1' if st==1 else ('pos' if st>0 else ('-1' if st==-1 else 'neg')), 'oob' if (oob(s.start) or oob(s.stop)) else 'inb', 'empty' if (o[0]=='ok' and len(o[1])==0) else 'nonempty')
        if r_[0]=='ok' and isinstance(r_[1],RunLengthArray):
            c=canon(r_[1], joined=(st!=1))
            if c: res[('canon-slice:'+c,)+tag].append((v.tolist(), s))
    else:
        k=rng.randint(1,4)
        starts=np.array([rng.randint(0,L-1) for _ in range(k)]); stops=np.array([rng.randint(s+1,L) for s in starts])
        idx=(starts.tolist(),stops.tolist())
        o=ex(lambda: [v[s:e] for s,e in zip(starts,stops)])
        r_=ex(lambda: rl[starts:stops])
        a=r_ if r_[0]=='exc' else ex(lambda: [row.to_array() for row in r_[1]])
    key=None
    if o[0]=='exc' and a[0]=='exc': continue
    if o[0]=='exc': key='oracle-raises-accepted:'+o[1]
    elif a[0]=='exc': key='raised:'+a[1]+':'+a[2][:40]
    else:
        if kind=='windows':
            if len(a[1])!=len(o[1]) or not all(np.array_equal(x,y) for x,y in zip(a[1],o[1])): key='wrong'
        else:
            g=np.asarray(a[1]); e=np.asarray(o[1])
            if g.shape!=e.shape: key='shape %s vs %s'%(g.shape,e.shape) if kind!='slice' else 'len-wrong'
            elif not np.array_equal(g,e): key='value'
            elif g.dtype!=e.dtype: key='dtype'
    if key: res[(kind,key)+tag].append((v.tolist(), idx, o if o[0]=='exc' else np.asarray(o[1]).tolist() if kind!='windows' else None, a if a[0]=='exc' else (np.asarray(a[1]).tolist() if kind!='windows' else None)))
print(N)
for k,v in sorted(res.items(), key=str): print(k,len(v),'   ',str(v[0])[:300])
