from common import *
from c06b_fns import gen_rowsel, apply_model
rng = random.Random(8)
res = collections.defaultdict(list)
N=0; skipped=0
for t in range(80000):
    rows, lens, dt = gen_rows(rng, dt=np.int64, maxrows=6, maxlen=7, allow_empty=rng.random()<.6)
    ra = mk(rows, dt)
    model = [r.tolist() for r in rows]
    cur = ra; trace=[]
    bad=None; skip=False
    depth=rng.randint(3,5)
    for d in range(depth):
        n=len(model)
        k, rs = gen_rowsel(rng, n)
        maxl = max([len(r) for r in model], default=0)
        cs = gen_slice(rng, maxl) if rng.random()<.5 else None
        sel = apply_model(model,k,rs,None)
        if cs is not None and (cs.step or 1)<0 and any(len(r)==0 for r in sel): skip=True; break
        if k=='ell' and cs is None and d>0: skip=True; break
        idx = rs if cs is None else (rs, cs)
        trace.append(idx)
        model = apply_model(model, k, rs, cs)
        r = ex(lambda: cur[idx])
        if r[0]=='exc': bad=('idx-raised:'+r[1], d); break
        cur=r[1]
    if skip: skipped+=1; continue
    N+=1
    if bad is None:
        pre = ex(lambda: (len(cur), cur.size, cur.lengths.tolist()))
        exp_pre = (len(model), sum(len(r) for r in model), [len(r) for r in model])
        g = ex(lambda: cur.tolist())
        if g != ('ok', model):
            bad = ('content-wrong' if g[0]=='ok' else 'read-raised:'+g[1], depth)
        elif pre != ('ok', exp_pre): bad=('meta-wrong',depth)
    if bad:
        res[bad].append(([x.tolist() for x in rows], trace, model, g if bad[0][0] in 'cr' else None))
print(N, skipped)
for k,v in sorted(res.items(), key=str): print(k, len(v), v[0])
