import numpy as np
from numbers import Number
from npstructures import RaggedArray
ra = RaggedArray([[1,2],[3]], dtype=np.uint16)
for s in [np.True_, np.int8(3), np.uint64(3), np.float32(2.5), np.float16(1), np.int64(3)]:
    print(type(s).__name__, isinstance(s, Number), end=' ')
    try:
        r = np.add(ra, s); print(r.dtype, r.tolist(), 'numpy:', (np.array([1,2],dtype=np.uint16)+s).dtype)
    except Exception as e: print('EXC', type(e).__name__, str(e)[:60])
# 0-d arrays
for s in [np.array(3,dtype=np.int8), np.array(True)]:
    r = np.add(ra, s); print('0d', r.dtype, (np.array([1,2],dtype=np.uint16)+s).dtype)
# column vec dtype promotions
for dt in [np.int8, np.float32, np.float64, np.bool_, np.uint64, np.int64]:
    col = np.array([[1],[2]], dtype=dt)
    r = ra + col
    e = np.array([1,2],dtype=np.uint16)+col[0]
    print('col', np.dtype(dt).name, r.dtype, e.dtype, r.tolist())
# float col with negative zero / nan
raf = RaggedArray([[1.,2.],[],[3.]], dtype=np.float64)
print((raf*np.array([[np.nan],[5.],[-0.0]])).tolist())
print((np.array([[10],[20],[30]]) - raf).tolist())
# bool ra with col
rb = RaggedArray([[True,False],[],[True]])
print((rb & np.array([[True],[True],[False]])).tolist(), (rb & np.array([[True],[True],[False]])).dtype)
print((rb + np.array([[1],[2],[3]])).tolist())
# operators
print((-raf).tolist(), (raf>1).tolist(), (raf**2).tolist(), (2**raf).tolist(), (raf//2).tolist(), abs(-raf).tolist())
# out= / where= kwargs
try:
    print(np.add(raf, 1, where=np.array([True]*3)).tolist())
except Exception as e: print('where kw', type(e).__name__, e)
# in-place
x = RaggedArray([[1,2],[3]]); y=x; x += 1; print(x.tolist(), y is x, y.tolist())
# ra with 1-d array matching a row?  unsupported
try: print((ra + np.array([1,2])).tolist())
except Exception as e: print('1d', type(e).__name__, str(e)[:80])
# ufunc with 2 outputs
try: print(np.divmod(ra, 2))
except Exception as e: print('divmod', type(e).__name__, str(e)[:80])
