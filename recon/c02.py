from common import *
rng = random.Random(1)
res = collections.defaultdict(list)
N=0
for t in range(20000):
    rows, lens, dt = gen_rows(rng, dt=np.int64)
    n = len(rows)
    ra = mk(rows, dt)
    pyrows = [r.tolist() for r in rows]
    kind = rng.choice(['int','slice','list','mask','ell','empty_list'])
    if kind=='int': rs = rng.randint(-n-1, n+1)
    elif kind=='slice': rs = gen_slice(rng, n)
    elif kind=='list': rs = [rng.randint(-n, n-1) for _ in range(rng.randint(1,4))] if n else []
    elif kind=='mask': rs = np.array([rng.random()<.5 for _ in range(n)], dtype=bool)
    elif kind=='ell': rs = Ellipsis
    else: rs=[]
    ck = rng.choice(['none','int','slice'])
    # oracle
    def oracle():
        if kind=='int': sel = pyrows[rs]; single=True
        elif kind=='slice': sel = pyrows[rs]; single=False
        elif kind in('list','empty_list'): sel=[pyrows[i] for i in rs]; single=False
        elif kind=='mask': sel=[r for r,m in zip(pyrows,rs) if m]; single=False
        else: sel=pyrows; single=False
        if ck=='none': return ('ND',sel) if single else ('RA',sel)
        if single:
            if ck=='int': return ('SC', sel[cs])
            return ('ND', sel[cs])
        if ck=='int': return ('ND',[r[cs] for r in sel])
        return ('RA',[r[cs] for r in sel])
    maxl = max(lens) if lens else 0
    if ck=='int': cs = rng.randint(-maxl-1, maxl+1)
    elif ck=='slice': cs = gen_slice(rng, maxl)
    else: cs=None
    idx = rs if ck=='none' else (rs, cs)
    o = ex(oracle)
    a = ex(lambda: aslist(ra[idx]))
    N+=1
    key=None
    if o[0]=='exc' and a[0]=='exc': continue
    if o[0]=='exc' and a[0]=='ok': key='accepted-out-of-range'
    elif o[0]=='ok' and a[0]=='exc': key='raised:'+a[1]
    elif o[1]!=a[1]:
        key = 'wrongkind' if o[1][1]==a[1][1] else 'wrongvalue'
    if key:
        stepsign = None
        if ck=='slice': stepsign = 'neg' if (cs.step or 1)<0 else ('pos1' if (cs.step or 1)==1 else 'pos')
        rstep = None
        if kind=='slice': rstep = 'neg' if (rs.step or 1)<0 else ('pos1' if (rs.step or 1)==1 else 'pos')
        has_empty = 0 in lens
        res[(key, kind, rstep, ck, stepsign, has_empty)].append((pyrows, idx, o, a))
print(N)
for k in sorted(res, key=str):
    v=res[k]; print(k, len(v)); print('    ', v[0])
