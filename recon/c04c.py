from common import *
import warnings; warnings.simplefilter('ignore')
rng = random.Random(4)
res = collections.defaultdict(list)
UN = [np.negative, np.abs, np.logical_not, np.invert, np.sqrt, np.square, np.sign, np.isnan, np.exp, np.positive, np.floor]
BI = [np.add, np.subtract, np.multiply, np.true_divide, np.floor_divide, np.mod, np.power, np.maximum, np.minimum,
      np.equal, np.not_equal, np.less, np.less_equal, np.greater, np.greater_equal,
      np.bitwise_and, np.bitwise_or, np.bitwise_xor, np.left_shift, np.right_shift, np.logical_and, np.logical_or, np.logical_xor]
def gen_vals(rng, dt, L, extreme):
    if dt is np.bool_: return np.array([rng.random()<.5 for _ in range(L)], dtype=bool)
    if np.issubdtype(dt, np.integer):
        ii = np.iinfo(dt)
        pool = [0,1,2,3,5] + ([ii.min, ii.max, ii.max-1, ii.min+1] if extreme else [])
        if ii.min<0: pool += [-1,-2,-7]
        return np.array([rng.choice(pool) for _ in range(L)], dtype=dt)
    pool = [0.0, 1.0, -1.5, 2.25, 100.0] + ([np.nan, np.inf, -np.inf, -0.0, 1e30, 2.0**53+2] if extreme else [])
    return np.array([rng.choice(pool) for _ in range(L)], dtype=dt)
N=0
for t in range(60000):
    extreme = rng.random()<.5
    _, lens, dt = gen_rows(rng)
    n=len(lens); tot=sum(lens)
    flat = gen_vals(rng, dt, tot, extreme)
    ra = RaggedArray(flat.copy(), lens); snap=flat.copy()
    rowidx = np.repeat(np.arange(n), lens)
    if rng.random()<.2:
        uf = rng.choice(UN); kind='unary'; other=None; dt2=None
        o = ex(lambda: uf(flat)); a = ex(lambda: uf(ra))
    else:
        uf = rng.choice(BI)
        kind = rng.choice(['ra','npscalar','col','0d'])
        side = rng.choice(['L','R'])
        dt2 = rng.choice(DT)
        if kind=='ra':
            f2 = gen_vals(rng, dt2, tot, extreme); other = RaggedArray(f2.copy(), lens); ob=f2
        elif kind=='npscalar':
            other = gen_vals(rng, dt2, 1, extreme)[0]; ob=other
        elif kind=='0d':
            other = np.array(gen_vals(rng, dt2, 1, extreme)[0]); ob=other
        else:
            c = gen_vals(rng, dt2, n, extreme); other=c.reshape(n,1); ob=c[rowidx]
            if n==1: continue  # size-1 column is treated as scalar — check separately
        if side=='R':
            o = ex(lambda: uf(flat, ob)); a = ex(lambda: uf(ra, other))
        else:
            o = ex(lambda: uf(ob, flat)); a = ex(lambda: uf(other, ra))
    N+=1
    key=None
    if o[0]=='exc' and a[0]=='exc': pass
    elif o[0]=='exc': key='oracle-raises-but-accepted:'+o[1]
    elif a[0]=='exc': key='raised:'+a[1]+':'+a[2][:50]
    else:
        r=a[1]
        if not isinstance(r, RaggedArray): key='notRA'
        elif list(r.lengths)!=lens: key='lens'
        else:
            g=r.ravel(); e=o[1]
            if g.dtype!=e.dtype: key='dtype:%s->%s (exp %s)'%(dt.__name__, g.dtype, e.dtype)
            elif not np.array_equal(g,e,equal_nan=g.dtype.kind=='f'): key='value'
    if not np.array_equal(ra.ravel(), snap, equal_nan=snap.dtype.kind=='f'): key=(key or '')+'+mutated'
    if key: res[(key,kind)].append((uf.__name__, dt.__name__, lens, flat.tolist(), np.dtype(dt2).name if dt2 else None, aslist(other) if isinstance(other,(RaggedArray,np.ndarray)) else other, o if o[0]=='exc' else o[1].tolist(), a if a[0]=='exc' else aslist(a[1])))
print(N)
for k in sorted(res, key=str):
    v=res[k]; print(k, len(v), collections.Counter((x[0],x[1],x[4]) for x in v).most_common(8)); print('    ', v[0])
