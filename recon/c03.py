from common import *
import copy
rng = random.Random(2)
res = collections.defaultdict(list)
N=0
def sel_cells(lens, kind, rs, ck, cs):
    """return list of rows; each is list of (row, col) cells addressed; or raises"""
    n=len(lens)
    cells=[[ (i,j) for j in range(lens[i])] for i in range(n)]
    if kind=='int': sel=[cells[rs]]; single=True
    elif kind=='slice': sel=cells[rs]; single=False
    elif kind=='list': sel=[cells[i] for i in rs]; single=False
    elif kind=='mask': sel=[c for c,m in zip(cells,rs) if m]; single=False
    else: sel=cells; single=False
    if ck=='int': sel=[[r[cs]] for r in sel]
    elif ck=='slice': sel=[r[cs] for r in sel]
    return sel, single
for t in range(30000):
    rows, lens, dt = gen_rows(rng, dt=np.int64)
    n = len(rows)
    ra = mk(rows, dt)
    pyrows = [r.tolist() for r in rows]
    kind = rng.choice(['int','slice','list','mask','ell'])
    if kind=='int': rs = rng.randint(-n, n-1) if n else 0
    elif kind=='slice': rs = gen_slice(rng, n)
    elif kind=='list':
        rs = rng.sample(range(n), rng.randint(0,n)) if n else []
        rs = [i if rng.random()<.5 else i-n for i in rs]
    elif kind=='mask': rs = np.array([rng.random()<.5 for _ in range(n)], dtype=bool)
    else: rs = Ellipsis
    ck = rng.choice(['none','int','slice'])
    maxl = max(lens) if lens else 0
    if ck=='int': cs = rng.randint(-maxl-1, maxl+1)
    elif ck=='slice': cs = gen_slice(rng, maxl)
    else: cs=None
    idx = rs if ck=='none' else (rs, cs)
    o = ex(lambda: sel_cells(lens, kind, rs, ck, cs))
    if o[0]=='exc': continue   # only indexes accepted for reading
    sel, single = o[1]
    ncell = sum(len(r) for r in sel)
    vk = rng.choice(['scalar','flat','col','ra','ra_bad'])
    exp = copy.deepcopy(pyrows)
    if vk=='scalar':
        val = 999
        for r in sel:
            for (i,j) in r: exp[i][j]=999
    elif vk=='flat':
        vals = list(range(1000,1000+ncell)); val=np.array(vals)
        k=0
        for r in sel:
            for (i,j) in r: exp[i][j]=vals[k]; k+=1
        if single and ck=='int': val = vals[0]
    elif vk=='col':
        if single: continue
        val = np.array([[2000+k] for k in range(len(sel))])
        for k,r in enumerate(sel):
            for (i,j) in r: exp[i][j]=2000+k
    elif vk in ('ra','ra_bad'):
        if single or ck=='int': continue
        k=0; vr=[]
        for r in sel:
            vr.append([3000+k+q for q in range(len(r))]); 
            for q,(i,j) in enumerate(r): exp[i][j]=3000+k+q
            k+=len(r)
        if vk=='ra_bad':
            if not vr: continue
            # change lengths but keep total?  two variants
            if rng.random()<.5 or len(vr)<2: vr[-1]=vr[-1]+[7]
            else:
                # move one element between rows keeping total
                src=[q for q in range(len(vr)) if len(vr[q])>0]
                if not src: vr[0]=vr[0]+[7]
                else:
                    s=src[0]; d=(s+1)%len(vr); x=vr[s].pop(); vr[d].append(x)
        val = RaggedArray([np.array(v,dtype=np.int64) for v in vr], dtype=np.int64) 
    N+=1
    before = ra.tolist()
    a = ex(lambda: ra.__setitem__(idx, val))
    after = ra.tolist()
    hasempty_sel = any(len(r)==0 for r in sel) 
    stepsign=None
    if ck=='slice': stepsign = 'neg' if (cs.step or 1)<0 else 'pos'
    key=None
    if vk=='ra_bad':
        if a[0]=='ok': key='bad-accepted'
        elif after!=before: key='bad-refused-but-mutated'
    else:
        if a[0]=='exc':
            key='raised:'+a[1]
            if after!=before: key+='+mutated'
        elif after!=exp: key='wrong'
    if key: res[(key, vk, kind, ck, stepsign, hasempty_sel, ncell==0)].append((pyrows, idx, aslist(val) if not isinstance(val,int) else val, a, after, exp))
print(N)
for k in sorted(res, key=str):
    v=res[k]; print(k, len(v)); print('    ', v[0])
