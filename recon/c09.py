from common import *
import warnings; warnings.simplefilter('ignore')
from c04c_vals import gen_vals
rng = random.Random(11)
res = collections.defaultdict(list)
N=0
for t in range(30000):
    extreme = rng.random()<.3
    _, lens, dt = gen_rows(rng, maxlen=rng.choice([3,5,12]))
    n=len(lens); tot=sum(lens)
    flat = gen_vals(rng, dt, tot, extreme)
    offs = np.insert(np.cumsum(lens),0,0).astype(int)
    rows=[flat[offs[i]:offs[i+1]] for i in range(n)]
    ra = RaggedArray(flat.copy(), lens)
    M = max(lens, default=0)
    cols = [[r[j] for r in rows if len(r)>j] for j in range(M)]
    op = rng.choice(['sum0','np.sum0','mean0','col_counts','getcol'])
    kd=np.dtype(dt).kind
    if op in('sum0','np.sum0'):
        o = ex(lambda: np.array([np.sum(np.array(c,dtype=dt)) for c in cols]))
        a = ex(lambda: ra.sum(axis=0) if op=='sum0' else np.sum(ra, axis=0))
    elif op=='mean0':
        o = ex(lambda: np.array([np.mean(np.array(c,dtype=dt)) for c in cols]))
        a = ex(lambda: ra.mean(axis=0))
    elif op=='col_counts':
        o = ex(lambda: np.array([len(c) for c in cols]))
        a = ex(lambda: ra.col_counts())
    else:
        j = rng.randint(0, M) ; 
        o = ex(lambda: np.array(cols[j], dtype=dt) if j<M else np.zeros(0,dtype=dt))
        a = ex(lambda: ra.get_column_values(j))
    N+=1
    key=None
    if M==0: dom='M0'
    else: dom=''
    if o[0]=='exc' and a[0]=='exc': continue
    if o[0]=='exc': key='oracle-raises:'+o[1]
    elif a[0]=='exc': key='raised:'+a[1]+':'+a[2][:40]
    else:
        g=np.asarray(a[1]); e=np.asarray(o[1])
        if g.shape!=e.shape: key='shape %s vs %s'%(g.shape,e.shape)
        elif not np.array_equal(g,e,equal_nan=True):
            key='value'
            if np.allclose(g.astype(float),e.astype(float),equal_nan=True): key='value-close'
        elif g.dtype!=e.dtype: key='dtype %s exp %s'%(g.dtype,e.dtype)
    if key: res[(op,key,kd,dom,extreme)].append((dt.__name__, [r.tolist() for r in rows], o if o[0]=='exc' else o[1].tolist(), a if a[0]=='exc' else np.asarray(a[1]).tolist()))
print(N)
for k in sorted(res, key=str):
    v=res[k]; print(k, len(v), collections.Counter(x[0] for x in v).most_common(4)); print('    ', str(v[0])[:400])
