"""prototype: random straight-line programs over RaggedArray vs list model"""
from common import *
import copy, warnings
warnings.simplefilter('ignore')

class Skip(Exception): pass

def is_lazy(x): return isinstance(x, RaggedArray) and not x.is_contigous

def m_sel(rows, k, rs, cs):
    if k=='slice': sel=rows[rs]
    elif k=='list': sel=[rows[i] for i in rs]
    elif k=='mask': sel=[r for r,m in zip(rows,rs) if m]
    else: sel=rows
    if cs is not None: sel=[r[cs] for r in sel]
    return [list(r) for r in sel]

def gen_program(rng, nsteps, avoid):
    """returns list of steps; each step is a dict. generation is model-driven (needs shapes)"""
    rows, lens, dt = gen_rows(rng, dt=np.int64, maxrows=5, maxlen=5, allow_empty=rng.random()<.7)
    model = {'a0': [r.tolist() for r in rows]}
    steps=[('init','a0', copy.deepcopy(model['a0']))]
    nvar=1
    def fresh():
        nonlocal nvar; nvar+=1; return 'a%d'%(nvar-1)
    for s in range(nsteps):
        u = rng.choice(list(model))
        U = model[u]; n=len(U); maxl=max([len(r) for r in U], default=0)
        kind = rng.choice(['sel','sel','sel','ufs','ufcol','ufra','neg','concat','sort','cumsum','diff','where','zeros','assign','assign','alias'])
        if kind=='sel':
            k = rng.choice(['slice','slice','list','mask','ell'])
            if k=='slice': rs=gen_slice(rng,n)
            elif k=='list': rs=[rng.randint(-n,n-1) for _ in range(rng.randint(0,4))] if n else []
            elif k=='mask': rs=[rng.random()<.6 for _ in range(n)]
            else: rs=None
            cs = gen_slice(rng,maxl) if rng.random()<.5 else None
            if k=='ell' and cs is None: continue
            selrows = m_sel(U,k,rs,None)
            if 'negcol_empty' in avoid and cs is not None and (cs.step or 1)<0 and any(len(r)==0 for r in selrows): continue
            v=fresh(); model[v]=m_sel(U,k,rs,cs); steps.append(('sel',v,u,k,rs,cs))
        elif kind=='alias':
            v=fresh(); model[v]=model[u]; steps.append(('alias',v,u,rng.choice(['ell','empty'])))
        elif kind=='ufs':
            c=rng.randint(1,3); v=fresh(); model[v]=[[x+c for x in r] for r in U]; steps.append(('ufs',v,u,c))
        elif kind=='neg':
            v=fresh(); model[v]=[[-x for x in r] for r in U]; steps.append(('neg',v,u))
        elif kind=='ufcol':
            col=[rng.randint(0,3) for _ in range(n)]
            if n==1: continue
            v=fresh(); model[v]=[[x*c for x in r] for r,c in zip(U,col)]; steps.append(('ufcol',v,u,col))
        elif kind=='ufra':
            cands=[w for w in model if [len(r) for r in model[w]]==[len(r) for r in U]]
            w=rng.choice(cands); v=fresh(); model[v]=[[x-y for x,y in zip(r,q)] for r,q in zip(U,model[w])]; steps.append(('ufra',v,u,w))
        elif kind=='concat':
            w=rng.choice(list(model)); v=fresh(); model[v]=[list(r) for r in U]+[list(r) for r in model[w]]; steps.append(('concat',v,u,w))
        elif kind=='sort':
            v=fresh(); model[v]=[sorted(r) for r in U]; steps.append(('sort',v,u))
        elif kind=='cumsum':
            v=fresh(); model[v]=[list(np.cumsum(r).tolist()) if r else [] for r in U]; steps.append(('cumsum',v,u))
        elif kind=='diff':
            v=fresh(); model[v]=[[b-a for a,b in zip(r[:-1],r[1:])] for r in U]; steps.append(('diff',v,u))
        elif kind=='where':
            cands=[w for w in model if [len(r) for r in model[w]]==[len(r) for r in U]]
            w=rng.choice(cands); c=rng.randint(-20,20); v=fresh()
            model[v]=[[x if x>c else y for x,y in zip(r,q)] for r,q in zip(U,model[w])]; steps.append(('where',v,u,w,c))
        elif kind=='zeros':
            v=fresh(); model[v]=[[0]*len(r) for r in U]; steps.append(('zeros',v,u))
        elif kind=='assign':
            k = rng.choice(['int','slice','list','mask','ell'])
            if k=='int':
                if n==0: continue
                rs=rng.randint(-n,n-1); cells=[[(rs%n,j) for j in range(len(U[rs]))]]
            elif k=='slice': rs=gen_slice(rng,n); cells=[[(i,j) for j in range(len(U[i]))] for i in range(n)][rs]
            elif k=='list':
                rs=rng.sample(range(n), rng.randint(0,n)) if n else []; cells=[[(i,j) for j in range(len(U[i]))] for i in rs]
            elif k=='mask': rs=[rng.random()<.5 for _ in range(n)]; cells=[[(i,j) for j in range(len(U[i]))] for i in range(n) if rs[i]]
            else: rs=None; cells=[[(i,j) for j in range(len(U[i]))] for i in range(n)]
            cs = gen_slice(rng,maxl) if (rng.random()<.4 and k!='int') else None
            if cs is not None:
                if 'negcol_empty' in avoid and (cs.step or 1)<0 and any(len(r)==0 for r in cells): continue
                cells=[r[cs] for r in cells]
            val=rng.randint(100,999)
            for r in cells:
                for (i,j) in r: U[i][j]=val     # in-place on model object => aliases see it
            steps.append(('assign',u,k,rs,cs,val))
    return steps

def mkidx(k, rs, cs):
    if k=='slice' or k=='int': r=rs
    elif k=='list': r=list(rs)
    elif k=='mask': r=np.array(rs,dtype=bool)
    else: r=Ellipsis
    return r if cs is None else (r,cs)

READS = ['tolist','repr','str','iter','ravel','meta','sum1','nonzero','equals','elem','eqself','tonp']
def do_read(x, name, rng=None):
    if name=='tolist': return x.tolist()
    if name=='repr': return repr(x)
    if name=='str': return str(x)
    if name=='iter': return [r.tolist() for r in x]
    if name=='ravel': return x.ravel().tolist()
    if name=='meta': return (len(x), x.size, x.lengths.tolist(), str(x.dtype))
    if name=='sum1': return x.sum(axis=-1).tolist()
    if name=='nonzero': return [q.tolist() for q in x.nonzero()]
    if name=='equals': return bool(x.equals(x))
    if name=='eqself': return (x==x).tolist()
    if name=='elem':
        L=x.lengths.tolist()
        for i,l in enumerate(L):
            if l: return x[i,l-1].item()
        return None
    if name=='tonp':
        L=x.lengths.tolist()
        if len(L) and len(set(L))==1: return x.to_numpy_array().tolist()
        return None

def run_lib(steps, read_plan=None, guard=None):
    """execute on the library. read_plan: dict step_index -> list of (var, readname) executed AFTER that step.
    guard(env, step) may raise Skip to avoid known defects based on runtime laziness."""
    env={}; obs=[]
    for si,st in enumerate(steps):
        op=st[0]
        if guard: guard(env, st)
        if op=='init': env[st[1]]=RaggedArray(np.array([x for r in st[2] for x in r],dtype=np.int64), [len(r) for r in st[2]])
        elif op=='sel': env[st[1]]=env[st[2]][mkidx(st[3],st[4],st[5])]
        elif op=='alias': env[st[1]]=env[st[2]][...] if st[3]=='ell' else env[st[2]][()]
        elif op=='ufs': env[st[1]]=env[st[2]]+np.int64(st[3])
        elif op=='neg': env[st[1]]=-env[st[2]]
        elif op=='ufcol': env[st[1]]=env[st[2]]*np.array(st[3],dtype=np.int64).reshape(-1,1)
        elif op=='ufra': env[st[1]]=env[st[2]]-env[st[3]]
        elif op=='concat': env[st[1]]=np.concatenate([env[st[2]],env[st[3]]])
        elif op=='sort': env[st[1]]=env[st[2]].sort()
        elif op=='cumsum': env[st[1]]=np.cumsum(env[st[2]],axis=-1)
        elif op=='diff': env[st[1]]=np.diff(env[st[2]],axis=-1)
        elif op=='where': env[st[1]]=np.where(env[st[2]]>np.int64(st[4]), env[st[2]], env[st[3]])
        elif op=='zeros': env[st[1]]=np.zeros_like(env[st[2]])
        elif op=='assign': env[st[1]][mkidx(st[2],st[3],st[4])]=st[5]
        if read_plan and si in read_plan:
            for (v,rn) in read_plan[si]:
                if v in env: obs.append((si,v,rn,do_read(env[v],rn)))
    final={v:env[v].tolist() for v in env}
    return final, obs, env

def run_model(steps):
    env={}
    # replay generation semantic: steps already carry enough to recompute
    for st in steps:
        op=st[0]
        if op=='init': env[st[1]]=copy.deepcopy(st[2])
        elif op=='sel': env[st[1]]=m_sel(env[st[2]],st[3],st[4],st[5])
        elif op=='alias': env[st[1]]=env[st[2]]
        elif op=='ufs': env[st[1]]=[[x+st[3] for x in r] for r in env[st[2]]]
        elif op=='neg': env[st[1]]=[[-x for x in r] for r in env[st[2]]]
        elif op=='ufcol': env[st[1]]=[[x*c for x in r] for r,c in zip(env[st[2]],st[3])]
        elif op=='ufra': env[st[1]]=[[x-y for x,y in zip(r,q)] for r,q in zip(env[st[2]],env[st[3]])]
        elif op=='concat': env[st[1]]=[list(r) for r in env[st[2]]]+[list(r) for r in env[st[3]]]
        elif op=='sort': env[st[1]]=[sorted(r) for r in env[st[2]]]
        elif op=='cumsum': env[st[1]]=[np.cumsum(r).tolist() if r else [] for r in env[st[2]]]
        elif op=='diff': env[st[1]]=[[b-a for a,b in zip(r[:-1],r[1:])] for r in env[st[2]]]
        elif op=='where': env[st[1]]=[[x if x>st[4] else y for x,y in zip(r,q)] for r,q in zip(env[st[2]],env[st[3]])]
        elif op=='zeros': env[st[1]]=[[0]*len(r) for r in env[st[2]]]
        elif op=='assign':
            U=env[st[1]]; n=len(U); k,rs,cs,val=st[2],st[3],st[4],st[5]
            allc=[[(i,j) for j in range(len(U[i]))] for i in range(n)]
            if k=='int': cells=[allc[rs]]
            elif k=='slice': cells=allc[rs]
            elif k=='list': cells=[allc[i] for i in rs]
            elif k=='mask': cells=[c for c,m in zip(allc,rs) if m]
            else: cells=allc
            if cs is not None: cells=[r[cs] for r in cells]
            for r in cells:
                for (i,j) in r: U[i][j]=val
    return env
