import numpy as np, random, collections, warnings, re
warnings.simplefilter('ignore')
from npstructures import RunLengthArray, RunLength2dArray, RunLengthRaggedArray, RaggedArray
from common import ex, DT, gen_slice
from c04c_vals import gen_vals
from c14_fns import gen_runs
rng = random.Random(18)
res = collections.defaultdict(list)
N=collections.Counter()
def rec(k, info): res[k].append(info)
def to_rows(x):
    """decode any result to list of lists / list / scalar"""
    if isinstance(x, RunLengthRaggedArray):
        r = x.to_array(); return ('2d', r.tolist())
    if isinstance(x, RunLength2dArray):
        r = x.to_array(); return ('2d', np.asarray(r).tolist() if not isinstance(r, RaggedArray) else r.tolist())
    if isinstance(x, RunLengthArray): return ('1d', x.to_array().tolist())
    if isinstance(x, RaggedArray): return ('2d', x.tolist())
    if isinstance(x, np.ndarray): return ('%dd'%x.ndim, x.tolist())
    if isinstance(x, (np.generic,int,float,bool)): return ('0d', np.asarray(x).tolist())
    if isinstance(x, list): return ('list', [np.asarray(e).tolist() for e in x])
    return ('??'+type(x).__name__, None)
def gen_matrix(rng, dt):
    r=rng.randint(1,5); c=rng.randint(1,7)
    return np.array([np.resize(gen_runs(rng,dt,False,maxlen=c),c) for _ in range(r)],dtype=dt)
def gen_ragged(rng, dt):
    r=rng.randint(1,5)
    return [gen_runs(rng,dt,False,maxlen=7) for _ in range(r)]
for t in range(60000):
    dt=rng.choice(DT)
    variant=rng.choice(['2d','ragged','ragged_from_matrix'])
    if variant=='2d':
        M=gen_matrix(rng,dt); rows=[M[i] for i in range(len(M))]
        c=ex(lambda: RunLength2dArray.from_array(M))
    elif variant=='ragged':
        rows=gen_ragged(rng,dt); c=ex(lambda: RunLengthRaggedArray.from_ragged_array(RaggedArray(rows, dtype=dt)))
    else:
        M=gen_matrix(rng,dt); rows=[M[i] for i in range(len(M))]
        c=ex(lambda: RunLengthRaggedArray.from_array(M))
    if c[0]=='exc': rec(('ctor',variant,c[1]+':'+re.sub(r'\d+','#',c[2][:40])),([r.tolist() for r in rows],)); continue
    rl=c[1]; n=len(rows); lens=[len(r) for r in rows]; pyrows=[r.tolist() for r in rows]
    op=rng.choice(['decode','meta','rows','elem','col_int','col_slice','red_row','red_col','ravel','concat','unary','scalar','colvec'])
    N[(variant,op)]+=1
    tag=()
    if op=='decode':
        o=('ok',('2d',pyrows)); a=ex(lambda: to_rows(rl))
    elif op=='meta':
        o=('ok',(n, sum(lens)))
        a=ex(lambda: (len(rl), int(rl.size)))
        sh=ex(lambda: rl.shape)
        if variant=='2d' and sh!=('ok',(n,lens[0])): rec(('shape',variant),(pyrows,sh))
        if variant!='2d' and (sh[0]!='ok' or sh[1][0]!=n or np.asarray(sh[1][1]).tolist() not in (lens, lens[0])): rec(('shape',variant),(pyrows,sh))
    elif op=='rows':
        k=rng.choice(['int','slice','list','mask'])
        if k=='int': rs=rng.randint(-n,n-1); o=('ok',('1d',pyrows[rs]))
        elif k=='slice': rs=gen_slice(rng,n); o=('ok',('2d',pyrows[rs]))
        elif k=='list': rs=[rng.randint(-n,n-1) for _ in range(rng.randint(1,4))]; o=('ok',('2d',[pyrows[i] for i in rs]))
        else: rs=np.array([rng.random()<.6 for _ in range(n)]); o=('ok',('2d',[r for r,m in zip(pyrows,rs) if m]))
        a=ex(lambda: to_rows(rl[rs])); tag=(k, 'emptysel' if o[1][1]==[] else '')
    elif op=='elem':
        i=rng.randint(-n,n-1); j=rng.randint(-len(rows[i]), len(rows[i])-1)
        o=('ok',('0d',pyrows[i][j])); a=ex(lambda: to_rows(rl[i,j])); tag=('negj' if j<0 else 'posj',)
    elif op=='col_int':
        k=rng.choice(['slice','list','mask','ell'])
        if k=='slice': rs=gen_slice(rng,n); sel=pyrows[rs]
        elif k=='list': rs=[rng.randint(-n,n-1) for _ in range(rng.randint(1,4))]; sel=[pyrows[i] for i in rs]
        elif k=='mask': rs=np.array([rng.random()<.6 for _ in range(n)]); sel=[r for r,m in zip(pyrows,rs) if m]
        else: rs=Ellipsis; sel=pyrows
        if not sel: continue
        ml=min(len(r) for r in sel); j=rng.randint(-ml,ml-1)
        o=('ok',('1d',[r[j] for r in sel])); a=ex(lambda: to_rows(rl[rs,j])); tag=(k,'negj' if j<0 else 'posj')
    elif op=='col_slice':
        k=rng.choice(['slice','list','mask','ell'])
        if k=='slice': rs=gen_slice(rng,n); sel=pyrows[rs]
        elif k=='list': rs=[rng.randint(-n,n-1) for _ in range(rng.randint(1,4))]; sel=[pyrows[i] for i in rs]
        elif k=='mask': rs=np.array([rng.random()<.6 for _ in range(n)]); sel=[r for r,m in zip(pyrows,rs) if m]
        else: rs=slice(None); sel=pyrows
        if not sel: continue
        ml=min(len(r) for r in sel); mx=max(len(r) for r in sel)
        cs=gen_slice(rng,mx)
        exp=[r[cs] for r in sel]
        nonempty_all = all(len(e)>0 for e in exp)
        st=cs.step or 1
        def inb(x): return x is None or (-ml<=x<ml)
        tag=(k,'pos' if st>0 else 'neg','allnonempty' if nonempty_all else 'someempty', 'inb' if (inb(cs.start) and inb(cs.stop)) else 'oob')
        o=('ok',('2d',exp)); a=ex(lambda: to_rows(rl[rs,cs]))
    elif op=='red_row':
        name=rng.choice(['sum','any','all','max','mean','argmax'])
        o=ex(lambda: ('1d',[getattr(np,name)(r).tolist() for r in rows]))
        a=ex(lambda: to_rows(getattr(rl,name)(axis=-1))); tag=(name,)
    elif op=='red_col':
        name=rng.choice(['sum','mean','col_counts','any'])
        M_=max(lens)
        cols=[[r[j] for r in rows if len(r)>j] for j in range(M_)]
        if name=='col_counts':
            o=('ok',('1d',[len(c_) for c_ in cols])); a=ex(lambda: to_rows(rl.col_counts()))
        else:
            o=ex(lambda: ('1d',[getattr(np,name)(np.array(c_,dtype=dt)).tolist() for c_ in cols]))
            a=ex(lambda: to_rows(getattr(rl,name)(axis=0)))
        tag=(name,)
    elif op=='ravel':
        o=('ok',('1d',[x for r in pyrows for x in r])); a=ex(lambda: to_rows(rl.ravel()))
    elif op=='concat':
        if variant=='2d': rows2=[np.resize(gen_runs(rng,dt,False,7),lens[0]) for _ in range(rng.randint(1,3))]; other=ex(lambda: RunLength2dArray.from_array(np.array(rows2,dtype=dt)))
        else: rows2=gen_ragged(rng,dt); other=ex(lambda: RunLengthRaggedArray.from_ragged_array(RaggedArray(rows2,dtype=dt)))
        if other[0]=='exc': continue
        o=('ok',('2d',pyrows+[r.tolist() for r in rows2])); a=ex(lambda: to_rows(np.concatenate([rl,other[1]])))
    elif op=='unary':
        uf=rng.choice([np.negative,np.abs,np.logical_not,np.square])
        o=ex(lambda: ('2d',[uf(r).tolist() for r in rows])); a=ex(lambda: to_rows(uf(rl))); tag=(uf.__name__,)
    elif op=='scalar':
        uf=rng.choice([np.add,np.subtract,np.multiply,np.maximum,np.less,np.bitwise_and,np.floor_divide]); side=rng.choice('LR'); s=rng.choice([2,3,1])
        if side=='R': o=ex(lambda: ('2d',[uf(r,s).tolist() for r in rows])); a=ex(lambda: to_rows(uf(rl,s)))
        else: o=ex(lambda: ('2d',[uf(s,r).tolist() for r in rows])); a=ex(lambda: to_rows(uf(s,rl)))
        tag=(uf.__name__,side)
    else:
        uf=rng.choice([np.add,np.subtract,np.multiply,np.maximum,np.less]); side=rng.choice('LR')
        col=np.array([[rng.randint(0,4)] for _ in range(n)])
        if n==1: continue
        if side=='R': o=ex(lambda: ('2d',[uf(r,c_).tolist() for r,c_ in zip(rows,col)])); a=ex(lambda: to_rows(uf(rl,col)))
        else: o=ex(lambda: ('2d',[uf(c_,r).tolist() for r,c_ in zip(rows,col)])); a=ex(lambda: to_rows(uf(col,rl)))
        tag=(uf.__name__,side)
    key=None
    if o[0]=='exc' and a[0]=='exc': continue
    if o[0]=='exc': key='oracle-raises:'+o[1]
    elif a[0]=='exc': key='raised:'+a[1]+':'+re.sub(r'\d+','#',a[2][:36])
    elif a[1]!=o[1]:
        if a[1][0]!=o[1][0]: key='kind %s exp %s'%(a[1][0],o[1][0])
        else:
            try:
                close = np.allclose(np.array(a[1][1],dtype=float), np.array(o[1][1],dtype=float), equal_nan=True)
            except Exception: close=False
            key='value-close' if close else 'value'
    if key: rec((variant,op)+tag+(key,), (pyrows, np.dtype(dt).name, str(o)[:150], str(a)[:150], locals().get('rs'), locals().get('cs'), locals().get('j')))
tot=collections.Counter()
for (v,o),c in N.items(): tot[o]+=c
print(tot)
for k,v in sorted(res.items(), key=str): print(k,len(v),'   ',str(v[0])[:330])
