from common import *
import warnings; warnings.simplefilter('ignore')
rng = random.Random(3)
res = collections.defaultdict(list)
UN = [np.negative, np.abs, np.logical_not, np.invert, np.sqrt, np.square, np.sign, np.isnan, np.exp]
BI = [np.add, np.subtract, np.multiply, np.true_divide, np.floor_divide, np.mod, np.power, np.maximum, np.minimum,
      np.equal, np.not_equal, np.less, np.less_equal, np.greater, np.greater_equal,
      np.bitwise_and, np.bitwise_or, np.bitwise_xor, np.left_shift, np.right_shift, np.logical_and, np.logical_or, np.logical_xor]
def eqrow(a,b):
    return a.dtype==b.dtype and a.shape==b.shape and np.array_equal(a,b,equal_nan=(a.dtype.kind in 'fc'))
N=0
for t in range(40000):
    rows, lens, dt = gen_rows(rng)
    n=len(rows)
    ra = mk(rows, dt); snap = ra.tolist()
    if rng.random()<.25:
        uf = rng.choice(UN); kind='unary'
        o = ex(lambda: [uf(r) for r in rows])
        a = ex(lambda: uf(ra))
        other=None
    else:
        uf = rng.choice(BI)
        kind = rng.choice(['ra','pyscalar','npscalar','col','collist','ra_bad'])
        side = rng.choice(['L','R'])
        dt2 = rng.choice(DT)
        if kind in('ra','ra_bad'):
            rows2,_,_ = gen_rows(rng, dt=dt2)
            rows2 = [ (np.array([rng.randint(0,5) for _ in range(L)])).astype(dt2) for L in lens]
            if kind=='ra_bad':
                if n==0: continue
                rows2[rng.randrange(n)] = np.zeros(lens[0]+1 if True else 0, dtype=dt2)
                if [len(r) for r in rows2]==lens: continue
            other = mk(rows2, dt2); per=rows2
        elif kind=='pyscalar':
            other = rng.choice([2, 3, -1, 2.5, True, 300]); per=[other]*n
        elif kind=='npscalar':
            other = np.dtype(dt2).type(3); per=[other]*n
        elif kind=='col':
            other = np.array([[rng.randint(0,5)] for _ in range(n)]).astype(dt2).reshape(n,1); per=[other[i] for i in range(n)]
        else:
            other = [[rng.randint(0,5)] for _ in range(n)]; per=[np.array(v) for v in other]
        if side=='R':
            o = ex(lambda: [uf(r, p) for r,p in zip(rows, per)]); a = ex(lambda: uf(ra, other))
        else:
            o = ex(lambda: [uf(p, r) for r,p in zip(rows, per)]); a = ex(lambda: uf(other, ra))
    N+=1
    key=None
    if kind=='ra_bad':
        if a[0]=='ok': key='bad-accepted'
    elif o[0]=='exc' and a[0]=='exc': pass
    elif o[0]=='exc': key='oracle-raises-but-accepted:'+o[1]
    elif a[0]=='exc': key='raised:'+a[1]+':'+a[2][:40]
    else:
        r = a[1]
        if not isinstance(r, RaggedArray): key='notRA:'+type(r).__name__
        else:
            got = list(r)
            if [len(g) for g in got]!=lens: key='lens'
            else:
                exp = o[1]
                if n and sum(lens) and not all(eqrow(np.asarray(g),np.asarray(e).reshape(-1) if np.asarray(e).ndim else np.full(len(g),e)) for g,e in zip(got,exp)):
                    vals_ok = all(np.array_equal(np.asarray(g).astype(float), np.broadcast_to(np.asarray(e),np.asarray(g).shape).astype(float), equal_nan=True) for g,e in zip(got,exp))
                    key = 'dtype-only' if vals_ok else 'value'
                    key += ':%s->%s' % ([np.asarray(e).dtype for e,l in zip(exp,lens) if l][0], r.dtype)
    if ra.tolist()!=snap: key=(key or '')+'+operand-mutated'
    if key: res[(key, kind, dt.__name__ if 'dtype' in key or 'value' in key else '', )].append((uf.__name__, [r.tolist() for r in rows], dt.__name__, aslist(other) if isinstance(other,(RaggedArray,np.ndarray)) else other, (other.dtype if hasattr(other,'dtype') else None), o[:2] if o[0]=='exc' else '', a if a[0]=='exc' else aslist(a[1])))
print(N)
for k in sorted(res, key=str):
    v=res[k]; print(k, len(v), collections.Counter(x[0] for x in v).most_common(6)); print('    ', v[0])
