from common import *
import copy
rng = random.Random(6)
res = collections.defaultdict(list)
# chains of selections; model = python lists
def gen_rowsel(rng, n):
    k = rng.choice(['slice','slice','list','mask','ell'])
    if k=='slice': return k, gen_slice(rng, n)
    if k=='list': return k, ([rng.randint(-n, n-1) for _ in range(rng.randint(0,4))] if n else [])
    if k=='mask': return k, np.array([rng.random()<.6 for _ in range(n)], dtype=bool)
    return k, Ellipsis
def apply_model(rows, k, rs, cs):
    if k=='slice': sel=rows[rs]
    elif k=='list': sel=[rows[i] for i in rs]
    elif k=='mask': sel=[r for r,m in zip(rows,rs) if m]
    else: sel=rows
    if cs is not None: sel=[r[cs] for r in sel]
    return [list(r) for r in sel]
N=0
for t in range(30000):
    rows, lens, dt = gen_rows(rng, dt=np.int64, maxrows=7, maxlen=6, allow_empty=rng.random()<.7)
    ra = mk(rows, dt)
    model = [r.tolist() for r in rows]
    depth = rng.randint(2,4)
    cur = ra; trace=[]
    ok=True
    sig=[]
    for d in range(depth):
        n=len(model)
        k, rs = gen_rowsel(rng, n)
        maxl = max([len(r) for r in model], default=0)
        cs = gen_slice(rng, maxl) if rng.random()<.6 else None
        idx = rs if cs is None else (rs, cs)
        trace.append(idx)
        sig.append((k, None if cs is None else ('neg' if (cs.step or 1)<0 else 'pos')))
        has_empty_before = any(len(r)==0 for r in (apply_model(model,k,rs,None)))
        model = apply_model(model, k, rs, cs)
        r = ex(lambda: cur[idx])
        if r[0]=='exc':
            res[('raised:'+r[1]+':'+r[2][:40], d, tuple(sig), has_empty_before)].append(([x.tolist() for x in rows], trace)); ok=False; break
        cur = r[1]
        if not isinstance(cur, RaggedArray):
            res[('notRA', d)].append((trace,)); ok=False; break
    N+=1
    if not ok: continue
    # meta reads that don't materialise
    pre = ex(lambda: (len(cur), cur.size, cur.lengths.tolist()))
    exp_pre = (len(model), sum(len(r) for r in model), [len(r) for r in model])
    if pre != ('ok', exp_pre):
        res[('meta-wrong', tuple(sig))].append(([x.tolist() for x in rows], trace, pre, exp_pre))
    g = ex(lambda: cur.tolist())
    if g != ('ok', model):
        anyneg = any(s[1]=='neg' for s in sig)
        res[('content-wrong' if g[0]=='ok' else 'read-raised:'+g[1], tuple(sig), )].append(([x.tolist() for x in rows], trace, g, model))
print(N)
ks = sorted(res, key=str)
for k in ks:
    v=res[k]; print(k, len(v)); 
agg = collections.Counter()
for k,v in res.items(): agg[(k[0],)]+=len(v)
print(agg)
for k in ks[:0]: print(res[k][0])
import pickle; pickle.dump(dict(res), open('c06b.pkl','wb'))
