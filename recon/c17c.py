import numpy as np, warnings
warnings.simplefilter('ignore')
from npstructures import RunLengthRaggedArray, RunLength2dArray, RaggedArray
rows=[[1,1,2],[3],[4,4,4,5]]
rl=RunLengthRaggedArray.from_ragged_array(RaggedArray(rows))
def t(name,f):
    try:
        r=f(); 
        if hasattr(r,'to_array'): r=r.to_array()
        print(name,'->',np.asarray(r).tolist() if not isinstance(r,RaggedArray) else r.tolist())
    except Exception as e: print(name,'EXC',type(e).__name__,str(e)[:90])
t('np.sum -1', lambda: np.sum(rl, axis=-1))
t('np.sum 0', lambda: np.sum(rl, axis=0))
t('np.sum None', lambda: np.sum(rl))
t('np.mean -1', lambda: np.mean(rl, axis=-1))
t('np.mean 0', lambda: np.mean(rl, axis=0))
t('np.max -1', lambda: np.max(rl, axis=-1))
t('np.max none', lambda: np.max(rl))
t('np.concatenate', lambda: np.concatenate([rl, rl]))
t('sum none', lambda: rl.sum())
t('any -1', lambda: rl.any(axis=-1)); t('all -1', lambda: rl.all(axis=-1))
t('any none', lambda: rl.any())
t('argmax', lambda: rl.argmax(axis=-1))
m=RunLength2dArray.from_array(np.array([[1,1,2],[3,3,3]]))
t('2d np.sum -1', lambda: np.sum(m, axis=-1)); t('2d np.sum 0', lambda: np.sum(m, axis=0)); t('2d np.any 0', lambda: np.any(m, axis=0))
t('2d np.all -1', lambda: np.all(m, axis=-1))
t('2d concat', lambda: np.concatenate([m,m]))
# ragged ctor from ragged with empty row
t('ragged with empty row', lambda: RunLengthRaggedArray.from_ragged_array(RaggedArray([[1,1],[],[2]])).to_array())
