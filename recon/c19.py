import numpy as np, random, collections, warnings, re
warnings.simplefilter('ignore')
from npstructures import RaggedArray
from npstructures.raggedshape import ViewBase
from common import *
a = [[1,2,3],[4],[],[5,6],[7,8,9,10]]
def t(name, f):
    out=[]
    for dt in (np.int64, np.int32):
        ViewBase.set_dtype(dt)
        try: r=f(); out.append(('ok', r.tolist() if hasattr(r,'tolist') else r))
        except Exception as e: out.append(('EXC', type(e).__name__, str(e)[:70]))
    ViewBase.set_dtype(np.int64)
    print('SAME' if out[0]==out[1] else 'DIFF', name, out[0] if out[0]==out[1] else out)
R=lambda: RaggedArray(a)
t('ctor/tolist', lambda: R())
t('row slice', lambda: R()[1:3])
t('row step2', lambda: R()[::2])
t('row rev', lambda: R()[::-1])
t('row list', lambda: R()[[0,3]])
t('row mask', lambda: R()[np.array([True,False,True,False,True])])
t('row int', lambda: R()[1])
t('row,col', lambda: R()[1:, 0:2])
t('row step,col', lambda: R()[::2, 0:2])
t('elem', lambda: R()[0,1])
t('col int', lambda: R()[[0,3,4], 1])
t('setitem', lambda: (lambda r: (r.__setitem__(slice(0,2), 9), r)[1])(R()))
t('setitem step', lambda: (lambda r: (r.__setitem__(slice(0,None,2), 9), r)[1])(R()))
t('ufunc', lambda: R()+1)
t('ufunc col', lambda: R()+np.arange(5)[:,None])
t('sum-1', lambda: R().sum(axis=-1))
t('sum0', lambda: R().sum(axis=0))
t('cumsum', lambda: np.cumsum(R(),axis=-1))
t('sort', lambda: R().sort())
t('unique', lambda: np.unique(R(),axis=-1))
t('diff', lambda: np.diff(R(),axis=-1))
t('concat', lambda: np.concatenate([R(),R()]))
t('nonzero', lambda: [x.tolist() for x in R().nonzero()])
t('padded', lambda: R().as_padded_matrix())
t('dtype of lengths', lambda: str(R().lengths.dtype))
t('starts dtype', lambda: str(R()._shape.starts.dtype))
t('shape[1] dtype', lambda: str(R()[1:3].lengths.dtype))
t('save/load', lambda: (R().save('/tmp/recon/x.npz'), RaggedArray.load('/tmp/recon/x.npz'))[1])
