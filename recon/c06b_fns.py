from common import *
def gen_rowsel(rng, n):
    k = rng.choice(['slice','slice','list','mask','ell'])
    if k=='slice': return k, gen_slice(rng, n)
    if k=='list': return k, ([rng.randint(-n, n-1) for _ in range(rng.randint(0,4))] if n else [])
    if k=='mask': return k, np.array([rng.random()<.6 for _ in range(n)], dtype=bool)
    return k, Ellipsis
def apply_model(rows, k, rs, cs):
    if k=='slice': sel=rows[rs]
    elif k=='list': sel=[rows[i] for i in rs]
    elif k=='mask': sel=[r for r,m in zip(rows,rs) if m]
    else: sel=rows
    if cs is not None: sel=[r[cs] for r in sel]
    return [list(r) for r in sel]
