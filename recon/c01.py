import numpy as np, itertools, traceback, tempfile, os
from npstructures import RaggedArray, RaggedShape
import random
rng = random.Random(0)
def ex(f):
    try: return ('ok', f())
    except Exception as e: return ('exc', type(e).__name__, str(e)[:100])
fails = {}
def note(k, info):
    fails.setdefault(k, []).append(info)
dtypes = [np.bool_, np.int8, np.int16, np.int32, np.int64, np.uint8, np.uint16, np.uint32, np.uint64, np.float32, np.float64]
n=0
for trial in range(3000):
    nrows = rng.choice([0,0,1,1,2,3,4,5,8])
    lens = [rng.choice([0,0,0,1,1,2,3,5]) for _ in range(nrows)]
    dt = rng.choice(dtypes)
    flat = (np.array([rng.randint(-100,100) for _ in range(sum(lens))]).astype(dt) if dt is not np.bool_ else np.array([rng.random()<.5 for _ in range(sum(lens))], dtype=bool))
    flat = np.asarray(flat, dtype=dt)
    offs = np.insert(np.cumsum(lens),0,0).astype(int)
    rows = [flat[offs[i]:offs[i+1]] for i in range(nrows)]
    for how in ('list','flat'):
        n+=1
        r = ex(lambda: RaggedArray(rows, dtype=dt) if how=='list' else RaggedArray(flat.copy(), lens))
        if r[0]!='ok':
            note(('ctor',how,r[1]), (lens, dt.__name__, r)); continue
        ra = r[1]
        checks = {
         'len': lambda: len(ra)==nrows,
         'size': lambda: ra.size==sum(lens),
         'dtype': lambda: ra.dtype==np.dtype(dt),
         'lengths': lambda: list(ra.lengths)==lens and list(ra.shape[1])==lens and ra.shape[0]==nrows,
         'iter': lambda: all(np.array_equal(a,b) and a.dtype==b.dtype for a,b in itertools.zip_longest(iter(ra), rows)),
         'tolist': lambda: ra.tolist()==[r.tolist() for r in rows],
         'ravel': lambda: np.array_equal(ra.ravel(), flat) and ra.ravel().dtype==flat.dtype,
         'starts': lambda: list(ra._shape.starts)==list(offs[:-1]) and list(ra._shape.ends)==list(offs[1:]) and ra._shape.size==sum(lens),
         'astype': lambda: ra.astype(np.float64).tolist()==[r.astype(np.float64).tolist() for r in rows] and ra.astype(np.float64).dtype==np.float64,
        }
        for k,f in checks.items():
            r = ex(f)
            if r!=('ok',True): note((k,how, r[1] if r[0]=='exc' else 'wrong'), (lens, dt.__name__, r))
        # save/load
        def sl():
            with tempfile.TemporaryDirectory() as d:
                p=os.path.join(d,'x.npz'); ra.save(p); rb=RaggedArray.load(p)
                return rb.tolist()==ra.tolist() and rb.dtype==ra.dtype and list(rb.lengths)==lens
        if trial%10==0:
            r=ex(sl)
            if r!=('ok',True): note(('saveload',how, r[1] if r[0]=='exc' else 'wrong'), (lens, dt.__name__, r))
        # ravel/unravel
        def rv():
            if sum(lens)==0: return True
            fi = np.arange(sum(lens))
            rr, cc = ra._shape.unravel_multi_index(fi)
            exp = [(i,j) for i in range(nrows) for j in range(lens[i])]
            if list(zip(rr.tolist(),cc.tolist()))!=exp: return False
            return list(ra._shape.ravel_multi_index((rr,cc)))==list(fi)
        r=ex(rv)
        if r!=('ok',True): note(('ravelidx',how, r[1] if r[0]=='exc' else 'wrong'), (lens, dt.__name__, r))
        def ia():
            return list(ra._shape.index_array())==[i for i in range(nrows) for j in range(lens[i])]
        r=ex(ia)
        if r!=('ok',True): note(('index_array',how, r[1] if r[0]=='exc' else 'wrong'), (lens, dt.__name__, r))
    # mismatch
    bad = ex(lambda: RaggedArray(np.append(flat, flat.dtype.type(1)), lens))
    if bad[0]=='ok': note(('mismatch+1 accepted',), (lens,))
    if len(flat):
        bad = ex(lambda: RaggedArray(flat[:-1], lens))
        if bad[0]=='ok': note(('mismatch-1 accepted',), (lens,))
    # numpy roundtrip
    r_, c_ = rng.choice([0,1,2,3]), rng.choice([0,1,2,3])
    m = np.arange(r_*c_).reshape(r_,c_).astype(dt)
    def npr():
        x = RaggedArray.from_numpy_array(m)
        y = x.to_numpy_array()
        return y.shape==m.shape and np.array_equal(y,m) and y.dtype==m.dtype and x.tolist()==m.tolist()
    r=ex(npr)
    if r!=('ok',True): note(('numpy_rt', r[1] if r[0]=='exc' else 'wrong'), (m.shape, dt.__name__, r))
print(n)
for k,v in fails.items(): print(k, len(v), v[0])
import collections
print(collections.Counter((v[0], v[1]) for v in fails.get(('numpy_rt','wrong'),[])))
print(RaggedArray([]).dtype, RaggedArray([np.array([],dtype=np.int8)]).dtype, RaggedArray([np.array([1],dtype=np.int8),np.array([],dtype=np.int8)]).dtype)
print(RaggedArray([[1,2],[3.5]]).dtype, RaggedArray([[True],[False,True]]).dtype)
