import copy, numpy as np
from npstructures import RaggedArray
a = RaggedArray([[1,2,3],[4],[],[5,6]])
b = a[::-1, ::2]
print(b.is_contigous, copy.copy(b).tolist(), b.is_contigous, type(b._shape).__name__)
a[3]=9
print(copy.copy(b).tolist(), b.is_contigous)
print(b.tolist(), b.is_contigous)
c = copy.copy(a); c[0]=7; print(a.tolist())   # shallow copy of materialised shares buffer -> alias (expected)
