import numpy as np, random, collections, warnings
warnings.simplefilter('ignore')
from npstructures.bitarray import BitArray
from common import ex
rng = random.Random(14)
res = collections.defaultdict(list)
DT=[np.int8,np.int16,np.int32,np.int64,np.uint8,np.uint16,np.uint32,np.uint64]
N=0
for t in range(30000):
    b = rng.choice([1,2,4,8,16,32])
    per = 64//b
    L = rng.choice([1,2,3,per-1,per,per+1,2*per-1,2*per,2*per+1,3*per+rng.randint(0,per), rng.randint(1,200)])
    if L<=0: L=1
    dts=[d for d in DT if (np.iinfo(d).max >= 2**b-1)]
    dt = rng.choice(dts)
    style=rng.choice(['rand','max','zero'])
    if style=='rand': vals=[rng.randrange(2**b) for _ in range(L)]
    elif style=='max': vals=[2**b-1]*L
    else: vals=[0]*L
    arr=np.array(vals,dtype=dt)
    p=ex(lambda: BitArray.pack(arr,b))
    tag=(b, dt.__name__)
    if p[0]=='exc': res[('pack:'+p[1]+':'+p[2][:40],)+tag].append((L,)); continue
    ba=p[1]; N+=1
    u=ex(lambda: ba.unpack())
    if u[0]=='exc': res[('unpack:'+u[1],)+tag].append((L,))
    elif u[1].tolist()!=vals: res[('unpack-wrong',)+tag].append((L,vals[:10],u[1].tolist()[:10], len(u[1])))
    i=rng.randrange(L)
    g=ex(lambda: int(ba[i]))
    if g!=('ok',vals[i]): res[('getint',)+tag].append((L,i,g,vals[i]))
    g=ex(lambda: int(ba[np.int64(i)]))
    if g!=('ok',vals[i]): res[('getnpint:'+str(g[1])[:20],)+tag].append((L,i,g,vals[i]))
    pos=[rng.randrange(L) for _ in range(rng.randint(1,2*per+3))]
    g=ex(lambda: ba[pos].unpack().tolist())
    if g!=('ok',[vals[q] for q in pos]): res[('getlist',)+tag].append((L,pos,g))
    g=ex(lambda: ba[np.array(pos)].unpack().tolist())
    if g!=('ok',[vals[q] for q in pos]): res[('getarr',)+tag].append((L,pos,g))
    w = rng.randint(1, per)
    if w<=L:
        g=ex(lambda: ba.sliding_window(w).tolist())
        exp=[sum(vals[i+j]<<(b*j) for j in range(w)) for i in range(L-w+1)]
        if g!=('ok',exp): res[('window:'+('wrong' if g[0]=='ok' else g[1]+g[2][:30]),)+tag+(w==per,)].append((L,w,vals[:8],g[1][:8] if g[0]=='ok' else g,exp[:8]))
print(N)
agg=collections.Counter(); exm={}
for k,v in res.items():
    kk=(k[0],k[1])+k[3:]; agg[kk]+=len(v); exm.setdefault(kk,(k,v[0]))
for k,v in sorted(agg.items(), key=str): print(k,v,'   ',str(exm[k])[:300])
