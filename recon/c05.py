from common import *
import warnings; warnings.simplefilter('ignore')
from c04c_vals import gen_vals
rng = random.Random(5)
res = collections.defaultdict(list)
RED_ID = [np.add, np.multiply, np.logical_and, np.logical_or, np.logical_xor, np.bitwise_and, np.bitwise_or, np.bitwise_xor]
NAMED = ['sum','prod','any','all','max','min','mean','argmax','argmin']
N=0
def eq(a,b):
    a=np.asarray(a); b=np.asarray(b)
    return a.shape==b.shape and np.array_equal(a,b,equal_nan=(a.dtype.kind=='f' and b.dtype.kind=='f'))
for t in range(40000):
    extreme = rng.random()<.3
    _, lens, dt = gen_rows(rng)
    n=len(lens); tot=sum(lens)
    flat = gen_vals(rng, dt, tot, extreme)
    offs = np.insert(np.cumsum(lens),0,0).astype(int)
    rows=[flat[offs[i]:offs[i+1]] for i in range(n)]
    ra = RaggedArray(flat.copy(), lens)
    mode = rng.choice(['ufunc.reduce','named','np.named','axisNone','keepdims'])
    has_empty = 0 in lens
    where_empty = tuple(sorted(set(['first' if lens and lens[0]==0 else '', 'last' if lens and lens[-1]==0 else '', 'mid' if any(l==0 for l in lens[1:-1]) else ''])-{''}))
    if mode=='ufunc.reduce':
        uf = rng.choice(RED_ID+[np.maximum, np.minimum]); name=uf.__name__
        needs_nonempty = uf.identity is None
        o = ex(lambda: np.array([uf.reduce(r) for r in rows]))
        a = ex(lambda: uf.reduce(ra, axis=-1))
    elif mode in('named','np.named','keepdims'):
        name = rng.choice(NAMED); 
        needs_nonempty = name in ('max','min','mean','argmax','argmin')
        o = ex(lambda: np.array([getattr(np,name)(r) for r in rows]))
        if mode=='named': a = ex(lambda: getattr(ra,name)(axis=-1))
        elif mode=='np.named': a = ex(lambda: getattr(np,name)(ra, axis=-1))
        else:
            a = ex(lambda: getattr(ra,name)(axis=-1, keepdims=True))
            if o[0]=='ok': o=('ok', o[1][:,None])
    else:
        name = rng.choice(['sum','prod','any','all','max','min','mean'])
        needs_nonempty=False
        o = ex(lambda: getattr(np,name)(flat))
        a = ex(lambda: getattr(np,name)(ra))
    if needs_nonempty and has_empty and mode!='axisNone':
        # only check non-empty rows
        if a[0]=='ok' and o[0]=='exc':
            ne = [i for i in range(n) if lens[i]]
            o = ex(lambda: np.array([getattr(np,name)(rows[i]) if mode!='ufunc.reduce' else uf.reduce(rows[i]) for i in ne]))
            if mode=='keepdims' and o[0]=='ok': o=('ok',o[1][:,None])
            try: a = ('ok', np.asarray(a[1])[ne])
            except Exception as e: a=('exc','sel',str(e))
    N+=1
    key=None
    if o[0]=='exc' and a[0]=='exc': continue
    if o[0]=='exc': key='oracle-raises:'+o[1]
    elif a[0]=='exc': key='raised:'+a[1]+':'+a[2][:40]
    else:
        g=np.asarray(a[1]); e=o[1]
        if not eq(g,e):
            key = 'value' if g.shape==np.asarray(e).shape else 'shape %s vs %s'%(g.shape, np.asarray(e).shape)
            if key=='value' and np.allclose(g.astype(float), np.asarray(e).astype(float), equal_nan=True): key='value-close'
        elif g.dtype!=np.asarray(e).dtype: key='dtype %s exp %s'%(g.dtype, np.asarray(e).dtype)
    if key: res[(key,mode,name, np.dtype(dt).kind if 'dtype' in key else '', where_empty if ('value' in key or 'raised' in key) else '', n==0, tot==0)].append((dt.__name__, [r.tolist() for r in rows], o, a))
print(N)
for k in sorted(res, key=str):
    v=res[k]; print(k, len(v), collections.Counter(x[0] for x in v).most_common(12)); print('    ', str(v[0])[:300])
