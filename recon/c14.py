import numpy as np, random, collections, warnings
warnings.simplefilter('ignore')
from npstructures import RunLengthArray
from common import ex, DT
from c04c_vals import gen_vals
rng = random.Random(15)
res = collections.defaultdict(list)
def gen_runs(rng, dt, extreme=False, maxlen=20):
    L = rng.randint(1, maxlen)
    style = rng.choice(['allsame','alldiff','runs','single','longruns'])
    if style=='single': L=1
    if style=='allsame': v=np.repeat(gen_vals(rng,dt,1,extreme), L)
    elif style=='alldiff': v=gen_vals(rng,dt,L,extreme)
    else:
        out=[]
        while len(out)<L:
            out += [gen_vals(rng,dt,1,extreme)[0]]*rng.randint(1, 3 if style=='runs' else 8)
        v=np.array(out[:L],dtype=dt)
    return v
def canon(r, joined=True):
    e=np.asarray(r._events); v=np.asarray(r._values)
    if len(e)!=len(v)+1: return 'len(events)!=len(values)+1'
    if e[0]!=0: return 'e0!=0'
    if np.any(e[1:]<=e[:-1]): return 'not-increasing'
    if joined and len(v)>1:
        same = (v[1:]==v[:-1]) | ((v[1:]!=v[1:]) & (v[:-1]!=v[:-1]) if v.dtype.kind=='f' else False)
        if np.any(v[1:]==v[:-1]): return 'adjacent-equal'
    return None
def eqarr(a,b):
    a=np.asarray(a); b=np.asarray(b)
    return a.shape==b.shape and a.dtype==b.dtype and np.array_equal(a,b,equal_nan=a.dtype.kind=='f')
N=0
for t in range(40000):
    dt=rng.choice(DT+[np.float16]); extreme=rng.random()<.4
    v=gen_runs(rng,dt,extreme)
    r=ex(lambda: RunLengthArray.from_array(v))
    kd=np.dtype(dt).name
    if r[0]=='exc': res[('from_array:'+r[1]+':'+r[2][:40],kd)].append((v.tolist(),)); continue
    rl=r[1]; N+=1
    hasnan = v.dtype.kind=='f' and bool(np.isnan(v).any())
    d=ex(lambda: rl.to_array())
    if d[0]=='exc': res[('to_array:'+d[1]+':'+d[2][:40],kd)].append((v.tolist(),))
    elif not eqarr(d[1],v): res[('roundtrip-wrong',kd,hasnan)].append((v.tolist(), d[1].tolist(), d[1].dtype))
    d=ex(lambda: np.asarray(rl))
    if d[0]=='exc': res[('asarray:'+d[1],kd)].append((v.tolist(),))
    elif not eqarr(d[1],v): res[('asarray-wrong',kd)].append((v.tolist(), d[1].tolist()))
    m=ex(lambda: (len(rl), rl.size, rl.shape, rl.dtype==v.dtype))
    if m!=('ok',(len(v),len(v),(len(v),),True)): res[('meta',kd)].append((v.tolist(),m))
    c=canon(rl)
    if c: res[('canon-encode:'+c,kd,hasnan)].append((v.tolist(), rl._events.tolist(), rl._values.tolist()))
print(N)
for k,v in sorted(res.items(), key=str): print(k,len(v),'   ',str(v[0])[:300])
