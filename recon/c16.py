import numpy as np, random, collections, warnings, re
warnings.simplefilter('ignore')
from npstructures import RunLengthArray
from common import ex, DT
from c04c_vals import gen_vals
from c14_fns import gen_runs, canon, eqarr
rng = random.Random(17)
res = collections.defaultdict(list)
N=collections.Counter()
UN = [np.negative, np.abs, np.logical_not, np.invert, np.sqrt, np.square, np.sign, np.isnan]
BI = [np.add, np.subtract, np.multiply, np.true_divide, np.floor_divide, np.mod, np.power, np.maximum, np.minimum,
      np.equal, np.not_equal, np.less, np.less_equal, np.greater, np.greater_equal,
      np.bitwise_and, np.bitwise_or, np.bitwise_xor, np.left_shift, np.right_shift, np.logical_and, np.logical_or, np.logical_xor]
def rec(k, info): res[k].append(info)
for t in range(60000):
    dt=rng.choice(DT); extreme=rng.random()<.3
    v=gen_runs(rng,dt,extreme,maxlen=14); L=len(v)
    rl=RunLengthArray.from_array(v); ev0=rl._events.copy(); va0=rl._values.copy()
    kind=rng.choice(['unary','rl','pyscalar','npscalar','reduce','concat','hist'])
    N[kind]+=1
    if kind=='unary':
        uf=rng.choice(UN); o=ex(lambda: uf(v)); r_=ex(lambda: uf(rl)); name=uf.__name__; joined=False
    elif kind=='rl':
        uf=rng.choice(BI); dt2=rng.choice(DT); w=np.resize(gen_runs(rng,dt2,extreme,maxlen=14),L)
        # alignments
        al=rng.choice(['indep','same','nested'])
        if al=='same': w=v.astype(dt2) if rng.random()<.5 else w
        rw=RunLengthArray.from_array(w)
        o=ex(lambda: uf(v,w)); r_=ex(lambda: uf(rl,rw)); name=uf.__name__; joined=True
    elif kind in('pyscalar','npscalar'):
        uf=rng.choice(BI); side=rng.choice('LR')
        s = rng.choice([2,3,-1,2.5,True]) if kind=='pyscalar' else gen_vals(rng, rng.choice(DT), 1, False)[0]
        if side=='R': o=ex(lambda: uf(v,s)); r_=ex(lambda: uf(rl,s))
        else: o=ex(lambda: uf(s,v)); r_=ex(lambda: uf(s,rl))
        name=uf.__name__+side; joined=False
    elif kind=='reduce':
        name=rng.choice(['sum','any','all','max','mean','np.sum','np.any','np.all','np.mean'])
        if name.startswith('np.'): o=ex(lambda: getattr(np,name[3:])(v)); r_=ex(lambda: getattr(np,name[3:])(rl))
        else: o=ex(lambda: getattr(v,name)()); r_=ex(lambda: getattr(rl,name)())
        key=None
        if o[0]=='exc' and r_[0]=='exc': continue
        if o[0]=='exc': key='oracle-raises'
        elif r_[0]=='exc': key='raised:'+r_[1]
        else:
            g=np.asarray(r_[1]); e=np.asarray(o[1])
            if not np.array_equal(g,e,equal_nan=True):
                key='value-close' if np.allclose(g.astype(float),e.astype(float),equal_nan=True, rtol=1e-6) else 'value'
        if key: rec((kind,name,key,np.dtype(dt).kind, extreme),(v.tolist(), o, r_))
        continue
    elif kind=='concat':
        k=rng.randint(1,3); parts=[v]+[gen_runs(rng,dt,extreme,maxlen=6) for _ in range(k-1)]
        o=ex(lambda: np.concatenate(parts)); r_=ex(lambda: np.concatenate([RunLengthArray.from_array(p) for p in parts])); name='concat'; joined=False
    else:
        bins=rng.choice([3,10,[0,1,2,5]])
        if dt is np.bool_: continue
        o=ex(lambda: np.histogram(v,bins)); r_=ex(lambda: np.histogram(rl,bins))
        key=None
        if o[0]=='exc' and r_[0]=='exc': continue
        if o[0]=='exc': key='oracle-raises:'+o[1]
        elif r_[0]=='exc': key='raised:'+r_[1]+r_[2][:30]
        elif not (np.array_equal(o[1][0],r_[1][0]) and np.allclose(o[1][1],r_[1][1])): key='value'
        if key: rec((kind,key,np.dtype(dt).kind,extreme),(v.tolist(),bins,o,r_))
        continue
    key=None
    if o[0]=='exc' and r_[0]=='exc': continue
    if o[0]=='exc': key='oracle-raises-accepted:'+o[1]
    elif r_[0]=='exc': key='raised:'+r_[1]+':'+re.sub(r'\d+','#',r_[2][:40])
    else:
        r=r_[1]
        if not isinstance(r,RunLengthArray): key='notRLA:'+type(r).__name__
        else:
            d=ex(lambda: r.to_array())
            if d[0]=='exc': key='decode-raised:'+d[1]
            else:
                g=d[1]; e=np.asarray(o[1])
                if g.shape!=e.shape: key='len'
                elif not np.array_equal(g,e,equal_nan=g.dtype.kind=='f'): key='value'
                elif g.dtype!=e.dtype: key='dtype %s exp %s'%(g.dtype,e.dtype)
                c=canon(r, joined=joined)
                if c and not key: key='canon:'+c
    if not (np.array_equal(rl._events,ev0) and np.array_equal(rl._values,va0,equal_nan=va0.dtype.kind=='f')): key=(key or '')+'+mutated'
    if key: rec((kind, name if kind in('concat',) or 'scalar' in kind else '', key, np.dtype(dt).name if 'dtype' in key else np.dtype(dt).kind, extreme), (name, v.tolist(), str(o)[:100], str(r_)[:100]))
print(N)
agg=collections.Counter(); exm={}
for k,v in res.items():
    agg[k]+=len(v); exm.setdefault(k,v[0])
for k,v in sorted(agg.items(), key=str): print(k,v,'   ',str(exm[k])[:260])
print('=====AGG2')
agg2=collections.Counter(); ex2={}
for k,v in res.items():
    kind=k[0]; key=k[2] if len(k)>=5 else k[1]
    if kind=='reduce': key=(k[1],k[2])
    kk=(kind, key if not isinstance(key,str) else key[:70])
    agg2[kk]+=len(v); ex2.setdefault(kk, v[0])
for k,v in sorted(agg2.items(), key=str): print(k,v,'   ',str(ex2[k])[:230])
