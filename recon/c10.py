from prog import *
rng=random.Random(21)
res=collections.defaultdict(list)
N=0
for t in range(30000):
    steps=gen_program(rng, rng.randint(2,8), avoid={'negcol_empty'})
    # read plan
    plan={}
    nv=sum(1 for s in steps if s[0] not in('assign',))
    for si in range(len(steps)):
        if rng.random()<.5:
            plan[si]=[('a%d'%rng.randrange(nv), rng.choice(READS)) for _ in range(rng.randint(1,2))]
    try: fA,_,envA=run_lib(steps)
    except Exception as e: A=('exc',type(e).__name__)
    else: A=('ok',fA)
    try: fB,obsB,envB=run_lib(steps, read_plan=plan)
    except Exception as e: B=('exc',type(e).__name__,str(e)[:60])
    else: B=('ok',fB)
    N+=1
    if A[0]!=B[0]:
        res[('raise-differs',A[0],B[0],B[1] if B[0]=='exc' else A[1])].append((steps,plan)); continue
    if A[0]=='exc': continue
    if fA!=fB:
        # classify: was there an assign to a var while a dependent lazy existed?
        m=run_model(steps)
        bad=[v for v in fA if fA[v]!=fB[v]]
        res[('final-differs', 'A==model' if all(fA[v]==m[v] for v in bad) else ('B==model' if all(fB[v]==m[v] for v in bad) else 'neither'))].append((steps,plan,bad))
    else:
        m=run_model(steps)
        bad=[v for v in fA if fA[v]!=m[v]]
        if bad: res[('both-wrong-vs-model',)].append((steps,plan,bad))
print(N)
for k,v in sorted(res.items(), key=str):
    print(k,len(v))
    for s in v[0][0]: print('      ',s)
    print('     plan', v[0][1], v[0][2:] )
