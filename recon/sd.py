import numpy as np
from npstructures import RaggedArray, RaggedShape
from npstructures.raggedshape import ViewBase, RaggedView
RaggedShape.set_dtype(np.int32)
print(ViewBase._dtype, RaggedShape._dtype, RaggedView._dtype)
a=RaggedArray([[1,2,3],[4],[],[5,6]])
for f in (lambda: a[1:3].tolist(), lambda: a[::2].tolist(), lambda: a[[0,3]].tolist(), lambda: a[1:,0:1].tolist(), lambda: (a+1).tolist()):
    try: print(f())
    except Exception as e: print('EXC', type(e).__name__, str(e)[:80])
