import json, os, shutil, subprocess, sys, time
from concurrent.futures import ThreadPoolExecutor
muts=json.load(open('/tmp/recon/mutants.json'))
base=json.load(open('/tmp/recon/base1.json'))
ROOT='/tmp/recon/m'
os.makedirs(ROOT, exist_ok=True)
def run(m):
    d=f"{ROOT}/{m['id']}"
    try:
        shutil.rmtree(d, ignore_errors=True)
        os.makedirs(d)
        shutil.copytree('/repo/npstructures', d+'/npstructures', ignore=shutil.ignore_patterns('__pycache__'))
        shutil.copytree('/repo/tests', d+'/tests', ignore=shutil.ignore_patterns('__pycache__'))
        shutil.copy('/repo/conftest.py', d); shutil.copy('/repo/setup.cfg', d)
        open(os.path.join(d, m['file']),'w').write(m['src'])
        env=dict(os.environ, PYTHONPATH=d, PYTHONDONTWRITEBYTECODE='1', PYTHONHASHSEED='0')
        r={'id':m['id']}
        try:
            p=subprocess.run(['/venv/bin/python','-m','pytest','-q','-x','-p','no:cacheprovider','--timeout=120','--deselect','tests/test_raggedarray.py::test_two_indexing_row_n'], cwd=d, env=env, capture_output=True, text=True, timeout=300)
            r['suite']='pass' if p.returncode==0 else 'fail'
        except subprocess.TimeoutExpired: r['suite']='timeout'
        if r['suite']=='pass':
            try:
                p=subprocess.run(['/venv/bin/python','/tmp/recon/allrecon.py'], cwd=d, env=env, capture_output=True, text=True, timeout=400)
                try:
                    out=json.loads(p.stdout)
                    r['diff']=[k for k in base if out.get(k)!=base[k]]
                except Exception: r['diff']=['CRASH']
            except subprocess.TimeoutExpired: r['diff']=['TIMEOUT']
        return r
    finally:
        shutil.rmtree(d, ignore_errors=True)
t=time.time(); res=[]
with ThreadPoolExecutor(16) as ex:
    for i,r in enumerate(ex.map(run, muts)):
        res.append(r)
        if i%50==0: print(i, time.time()-t, flush=True)
json.dump(res, open('/tmp/recon/mres.json','w'))
print('done', time.time()-t)
