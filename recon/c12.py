import numpy as np, random, collections, warnings
warnings.simplefilter('ignore')
from npstructures import HashTable, HashSet, Counter
from common import ex
from c11_fns import gen_keys
rng = random.Random(13)
res = collections.defaultdict(list)
N=0
for t in range(20000):
    keys, kd, mod, style, (lo,hi) = gen_keys(rng)
    if kd is not None and mod is not None and mod>np.iinfo(kd).max: mod=None
    karr = np.array(keys, dtype=kd) if kd else keys
    init = rng.choice(['default','scalar0','scalar','array'])
    kw={}
    if mod is not None: kw['mod']=mod
    if init=='default': c=ex(lambda: Counter(karr, **kw)); base={k:0 for k in keys}
    elif init=='scalar0': c=ex(lambda: Counter(karr, 0, **kw)); base={k:0 for k in keys}
    elif init=='scalar': c=ex(lambda: Counter(karr, 4, **kw)); base={k:4 for k in keys}
    else:
        iv=[rng.randint(0,9) for _ in keys]; c=ex(lambda: Counter(karr, np.array(iv), **kw)); base={k:v for k,v in zip(keys,iv)}
    tag=(init, style, 'mod1' if mod==1 else '')
    if c[0]=='exc': res[('ctor:'+c[1]+':'+c[2][:40],)+tag].append((keys,mod)); continue
    cn=c[1]; model=dict(base)
    N+=1
    nb=rng.randint(0,4); bad=None
    allsamples=[]
    for b in range(nb):
        bs = rng.choice(['empty','nokey','onlykeys','mixed','heavy'])
        L = rng.randint(1,12)
        def nonkey():
            for _ in range(50):
                x=rng.randint(max(lo,-60),min(hi,60)) if rng.random()<.7 else rng.randint(max(lo,-2**62),min(hi,2**62))
                if x not in model: return x
            return None
        if bs=='empty': s=[]
        elif bs=='nokey': s=[x for x in [nonkey() for _ in range(L)] if x is not None]
        elif bs=='onlykeys': s=[rng.choice(keys) for _ in range(L)]
        elif bs=='heavy': s=[keys[0]]*L*3
        else: s=[rng.choice(keys) if rng.random()<.5 else nonkey() for _ in range(L)]; s=[x for x in s if x is not None]
        sarr = np.array(s, dtype=kd) if kd else (np.array(s, dtype=np.int64) if rng.random()<.5 else s)
        a=ex(lambda: cn.count(sarr))
        if a[0]=='exc': bad=('count-raised:'+a[1]+':'+a[2][:40], bs, s); break
        for x in s:
            if x in model: model[x]+=1
        allsamples+=s
    if bad: res[(bad[0],bad[1])+tag].append((keys,mod,bad[2])); continue
    a=ex(lambda: np.asarray(cn[np.array(keys,dtype=kd) if kd else np.array(keys)]).tolist())
    if a!=('ok',[model[k] for k in keys]):
        res[('totals-wrong' if a[0]=='ok' else 'read-raised:'+a[1]+':'+a[2][:40],)+tag+(nb,)].append((keys,mod,allsamples,a,model))
    # batch-split invariance: one-shot counter
    c2 = Counter(karr, **kw) if init in('default','scalar0') else (Counter(karr,4,**kw) if init=='scalar' else Counter(karr,np.array(iv),**kw))
    sarr = np.array(allsamples, dtype=kd) if kd else np.array(allsamples, dtype=np.int64)
    rng.shuffle(allsamples)
    a2=ex(lambda: (c2.count(np.array(allsamples, dtype=kd) if kd else np.array(allsamples,dtype=np.int64)), np.asarray(c2[np.array(keys,dtype=kd) if kd else np.array(keys)]).tolist())[1])
    if a2!=a: res[('split-variance',)+tag].append((keys,mod,allsamples,a,a2))
print(N)
agg=collections.Counter(); exm={}
for k,v in res.items():
    kk=k[:3]; agg[kk]+=len(v); exm.setdefault(kk,(k,v[0]))
for k,v in sorted(agg.items(), key=str): print(k,v,'   ',str(exm[k])[:400])
