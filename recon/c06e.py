from prog import *
rng=random.Random(20)
res=collections.defaultdict(list)
N=0
def guard(env, st):
    # skip known: assignment to parent while some other var is lazy & shares memory (L5)
    if st[0]=='assign':
        tgt=env[st[1]]
        base=tgt._RaggedBase__data
        for v,x in env.items():
            if x is not tgt and is_lazy(x) and np.shares_memory(x._RaggedBase__data, base): raise Skip('L5')
    if st[0]=='alias' and is_lazy(env[st[2]]): raise Skip('L6')
sk=collections.Counter()
for t in range(40000):
    steps=gen_program(rng, rng.randint(2,8), avoid={'negcol_empty'})
    try:
        final,obs,env=run_lib(steps, guard=guard)
    except Skip as e:
        sk[str(e)]+=1; continue
    except Exception as e:
        res[('raised',type(e).__name__,str(e)[:50])].append(steps); continue
    N+=1
    m=run_model(steps)
    bad=[v for v in m if m[v]!=final[v]]
    if bad: res[('final-wrong',)].append((steps,bad[0],final[bad[0]],m[bad[0]]))
print(N, sk)
for k,v in sorted(res.items(), key=str):
    print(k,len(v)); 
    for s in v[0][0] if k[0]=='final-wrong' else v[0]: print('      ',s)
    if k[0]=='final-wrong': print('    ->', v[0][1:])
