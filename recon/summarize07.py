import re, sys, collections
agg=collections.Counter(); ex={}
for line in open(sys.argv[1]):
    if line.startswith("('"):
        m = re.match(r"\('(.+?)', '(.+?)', '(.)', (\(.*?\)|''), (True|False), (True|False), (True|False)\) (\d+)", line)
        if not m: print('??', line[:100]); continue
        op,key,kd,we,tot0,n0,extreme,cnt = m.groups()
        agg[(op,key[:50],kd, 'tot0' if tot0=='True' else '', 'trailing-empty' if 'last' in we else ('noempty' if we in("()","''") else 'empty-notlast'), 'X' if extreme=='True' else '')]+=int(cnt)
for k,v in sorted(agg.items()): print(k,v)
