import numpy as np, random, collections, warnings
warnings.simplefilter('ignore')
from npstructures import HashTable, HashSet, Counter
from common import ex
rng = random.Random(12)
res = collections.defaultdict(list)
KD = [np.int8,np.int16,np.int32,np.int64,np.uint8,np.uint16,np.uint32,np.uint64, None]
def gen_keys(rng):
    kd = rng.choice(KD)
    nk = rng.randint(1,8)
    style = rng.choice(['small','neg','big','dense'])
    if kd is None: lo,hi = -50,50
    else:
        ii=np.iinfo(kd); lo,hi = int(ii.min), int(ii.max)
    if style=='small': lo2,hi2 = max(lo,0), min(hi,40)
    elif style=='neg': lo2,hi2 = max(lo,-40), min(hi,40)
    elif style=='big': lo2,hi2 = max(lo,-2**62), min(hi,2**62)
    else: lo2,hi2 = max(lo,0), min(hi,nk+2)
    pool=set()
    tries=0
    while len(pool)<nk and tries<100:
        pool.add(rng.randint(lo2,hi2)); tries+=1
    keys=list(pool); rng.shuffle(keys)
    mod = rng.choice([None,None,1,2,3,7,len(keys),17,1000])
    return keys, kd, mod, style, (lo,hi)
N=0
for t in range(20000):
    keys, kd, mod, style, (lo,hi) = gen_keys(rng)
    vdt = rng.choice([np.int64, np.float64, np.int32])
    scalar_init = rng.random()<.3
    vals = 5 if scalar_init else [rng.randint(-9,9) for _ in keys]
    tag = (style, 'kd=%s'%(kd.__name__ if kd else None), 'mod=%s'%mod)
    karr = np.array(keys, dtype=kd) if kd else keys
    c = ex(lambda: HashTable(karr, vals if scalar_init else np.array(vals,dtype=vdt), mod=mod))
    if c[0]=='exc':
        res[('ctor:'+c[1]+':'+c[2][:40],)+tag[:1]+(tag[1],)].append((keys,mod)); continue
    h=c[1]
    model = {k:(vals if scalar_init else vals[i]) for i,k in enumerate(keys)}
    N+=1
    for step in range(rng.randint(1,8)):
        op = rng.choice(['get1','getv','getmiss','set1','setv','setvv','contains','fill','to_dict'])
        key=None; info=None
        if op=='get1':
            k=rng.choice(keys); a=ex(lambda: h[k if kd is None else np.dtype(kd).type(k).item()])
            if a[0]=='exc': key='raised:'+a[1]+':'+a[2][:30]
            elif np.asarray(a[1]).ravel().tolist()!=[model[k]]: key='value'
            info=(keys,mod,k,a)
        elif op=='getv':
            q=[rng.choice(keys) for _ in range(rng.randint(0,6))]
            a=ex(lambda: h[np.array(q,dtype=kd) if kd else q])
            if a[0]=='exc': key='raised:'+a[1]+':'+a[2][:30] + (' (empty q)' if not q else '')
            elif np.asarray(a[1]).tolist()!=[model[k] for k in q]: key='value'
            info=(keys,mod,q,a, scalar_init)
        elif op=='getmiss':
            miss=[x for x in [rng.randint(max(lo,-60),min(hi,60)) for _ in range(3)] if x not in model]
            if not miss: continue
            q=[rng.choice(keys), miss[0]]; rng.shuffle(q)
            a=ex(lambda: h[np.array(q,dtype=kd) if kd else q])
            if a[0]=='ok': key='missing-accepted' + ('(scalar-values)' if isinstance(h._values,(int,float)) else '')
            info=(keys,mod,q,a)
        elif op in('set1','setv','setvv'):
            if op=='set1': q=[rng.choice(keys)]; v=rng.randint(10,20); idx=q[0]; vv=[v]
            elif op=='setv': q=rng.sample(keys, rng.randint(1,len(keys))); v=rng.randint(10,20); idx=np.array(q,dtype=kd) if kd else q; vv=[v]*len(q)
            else: q=rng.sample(keys, rng.randint(1,len(keys))); vv=[rng.randint(10,20) for _ in q]; v=np.array(vv); idx=np.array(q,dtype=kd) if kd else q
            a=ex(lambda: h.__setitem__(idx, v))
            if a[0]=='exc': key='raised:'+a[1]+':'+a[2][:30]
            else:
                for k_,v_ in zip(q,vv): model[k_]=v_
            info=(keys,mod,q,a)
        elif op=='contains':
            q=[rng.choice(keys) if rng.random()<.5 else rng.randint(max(lo,-60),min(hi,60)) for _ in range(rng.randint(1,5))]
            a=ex(lambda: h.contains(np.array(q,dtype=kd) if kd else q))
            if a[0]=='exc': key='raised:'+a[1]+':'+a[2][:30]
            elif a[1].tolist()!=[x in model for x in q]: key='value'
            info=(keys,mod,q,a)
        elif op=='fill':
            a=ex(lambda: h.fill(3))
            if a[0]=='exc': key='raised:'+a[1]
            else: model={k:3 for k in model}
        elif op=='to_dict':
            a=ex(lambda: {int(k):v for k,v in h.to_dict().items()})
            if a[0]=='exc': key='raised:'+a[1]+':'+a[2][:30] + ('(scalar-values)' if isinstance(h._values,(int,float)) else '')
            elif a[1]!=model: key='value'
            info=(keys,mod,a)
        if key: res[(op,key)+tag[:1]+(tag[1],)].append(info); break
    # final check of all keys
    else:
        a=ex(lambda: np.asarray(h[np.array(keys,dtype=kd) if kd else keys]).tolist())
        if a!=('ok',[model[k] for k in keys]): res[('final', 'wrong' if a[0]=='ok' else a[1])+tag[:1]+(tag[1],)].append((keys,mod,a,model))
print(N)
agg=collections.Counter(); exm={}
for k,v in res.items():
    kk=k[:2]; agg[kk]+=len(v); exm.setdefault(kk,(k,v[0]))
for k,v in sorted(agg.items(), key=str): print(k,v,'   ',str(exm[k])[:300])
print('--- by kd for ctor')
for k,v in sorted(res.items(), key=str):
    if k[0].startswith('ctor') or 'value' in k[1]: print(k,len(v), str(v[0])[:200])
