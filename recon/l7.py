import numpy as np
from npstructures import RaggedArray
a = RaggedArray([[1,2,3],[4,5,6,7]])
b = a[:, ::-1]; print('lazy b[0,0]', b[0,0], ' fresh', RaggedArray(a[:, ::-1].tolist())[0,0])
b = a[:, ::2]; print('lazy b[1,1]', b[1,1], ' fresh', RaggedArray(a[:, ::2].tolist())[1,1])
b = a[:, 1:]; print('lazy b[[0,1],[0,0]]', b[[0,1],[0,0]], 'exp [2,5]')
b = a[::-1]; print('lazy rowview b[0,1]', b[0,1], 'exp 5')
b = a[:, ::2]; 
try: print('lazy b[1, 2] (oob after step)', b[1,2])
except Exception as e: print('raises', type(e).__name__)
b = a[:, ::-1]; print('lazy get_column_values(0)', b.get_column_values(0), 'exp [3,7]')
b = a[:, ::2]; print('lazy b[:,1]', b[:,1], 'exp [3,6]')
b = a[:, ::-1]; print('lazy b[:,0]', b[:,0], 'exp [3,7]')
b = a[:, ::-1]; print('lazy b[0,:2]', b[0,:2], 'exp [3,2]')
b = a[:, ::-1]; print('lazy b[[0],:2]', b[[0],:2].tolist(), 'exp [[3,2]]')
