import numpy as np
from c04c_vals import gen_vals
def gen_runs(rng, dt, extreme=False, maxlen=20):
    L = rng.randint(1, maxlen)
    style = rng.choice(['allsame','alldiff','runs','single','longruns'])
    if style=='single': L=1
    if style=='allsame': v=np.repeat(gen_vals(rng,dt,1,extreme), L)
    elif style=='alldiff': v=gen_vals(rng,dt,L,extreme)
    else:
        out=[]
        while len(out)<L:
            out += [gen_vals(rng,dt,1,extreme)[0]]*rng.randint(1, 3 if style=='runs' else 8)
        v=np.array(out[:L],dtype=dt)
    return v
def canon(r, joined=True):
    e=np.asarray(r._events); v=np.asarray(r._values)
    if len(e)!=len(v)+1: return 'len(events)!=len(values)+1'
    if e[0]!=0: return 'e0!=0'
    if np.any(e[1:]<=e[:-1]): return 'not-increasing'
    if joined and len(v)>1:
        same = (v[1:]==v[:-1]) | ((v[1:]!=v[1:]) & (v[:-1]!=v[:-1]) if v.dtype.kind=='f' else False)
        if np.any(v[1:]==v[:-1]): return 'adjacent-equal'
    return None
def eqarr(a,b):
    a=np.asarray(a); b=np.asarray(b)
    return a.shape==b.shape and a.dtype==b.dtype and np.array_equal(a,b,equal_nan=a.dtype.kind=='f')
