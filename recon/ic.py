import sys; sys.path.insert(0,'/tmp/recon/.deps')
import icontract, numpy as np, time
from npstructures import RunLengthArray, HashTable, Counter, RaggedArray
from npstructures import runlengtharray as rlmod
class InvariantBroken(Exception): pass
cnt={'rla':0,'ht':0}
def rla_canonical(self):
    cnt['rla']+=1
    e=np.asarray(self._events); v=self._values
    return len(e)==len(v)+1 and e[0]==0 and bool(np.all(e[1:]>e[:-1]))
icontract.invariant(rla_canonical, error=InvariantBroken)(RunLengthArray)
def ht_buckets(self):
    cnt['ht']+=1
    k=self._keys
    if not k.is_contigous: return True
    rows=np.repeat(np.arange(len(k)), k.lengths)
    return bool(np.all(k.ravel()%self._mod==rows))
icontract.invariant(ht_buckets, error=InvariantBroken)(HashTable)
icontract.invariant(ht_buckets, error=InvariantBroken)(Counter)
r=RunLengthArray.from_array(np.array([1,1,2,3,3]))
print((r+r).to_array(), r[1:4].to_array(), cnt)
h=HashTable([3,5,9],[1,2,3]); h[3]=7; print(h[[3,9]], cnt)
c=Counter([3,5,9]); c.count([3,3,4]); print(c[[3,5]], cnt)
try:
    RunLengthArray(np.array([0,2,2]), np.array([1,2]))
except BaseException as e: print('caught', type(e).__name__)
# break it via python -O style: bypass asserts
import types
t=time.time()
for i in range(2000): (r+r)[::2]
print('2000 ops', time.time()-t, cnt)
# sys.monitoring coverage cost
import sys
mon=sys.monitoring; TID=3
mon.use_tool_id(TID,'cov'); hits=set()
def line_cb(code, line):
    hits.add((code.co_filename, line)); return mon.DISABLE
mon.register_callback(TID, mon.events.LINE, line_cb)
mon.set_events(TID, mon.events.LINE)
t=time.time()
for i in range(2000): (r+r)[::2]
print('with monitoring', time.time()-t, len([h for h in hits if 'npstructures' in h[0]]))
