from common import *
from c06b_fns import gen_rowsel, apply_model
rng = random.Random(7)
res = collections.defaultdict(list)
N=0
def desc(k, rs, cs, sel_has_empty):
    rstep = None
    if k=='slice': rstep = 'neg' if (rs.step or 1)<0 else ('1' if (rs.step or 1)==1 else 'pos')
    c = None if cs is None else ('neg' if (cs.step or 1)<0 else ('1' if (cs.step or 1)==1 else 'pos'))
    return (k, rstep, c, 'E' if sel_has_empty else '-')
for t in range(60000):
    rows, lens, dt = gen_rows(rng, dt=np.int64, maxrows=6, maxlen=6, allow_empty=rng.random()<.6)
    ra = mk(rows, dt)
    model = [r.tolist() for r in rows]
    cur = ra; trace=[]; sig=[]
    bad=None
    for d in range(2):
        n=len(model)
        k, rs = gen_rowsel(rng, n)
        maxl = max([len(r) for r in model], default=0)
        cs = gen_slice(rng, maxl) if rng.random()<.5 else None
        idx = rs if cs is None else (rs, cs)
        trace.append(idx)
        sel_has_empty = any(len(r)==0 for r in (apply_model(model,k,rs,None)))
        sig.append(desc(k,rs,cs,sel_has_empty))
        model = apply_model(model, k, rs, cs)
        r = ex(lambda: cur[idx])
        if r[0]=='exc': bad=('idx-raised:'+r[1], d); break
        cur=r[1]
    N+=1
    if bad is None:
        pre = ex(lambda: (len(cur), cur.size, cur.lengths.tolist()))
        exp_pre = (len(model), sum(len(r) for r in model), [len(r) for r in model])
        g = ex(lambda: cur.tolist())
        if g != ('ok', model):
            bad = ('content-wrong' if g[0]=='ok' else 'read-raised:'+g[1], 2)
        elif pre != ('ok', exp_pre): bad=('meta-wrong',2)
    if bad:
        res[(bad, tuple(sig))].append(([x.tolist() for x in rows], trace, model))
print(N)
# aggregate: is the first step alone already failing (C02 defect: neg col + empty)?
agg = collections.Counter()
for (bad,sig),v in res.items():
    s1, s2 = sig[0], (sig[1] if len(sig)>1 else None)
    c02 = lambda s: s is not None and s[2]=='neg' and s[3]=='E'
    cause = []
    if c02(s1) or c02(s2): cause.append('negcol+empty')
    if s2 and s2[0]=='ell' and s2[2] is None: cause.append('lazy[...]')
    agg[(bad[0], bad[1], tuple(cause))] += len(v)
for k,v in sorted(agg.items(), key=str): print(k, v)
print('---- unexplained')
for (bad,sig),v in sorted(res.items(), key=str):
    s1, s2 = sig[0], (sig[1] if len(sig)>1 else None)
    c02 = lambda s: s is not None and s[2]=='neg' and s[3]=='E'
    if c02(s1) or c02(s2): continue
    if s2 and s2[0]=='ell' and s2[2] is None: continue
    print(bad, sig, len(v), v[0])
