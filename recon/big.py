from common import *
import copy, warnings; warnings.simplefilter('ignore')
from prog import *
rng=random.Random(33)
res=collections.Counter(); exm={}
# big arrays: repr/str/iter/reads on fresh and lazy, vs list model
for t in range(300):
    n=rng.randint(20,60); lens=[rng.choice([0,0,1,3,10,40,70]) for _ in range(n)]
    flat=np.arange(sum(lens)); ra=RaggedArray(flat.copy(), lens)
    offs=np.insert(np.cumsum(lens),0,0); rows=[flat[offs[i]:offs[i+1]].tolist() for i in range(n)]
    k,rs=('slice',gen_slice(rng,n)) if rng.random()<.5 else ('list',[rng.randint(-n,n-1) for _ in range(rng.randint(0,30))])
    cs=gen_slice(rng,70) if rng.random()<.5 else None
    sel=m_sel(rows,k,rs,None)
    if cs is not None and (cs.step or 1)<0 and any(len(r)==0 for r in sel): continue
    exp=m_sel(rows,k,rs,cs)
    b=ra[mkidx(k,rs,cs)]
    for rd in ['repr','str','meta','sum1','tolist']:
        c=copy.copy(b)
        try:
            got=do_read(c,rd)
            if rd=='tolist' and got!=exp: res[('wrong',rd)]+=1; exm.setdefault(('wrong',rd),(lens,rs,cs))
            if rd=='meta' and got[:3]!=(len(exp),sum(map(len,exp)),[len(r) for r in exp]): res[('wrong',rd)]+=1
            if rd=='sum1' and got!=[sum(r) for r in exp]: res[('wrong',rd)]+=1; exm.setdefault(('wrong',rd),(lens,rs,cs))
            if rd in('repr','str'):
                # compare with fresh array
                f=RaggedArray(np.array([x for r in exp for x in r],dtype=np.int64),[len(r) for r in exp])
                if do_read(f,rd)!=got: res[('differs-from-fresh',rd)]+=1; exm.setdefault(('dff',rd),(lens,rs,cs))
        except Exception as e:
            res[('raised',rd,type(e).__name__)]+=1; exm.setdefault(('raised',rd),(lens,rs,cs,str(e)[:80]))
    res['n']+=1
print(res); 
for k,v in exm.items(): print(k,str(v)[:300])
