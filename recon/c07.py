from common import *
import warnings; warnings.simplefilter('ignore')
from c04c_vals import gen_vals
rng = random.Random(9)
res = collections.defaultdict(list)
N=0
def eqrows(got, exp, dtcheck=True):
    if not isinstance(got, RaggedArray): return 'notRA:'+type(got).__name__
    g = list(got)
    if len(g)!=len(exp): return 'nrows'
    if [len(x) for x in g]!=[len(x) for x in exp]: return 'lens'
    for x,y in zip(g,exp):
        if not np.array_equal(x,y,equal_nan=(x.dtype.kind=='f' and np.asarray(y).dtype.kind=='f')): return 'value'
    if dtcheck and got.size and got.dtype!=np.concatenate([np.asarray(e) for e in exp]).dtype: return 'dtype %s exp %s'%(got.dtype, np.concatenate(exp).dtype)
    return None
for t in range(60000):
    extreme = rng.random()<.3
    _, lens, dt = gen_rows(rng)
    n=len(lens); tot=sum(lens)
    flat = gen_vals(rng, dt, tot, extreme)
    offs = np.insert(np.cumsum(lens),0,0).astype(int)
    rows=[flat[offs[i]:offs[i+1]] for i in range(n)]
    ra = RaggedArray(flat.copy(), lens)
    where_empty = tuple(sorted(set(['first' if lens and lens[0]==0 else '', 'last' if lens and lens[-1]==0 else '', 'mid' if any(l==0 for l in lens[1:-1]) else ''])-{''}))
    op = rng.choice(['cumsum','np.cumsum','add.acc','sub.acc','xor.acc','sort','unique','unique_counts','diff'])
    kd = np.dtype(dt).kind
    extra=None
    if op in('cumsum','np.cumsum'):
        o = ex(lambda: [np.cumsum(r) for r in rows])
        a = ex(lambda: ra.cumsum(axis=-1) if op=='cumsum' else np.cumsum(ra, axis=-1))
        if kd not in 'iu':  # rejected by library
            if a[0]=='exc' and a[1]=='TypeError': continue
            if tot==0: continue
    elif op.endswith('.acc'):
        uf = {'add.acc':np.add,'sub.acc':np.subtract,'xor.acc':np.bitwise_xor}[op]
        o = ex(lambda: [uf.accumulate(r) for r in rows])
        a = ex(lambda: uf.accumulate(ra, axis=-1))
    elif op=='sort':
        o = ex(lambda: [np.sort(r) for r in rows]); a = ex(lambda: ra.sort(axis=-1))
    elif op=='unique':
        o = ex(lambda: [np.unique(r) for r in rows]); a = ex(lambda: np.unique(ra, axis=-1))
    elif op=='unique_counts':
        o = ex(lambda: [np.unique(r, return_counts=True) for r in rows])
        a = ex(lambda: np.unique(ra, axis=-1, return_counts=True))
    else:
        nn = rng.choice([1,1,2,3,6]); extra=nn
        o = ex(lambda: [np.diff(r, n=nn) for r in rows]); a = ex(lambda: np.diff(ra, n=nn, axis=-1))
    N+=1
    key=None
    if o[0]=='exc' and a[0]=='exc': continue
    if o[0]=='exc': key='oracle-raises:'+o[1]+':'+o[2][:30]
    elif a[0]=='exc': key='raised:'+a[1]+':'+a[2][:40]
    else:
        if op=='unique_counts':
            k1 = eqrows(a[1][0], [x[0] for x in o[1]]); k2 = eqrows(a[1][1], [x[1] for x in o[1]], dtcheck=False)
            key = ('u:'+k1) if k1 else (('c:'+k2) if k2 else None)
        else:
            key = eqrows(a[1], o[1])
    if not np.array_equal(ra.ravel(), flat, equal_nan=kd=='f'): key=(key or '')+'+mutated'
    if key: res[(op, key, kd, where_empty if ('raised' in key or 'value' in key or 'lens' in key) else '', tot==0, n==0, extreme)].append((dt.__name__, [r.tolist() for r in rows], extra, o if o[0]=='exc' else '', a if a[0]=='exc' else (aslist(a[1]) if not isinstance(a[1],tuple) else [aslist(x) for x in a[1]])))
print(N)
for k in sorted(res, key=str):
    v=res[k]; print(k, len(v), collections.Counter(x[0] for x in v).most_common(4)); print('    ', str(v[0])[:330])
print("=======AGG")
import re
agg=collections.Counter(); exm={}
for k,v in res.items():
    op,key,kd,we,tot0,n0,extreme = k
    key = re.sub(r'\d+','#',key)[:60]
    wk = 'trailing-empty' if (we and 'last' in we) else ('no-empty' if we==() else ('empty-notlast' if we else ''))
    kk=(op,key,kd,'tot0' if tot0 else '', wk)
    agg[kk]+=len(v); exm.setdefault(kk, v[0])
for k,v in sorted(agg.items()): print(k,v, '   ', str(exm[k])[:200])
