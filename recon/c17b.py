import numpy as np, random, collections, warnings
warnings.simplefilter('ignore')
from npstructures import RunLength2dArray, RunLengthRaggedArray, RaggedArray
from common import ex
rng=random.Random(5); res=collections.Counter(); exm={}
for t in range(5000):
    L=rng.randint(1,9); k=rng.randint(1,5)
    starts=np.array([rng.randint(0,L-1) for _ in range(k)]); ends=np.array([rng.randint(s+1,L) for s in starts])
    val=rng.choice([1,3,True,2.5])
    exp=np.zeros((k,L),dtype=np.asarray(val).dtype)
    for i,(s,e) in enumerate(zip(starts,ends)): exp[i,s:e]=val
    a=ex(lambda: RunLength2dArray.from_intervals(starts,ends,L,val).to_array())
    key = None if (a[0]=='ok' and np.array_equal(a[1],exp)) else (a[1] if a[0]=='exc' else 'wrong')
    if key: res[('from_intervals',key, 'full' if (starts==0).any() and (ends==L).any() else '')]+=1; exm.setdefault(('fi',key),(starts,ends,L,val,a))
    # col any on matrix variant
    M=np.array([[rng.choice([0,0,1,2]) for _ in range(L)] for _ in range(k)])
    a=ex(lambda: RunLength2dArray.from_array(M).any(axis=0).to_array())
    e=M.any(axis=0)
    key = None if (a[0]=='ok' and np.array_equal(a[1],e)) else (a[1]+':'+a[2][:40] if a[0]=='exc' else 'wrong')
    if key: res[('colany',key)]+=1; exm.setdefault(('ca',key),(M.tolist(),a))
    a=ex(lambda: RunLength2dArray.from_array(M).sum(axis=0).to_array())
    key = None if (a[0]=='ok' and np.array_equal(a[1],M.sum(axis=0))) else (a[1]+':'+a[2][:40] if a[0]=='exc' else 'wrong')
    if key: res[('colsum2d',key)]+=1; exm.setdefault(('cs',key),(M.tolist(),a))
print(res)
for k,v in exm.items(): print(k, str(v)[:300])
