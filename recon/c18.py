import numpy as np, random, collections, warnings, re, dataclasses
warnings.simplefilter('ignore')
from npstructures import npdataclass, VarLenArray, RaggedArray
from common import ex, gen_slice
rng = random.Random(19)
res = collections.defaultdict(list)
def make_cls(k, kinds):
    ns = {'__annotations__': {f'f{i}': (np.ndarray) for i in range(k)}}
    C = type('T%d'%k, (), ns)
    return npdataclass(C)
CLS = {k: make_cls(k, None) for k in range(1,5)}
def gen_field(rng, L, kind):
    if kind=='1d': return np.array([rng.randint(0,99) for _ in range(L)])
    if kind=='2d': return np.array([[rng.randint(0,99) for _ in range(3)] for _ in range(L)]).reshape(L,3)
    if kind=='f': return np.array([rng.random() for _ in range(L)])
N=collections.Counter()
def fields(o): return [getattr(o, f.name) for f in dataclasses.fields(o)]
def eqf(a, b):
    a=np.asarray(a); b=np.asarray(b)
    return a.shape==b.shape and np.array_equal(a,b)
for t in range(20000):
    k=rng.randint(1,4); L=rng.randint(0,6)
    kinds=[rng.choice(['1d','2d','f']) for _ in range(k)]
    fs=[gen_field(rng,L,kd) for kd in kinds]
    C=CLS[k]
    c=ex(lambda: C(*fs))
    if c[0]=='exc': res[('ctor',c[1]+':'+c[2][:40], L==0)].append((kinds,L)); continue
    o=c[1]
    op=rng.choice(['len','badlen','idx','iter','concat','eq','astype'])
    N[op]+=1
    if op=='len':
        a=ex(lambda: len(o))
        if a!=('ok',L): res[('len',)].append((kinds,L,a))
    elif op=='badlen':
        if k<2: continue
        fs2=list(fs); i=rng.randrange(k); fs2[i]=gen_field(rng,L+rng.choice([1,2]),kinds[i])
        a=ex(lambda: C(*fs2))
        if a[0]=='ok': res[('badlen-accepted',i==0)].append((kinds,L))
    elif op=='idx':
        kk=rng.choice(['int','slice','list','mask'])
        if kk=='int':
            if L==0: continue
            idx=rng.randint(-L,L-1)
        elif kk=='slice': idx=gen_slice(rng,L)
        elif kk=='list': idx=[rng.randint(-L,L-1) for _ in range(rng.randint(0,4))] if L else []
        else: idx=np.array([rng.random()<.5 for _ in range(L)],dtype=bool)
        a=ex(lambda: o[idx])
        if a[0]=='exc': res[('idx-raised',kk,a[1]+':'+a[2][:40], 'emptylist' if (kk=='list' and not idx) else '')].append((kinds,L,idx))
        else:
            exp=[f[idx] for f in fs]
            got=fields(a[1])
            if not all(eqf(g,e) for g,e in zip(got,exp)): res[('idx-wrong',kk)].append((kinds,L,idx))
    elif op=='iter':
        a=ex(lambda: list(o))
        if a[0]=='exc': res[('iter-raised',a[1])].append((kinds,L))
        elif len(a[1])!=L or not all(all(eqf(g,f[i]) for g,f in zip(fields(e),fs)) for i,e in enumerate(a[1])): res[('iter-wrong',)].append((kinds,L))
    elif op=='concat':
        m=rng.randint(1,3); objs=[o]; allf=[fs]
        for _ in range(m-1):
            L2=rng.randint(0,4); f2=[gen_field(rng,L2,kd) for kd in kinds]; objs.append(C(*f2)); allf.append(f2)
        a=ex(lambda: np.concatenate(objs))
        if a[0]=='exc': res[('concat-raised',a[1]+':'+a[2][:40])].append((kinds,[len(x[0]) for x in allf]))
        else:
            exp=[np.concatenate([x[i] for x in allf]) for i in range(k)]
            if not all(eqf(g,e) for g,e in zip(fields(a[1]),exp)): res[('concat-wrong',)].append((kinds,))
    elif op=='eq':
        o2=C(*[f.copy() for f in fs])
        a=ex(lambda: o==o2)
        if a!=('ok',True): res[('eq-same',str(a)[:60])].append((kinds,L))
        if L>0:
            fs3=[f.copy() for f in fs]; i=rng.randrange(k); 
            fs3[i][rng.randrange(L)] = fs3[i][rng.randrange(L)]*0+12345
            a=ex(lambda: o==C(*fs3))
            if a!=('ok',False): res[('eq-diff',str(a)[:60])].append((kinds,L))
    elif op=='astype':
        k2=rng.randint(1,k); C2=CLS[k2]
        a=ex(lambda: o.astype(C2))
        if a[0]=='exc': res[('astype-raised',a[1]+':'+a[2][:40])].append((kinds,k2))
        elif not all(eqf(g,e) for g,e in zip(fields(a[1]),fs[:k2])): res[('astype-wrong',)].append((kinds,k2))
# VarLenArray concat
for t in range(5000):
    m=rng.randint(1,4); arrs=[np.array([[rng.randint(1,9) for _ in range(w)] for _ in range(rng.randint(0,3))]).reshape(-1,w) for w in [rng.randint(1,4) for _ in range(m)]]
    a=ex(lambda: np.concatenate([VarLenArray(x) for x in arrs]))
    W=max(x.shape[1] for x in arrs)
    exp=np.concatenate([np.pad(x,((0,0),(W-x.shape[1],0))) for x in arrs])
    N['vla']+=1
    if a[0]=='exc': res[('vla-raised',a[1]+':'+a[2][:40])].append(([x.shape for x in arrs],))
    elif not eqf(a[1].array,exp): res[('vla-wrong',)].append(([x.tolist() for x in arrs],a[1].array.tolist(),exp.tolist()))
print(N)
for k,v in sorted(res.items(), key=str): print(k,len(v),'   ',str(v[0])[:200])
