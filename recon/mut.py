"""pilot mutation study: AST mutants of anchored functions; pinned suite vs recon oracles"""
import ast, sys, os, json, random, copy, subprocess, shutil, re, hashlib, time
REPO='/repo'
ANCH = {
 'npstructures/raggedshape.py': ['build_indices','__init__','lengths','starts','ends','ravel_multi_index','unravel_multi_index','index_array','_index_rows','view_rows','view','to_dict','from_dict','size','broadcast_values','_raw_broadcast','_broadcast_values_fast','_calculate_lengths','_pos_col_slice','col_slice','get_shape','_get_flat_indices','get_flat_indices','_get_flat_indices_fast','__post_init__','n_rows','from_tuple_shape','asshape','empty_rows_removed','__getitem__'],
 'npstructures/raggedarray/__init__.py': ['__init__','shape','astype','__iter__','save','load','tolist','to_numpy_array','from_numpy_array','_from_array_list','_broadcast_rows','_reduce','_accumulate','__array_ufunc__','__array_function__','nonzero','sum','prod','mean','col_counts','all','any','max','min','argmax','argmin','cumsum','_row_accumulate','sort','_as_padded_matrix','new_func','fill','equals','__len__'],
 'npstructures/raggedarray/base.py': ['__init__','size','_change_view','_flatten_myself','ravel','_get_data_range','_set_data_range'],
 'npstructures/raggedarray/indexablearray.py': ['__getitem__','_get_row_col_subset','_get_row_subset','__setitem__','_get_row','_get_element','_get_view','_get_multiple_rows','subset','get_column_values'],
 'npstructures/raggedarray/raggedslice.py': ['ragged_slice'],
 'npstructures/arrayfunctions.py': ['concatenate','diff','zeros_like','ones_like','empty_like','where','unique'],
 'npstructures/hashtable.py': ['__init__','_get_indices','contains','__getitem__','_fill_values','__setitem__','_get_mod','_get_hash','_build_ragged_array','__eq__','__add__','fill','items','to_dict','zeros_like','ones_like','count'],
 'npstructures/bitarray.py': ['__init__','pack','unpack','__getitem__','sliding_window'],
 'npstructures/runlengtharray.py': None,   # all functions
 'npstructures/npdataclasses.py': ['__array_function__','_assert_same_lens','__getitem__','__len__','__iter__','astype','__init__','__eq__','_implicit_format_conversion'],
 'npstructures/mixin.py': ['__getitem__','_ragged_slice'],
 'npstructures/util.py': ['unsafe_extend_right','unsafe_extend_left','unsafe_extend_left_2d'],
}
CMP = {ast.Lt:ast.LtE, ast.LtE:ast.Lt, ast.Gt:ast.GtE, ast.GtE:ast.Gt, ast.Eq:ast.NotEq, ast.NotEq:ast.Eq}
BIN = {ast.Add:ast.Sub, ast.Sub:ast.Add, ast.Mult:ast.FloorDiv, ast.FloorDiv:ast.Mult, ast.BitOr:ast.BitAnd, ast.BitAnd:ast.BitOr, ast.RShift:ast.LShift, ast.LShift:ast.RShift, ast.Mod:ast.FloorDiv, ast.BitXor:ast.BitOr}
class Collector(ast.NodeVisitor):
    def __init__(self, funcs): self.funcs=funcs; self.sites=[]; self.stack=[]
    def visit_FunctionDef(self, node):
        self.stack.append(node.name); 
        for c in node.body: self.visit(c)
        self.stack.pop()
    def active(self): return bool(self.stack) and (self.funcs is None or self.stack[-1] in self.funcs or (len(self.stack)>1 and self.stack[0] in self.funcs))
    def generic_visit(self, node):
        if self.active():
            fn=self.stack[-1]
            if isinstance(node, ast.Compare) and len(node.ops)==1 and type(node.ops[0]) in CMP: self.sites.append((fn,'cmp',node))
            if isinstance(node, ast.BinOp) and type(node.op) in BIN: self.sites.append((fn,'bin',node))
            if isinstance(node, ast.Constant) and isinstance(node.value,int) and not isinstance(node.value,bool) and abs(node.value)<=2:
                self.sites.append((fn,'const+',node)); self.sites.append((fn,'const-',node))
            if isinstance(node, ast.Constant) and node.value in ('right','left'): self.sites.append((fn,'side',node))
            if isinstance(node, ast.Constant) and isinstance(node.value,bool): self.sites.append((fn,'bool',node))
            if isinstance(node, ast.BoolOp): self.sites.append((fn,'boolop',node))
            if isinstance(node, ast.UnaryOp) and isinstance(node.op,(ast.Not,ast.USub,ast.Invert)): self.sites.append((fn,'unary',node))
            if isinstance(node, (ast.Assign, ast.AugAssign, ast.Expr)) and not (isinstance(node,ast.Expr) and isinstance(node.value,ast.Constant)): self.sites.append((fn,'delstmt',node))
            if isinstance(node, ast.If): self.sites.append((fn,'ifneg',node))
            if isinstance(node, ast.Call) and len(node.args)==2 and isinstance(node.func,(ast.Attribute,ast.Name)): self.sites.append((fn,'swapargs',node))
            if isinstance(node, ast.Slice) : self.sites.append((fn,'slice',node))
        super().generic_visit(node)
def apply(kind, node):
    if kind=='cmp': node.ops=[CMP[type(node.ops[0])]()]
    elif kind=='bin': node.op=BIN[type(node.op)]()
    elif kind=='const+': node.value=node.value+1
    elif kind=='const-': node.value=node.value-1
    elif kind=='side': node.value='left' if node.value=='right' else 'right'
    elif kind=='bool': node.value=not node.value
    elif kind=='boolop': node.op = ast.Or() if isinstance(node.op,ast.And) else ast.And()
    elif kind=='unary':
        # replace node by operand: emulate by making it +operand / double
        node.op = ast.UAdd() if not isinstance(node.op, ast.Not) else ast.Not(); 
        if isinstance(node.op, ast.Not): node.operand = ast.UnaryOp(op=ast.Not(), operand=node.operand)
    elif kind=='delstmt':
        node.__class__=ast.Pass; node._fields=(); 
    elif kind=='ifneg': node.test=ast.UnaryOp(op=ast.Not(), operand=node.test)
    elif kind=='swapargs': node.args=[node.args[1],node.args[0]]
    elif kind=='slice':
        if node.lower is not None and node.upper is None: node.upper, node.lower = node.lower, None
        elif node.upper is not None and node.lower is None: node.lower, node.upper = node.upper, None
        else: return False
    return True
def gen(file, funcs):
    src=open(os.path.join(REPO,file)).read()
    tree=ast.parse(src)
    col=Collector(funcs); col.visit(tree)
    out=[]
    for i,(fn,kind,node) in enumerate(col.sites):
        t2=ast.parse(src); c2=Collector(funcs); c2.visit(t2)
        fn2,kind2,node2=c2.sites[i]
        try: ok=apply(kind2,node2)
        except Exception: ok=False
        if ok is False: continue
        try: new=ast.unparse(ast.fix_missing_locations(t2))
        except Exception: continue
        if new==ast.unparse(ast.parse(src)): continue
        out.append(dict(file=file, func=fn, kind=kind, line=getattr(node,'lineno',0), src=new))
    return out
if __name__=='__main__':
    rng=random.Random(1); allm=[]
    per_func=int(sys.argv[1]) if len(sys.argv)>1 else 4
    for f,funcs in ANCH.items():
        ms=gen(f,funcs)
        byf={}
        for m in ms: byf.setdefault(m['func'],[]).append(m)
        for fn,l in byf.items():
            rng.shuffle(l); allm+=l[:per_func]
    for i,m in enumerate(allm): m['id']=i
    json.dump(allm, open('mutants.json','w'))
    import collections
    print(len(allm), collections.Counter(m['file'] for m in allm))
